// C01 harness: intrusive lists (C dlist, C++ dlist, slist, hlist) against the
// Lean model IgrisModel/C01.  Stateful cases:
//   reset c <n>        n C dlist_head nodes, all dlist_init'ed
//   reset x <n> <k>    C++: item slots 0..n-1 (not constructed), lists n..n+k-1 constructed
//   reset s <n>        slist: n slist_head nodes, next = self
//   reset h <n> <k>    hlist: nodes 0..n-1, heads n..n+k-1
//   reset r <n>        C dlist: ONE ring 0,1,..,n-1 built with dlist_add_prev(i, 0) (n may exceed the
//                      1000-step limit of dlist_is_correct); cpoke_next/cpoke_prev then corrupt links by hand
//   reset t <n> <k>    objects 0..n-1 with TWO dlist_head members (la at offset 24, lb at offset 56),
//                      bare heads n..n+k-1 (even index: lists of la nodes, odd index: lists of lb nodes)
// Result of every op: "<value> | <dump of every node's link fields as ids>".
#include "common/hv.h"
#include <igris/datastruct/dlist.h>
#include <igris/container/dlist.h>
#include <igris/datastruct/slist.h>
#include <igris/container/slist.h>
#include <igris/datastruct/hlist.h>
#include <igris/util/memberxx.h>
#include <algorithm>
#include <climits>
#include <map>
#include <set>

using namespace hv;

// round 3b: this file is compiled as TWO translation units (checks/C01.json "sources"): as itself = the run part (real code,
// oracles, main) and through harness/C01_gen.cpp (#define C01_PART_GEN) = the generator only; the reference `Ref` is in both.
#ifndef C01_PART_GEN
// ---- round 3: the macro exercise in this TU (C++, -O1) and in harness/C01_o2.c (C, -O2)
#define MM_CAT_(a, b) a##b
#define MM_CAT(a, b) MM_CAT_(a, b)
#define MM_FN c01_mm_o1
#include "C01_macros.inc"
extern "C" int c01_mm_o2(int i, char *buf, int cap);
extern "C" int c01_o2_widths(char *buf, int cap);
extern "C" struct dlist_head c01_pm_head, c01_pm_nodes[3];
extern "C" struct slist_head c01_pm_shead, c01_pm_snodes[2];

#endif
// ------------------------------------------------------------------ reference
// The abstract state the property talks about: a family of disjoint cyclic
// sequences ("rings").  A self-linked node is a ring of one.  Poisoned, dead
// or never-initialised nodes are in no ring.
struct Ref
{
    std::vector<std::vector<int>> rings;
    int find(int a) const
    {
        for (size_t i = 0; i < rings.size(); i++)
            if (std::find(rings[i].begin(), rings[i].end(), a) != rings[i].end())
                return (int)i;
        return -1;
    }
    bool in_ring(int a) const { return find(a) >= 0; }
    bool multi(int a) const { int r = find(a); return r >= 0 && rings[r].size() > 1; }
    size_t ring_size(int a) const { int r = find(a); return r < 0 ? 0 : rings[r].size(); }
    // ring of a rotated so that a comes first
    std::vector<int> from(int a) const
    {
        int r = find(a);
        std::vector<int> v = rings[r];
        std::rotate(v.begin(), std::find(v.begin(), v.end(), a), v.end());
        return v;
    }
    void remove(int a) // take a out of its ring; a ends up in no ring
    {
        int r = find(a);
        if (r < 0) return;
        auto &v = rings[r];
        v.erase(std::find(v.begin(), v.end(), a));
        if (v.empty()) rings.erase(rings.begin() + r);
    }
    void single(int a) { remove(a); rings.push_back({a}); }
    bool lone(int a) const { return ring_size(a) == 1; }
    // dlist_init of a node that is in a ring: the ring is abandoned (its other members are in no ring)
    void abandon(int a) { int r = find(a); if (r >= 0) rings.erase(rings.begin() + r); rings.push_back({a}); }
    void ins_after(int x, int pos) { remove(x); int r = find(pos); auto &v = rings[r]; v.insert(std::find(v.begin(), v.end(), pos) + 1, x); }
    void ins_before(int x, int pos) { remove(x); int r = find(pos); auto &v = rings[r]; v.insert(std::find(v.begin(), v.end(), pos), x); }
    // contents of the list headed by h: the ring from h without h
    std::vector<int> list(int h) const { auto v = from(h); v.erase(v.begin()); return v; }
};

static std::string ids(const std::vector<int> &v)
{
    if (v.empty()) return "-";
    std::string s;
    for (size_t i = 0; i < v.size(); i++) s += (i ? "," : "") + std::to_string(v[i]);
    return s;
}

static bool cmp_mode(int mode, int a, int b)
{
    if (mode == 1) return a % 3 < b % 3;
    if (mode == 2) { int d = ((a * 37) & 255) - ((b * 37) & 255); d &= 255; return d >= 128; }
    return a < b;
}
#ifndef C01_PART_GEN
// ------------------------------------------------------------------ C dlist
struct CItem { int key; struct dlist_head lnk; };
static std::vector<CItem *> cn;
static int cid(struct dlist_head *p)
{
    for (size_t i = 0; i < cn.size(); i++) if (&cn[i]->lnk == p) return (int)i;
    return -1;
}
static std::string cptr(struct dlist_head *p)
{
#if defined(DLIST_POISON1) && defined(DLIST_POISON2)   // internal macro names: optional (round 3b)
    if (p == DLIST_POISON1) return "P1";
    if (p == DLIST_POISON2) return "P2";
#endif
    int i = cid(p);
    return i < 0 ? "?" : std::to_string(i);
}
static bool ckey_less(CItem *a, CItem *b) { return a->key < b->key; }
// round 3: a weak order with many ties (key mod 3) and the wrap-around comparator of the timers on an
// 8-bit counter, (int8_t)(a - b) < 0 (not transitive on the whole circle)
static bool ckey_mod3(CItem *a, CItem *b) { return a->key % 3 < b->key % 3; }
static bool ckey_wrap8(CItem *a, CItem *b) { return (int8_t)((uint8_t)(a->key * 37) - (uint8_t)(b->key * 37)) < 0; }

// ------------------------------------------------------------------ objects on two lists at once
struct TObj { char pad0[24]; struct dlist_head la; int key; char pad1[12]; struct dlist_head lb; };
static std::vector<TObj *> tobj;
static std::vector<struct dlist_head *> thead;
static bool tkey_less(TObj *a, TObj *b) { return a->key < b->key; }
// reference ids: member m of object i -> 2i+m, head j -> 2n+j
static struct dlist_head *tnode(int rid)
{
    int n = (int)tobj.size();
    if (rid >= 2 * n) return thead[rid - 2 * n];
    return rid % 2 ? &tobj[rid / 2]->lb : &tobj[rid / 2]->la;
}
static int trid(struct dlist_head *p)
{
    for (size_t i = 0; i < tobj.size(); i++) { if (p == &tobj[i]->la) return 2 * (int)i; if (p == &tobj[i]->lb) return 2 * (int)i + 1; }
    for (size_t j = 0; j < thead.size(); j++) if (p == thead[j]) return 2 * (int)tobj.size() + (int)j;
    return -1;
}
static std::string ttok(struct dlist_head *p)
{
#if defined(DLIST_POISON1) && defined(DLIST_POISON2)
    if (p == DLIST_POISON1) return "P1";
    if (p == DLIST_POISON2) return "P2";
#endif
    int r = trid(p), n = (int)tobj.size();
    if (r < 0) return "?";
    if (r >= 2 * n) return std::to_string(n + r - 2 * n);
    return std::to_string(r / 2) + (r % 2 ? "b" : "a");
}

// ------------------------------------------------------------------ C++ dlist
struct XItem { int key; igris::dlist_node lnk; };
typedef igris::dlist<XItem, &XItem::lnk> XList;
static std::vector<XItem *> xn;   // item slots (nullptr = dead)
static std::vector<XList *> xl;   // lists (nullptr = dead)
static int xnitems = 0;
// address of the head node of a list.  The iterator's field `current` is an internal name: when it is renamed or made
// private the head is found through the layout the header static_asserts (dlist_base is exactly its head node) - round 3b
template <class L> static igris::dlist_node *xhead_of(L *l)
{
    auto e = l->end();
    if constexpr (requires { e.current; }) return e.current;
    else return reinterpret_cast<igris::dlist_node *>(static_cast<igris::dlist_base *>(l));
}
static igris::dlist_node *xnode(int id)
{
    if (id < xnitems) return xn[id] ? &xn[id]->lnk : nullptr;
    XList *l = xl[id - xnitems];
    return l ? xhead_of(l) : nullptr;
}
static std::string xptr(igris::dlist_node *p)
{
    for (int i = 0; i < xnitems + (int)xl.size(); i++) if (xnode(i) == p) return std::to_string(i);
    return "?";
}

// ---- round 3: lists used BEFORE main().  The C heads are statically initialised (DLIST_HEAD_INIT /
// SLIST_HEAD_INIT in the C TU); `pm_xlist` is a static igris::dlist.  The constructor of `pm_obj`
// (init_priority(101): before every default-priority dynamic initialiser of this program) runs a fixed
// history on them and stores what it saw; the op `premain` reports it and walks the lists again.
static XList pm_xlist;
static std::string pm_walk_c()
{
    std::string s; struct dlist_head *it; int guard = 0;
    dlist_for_each(it, &c01_pm_head) { s += (s.empty() ? "" : ",") + std::to_string((int)(it - c01_pm_nodes)); if (++guard > 8) break; }
    return (s.empty() ? "-" : s) + "/" + std::to_string(dlist_size(&c01_pm_head));
}
static std::string pm_walk_s()
{
    std::string s; struct slist_head *it; int guard = 0;
    slist_for_each(it, &c01_pm_shead) { s += (s.empty() ? "" : ",") + std::to_string((int)(it - c01_pm_snodes)); if (++guard > 8) break; }
    return (s.empty() ? "-" : s) + "/" + std::to_string(slist_size(&c01_pm_shead));
}
static std::string pm_walk_x()
{
    std::string s; int guard = 0;
    for (auto &it : pm_xlist) { s += (s.empty() ? "" : ",") + std::to_string(it.key); if (++guard > 8) break; }
    return (s.empty() ? "-" : s) + "/" + std::to_string(pm_xlist.size());
}
struct PreMain
{
    std::string c, sl, x;
    bool x_ready = false;
    XItem *items[3] = {nullptr, nullptr, nullptr};
    PreMain()
    {
        // C dlist: 0 at the tail, 1 at the front, 2 at the tail, then 2 moved to the front: 2,1,0
        dlist_add_tail(&c01_pm_nodes[0], &c01_pm_head);
        dlist_add(&c01_pm_nodes[1], &c01_pm_head);
        dlist_add_tail(&c01_pm_nodes[2], &c01_pm_head);
        dlist_move(&c01_pm_nodes[2], &c01_pm_head);
        c = pm_walk_c();
        slist_add(&c01_pm_snodes[0], &c01_pm_shead);
        slist_add(&c01_pm_snodes[1], &c01_pm_shead);
        sl = pm_walk_s();
        // C++ dlist: only when the static list is already a self-linked head (a zero-filled one would crash)
        x_ready = pm_xlist.first_node() != nullptr && pm_xlist.last_node() != nullptr;
        if (x_ready)
        {
            for (int i = 0; i < 3; i++) { items[i] = new XItem(); items[i]->key = i; }
            pm_xlist.move_back(*items[0]);
            pm_xlist.move_front(*items[1]);
            pm_xlist.move_back(*items[2]);
            pm_xlist.pop_front();       // 1 leaves: 0,2
            x = pm_walk_x();
        }
        else x = "unconstructed";
    }
    ~PreMain() { for (auto *p : items) delete p; }
};
static PreMain pm_obj __attribute__((init_priority(101)));

// ------------------------------------------------------------------ slist
struct SItem { int key; struct slist_head lnk; };
static std::vector<SItem *> sn;
static std::string sptr(struct slist_head *p)
{
    for (size_t i = 0; i < sn.size(); i++) if (&sn[i]->lnk == p) return std::to_string(i);
    return "?";
}
// C++ wrapper over the same nodes, head = node 0 is not usable (private head):
typedef igris::slist<SItem, &SItem::lnk> SList;

// ------------------------------------------------------------------ hlist
struct HItem { int key; struct hlist_node lnk; };
static std::vector<HItem *> hitem;
static std::vector<struct hlist_node *> hn;   // hn[i] = &hitem[i]->lnk
static std::vector<struct hlist_head *> hh;
static std::string hnid(struct hlist_node *p)
{
    if (!p) return "0";
    for (size_t i = 0; i < hn.size(); i++) if (hn[i] == p) return std::to_string(i);
    return "?";
}
static std::string hloc(struct hlist_node **pp)
{
    if (!pp) return "0";
    for (size_t i = 0; i < hh.size(); i++) if (&hh[i]->first == pp) return "H" + std::to_string(hn.size() + i);
    for (size_t i = 0; i < hn.size(); i++) if (&hn[i]->next == pp) return "N" + std::to_string(i);
    return "?";
}

// ------------------------------------------------------------------ state
static char kind = 0;
static bool corrupt = false;   // links were poked by hand: only the bounded walks are judged
static Ref ref;
static std::map<int, std::vector<int>> hlists; // hlist reference: head id -> node ids

static std::map<int, std::vector<int>> slists; // slist reference: head id -> element ids
static std::set<int> hidle;                     // hlist nodes with pprev == NULL (node_init'ed, not linked since)
// OBSERVABLE (round 3 correction): the property says of a REMOVED node only that no list reaches it (oracle).
// Its own link fields are left open (poison values of dlist_del, stale next of a popped slist node, stale
// next/pprev of a deleted hlist node), so the dump prints a fixed token for them:
//   c / t kinds: nodes removed with the plain dlist_del and not re-initialised / re-inserted since (ids; t: rids)
//   s kind: nodes that are in no list (s_free);  h kind: nodes that no head's chain reaches.
static std::set<int> removed_d;

// container_of-style macros with a SIDE-EFFECTING argument: the argument must be evaluated exactly once
// (one pop idiom = one pop).  Every helper counts its evaluations.
static int g_evals = 0;
static struct slist_head *counted_spop(struct slist_head *h) { g_evals++; return slist_pop_first(h); }
static struct slist_head *counted_shead(struct slist_head *h) { g_evals++; return h; }
static struct dlist_head *counted_dpop(struct dlist_head *h)
{
    g_evals++;
    struct dlist_head *n = h->next;
    if (n == h) return NULL;
    dlist_del_init(n);
    return n;
}
static struct hlist_node *counted_hpop(struct hlist_head *h)
{
    g_evals++;
    struct hlist_node *n = h->first;
    if (!n) return NULL;
    hlist_del(n);
    return n;
}
static std::string evals_msg() { return "the argument of a container_of macro was evaluated " + std::to_string(g_evals) + " times (contract: exactly once; one pop idiom = one pop)"; }

// ENABLEDNESS: the calls the reference semantics admits, recomputed here from the harness's own
// reference state (the Lean side proves `Admitted fam op <-> exists fam', AStep fam op fam'`).
// "" = admitted, otherwise the reason.  Ops that are not listed are queries (always admitted).
static std::string admitted_d(const Ref &R, const std::string &op, int a, int b)
{
    auto unlinked = [&](int x) { return !R.in_ring(x) || R.lone(x); };
    if (op == "cadd_next" || op == "cadd_prev" || op == "cinsert_instead" || op == "cmove_sorted" || op == "cmove_sorted_k")
    {
        if (!unlinked(a)) return "the entry is linked (Linux contract: add/insert want an unlinked entry)";
        if (a == b) return "entry == position";
        if (!R.in_ring(b)) return "the position is in no ring";
    }
    else if (op == "cpop_entry" || op == "cdel" || op == "cdel_init" || op == "xunlink" || op == "xdel" || op == "xpop_front" || op == "xpop_back" ||
             op == "xclear" || op == "xldel" || op == "xround_left")
    { if (!R.in_ring(a)) return "the node is in no ring"; }
    else if (op == "cmove" || op == "cmove_tail" || op == "xmove_next" || op == "xmove_prev" || op == "xmove_front" || op == "xmove_back")
    { if (!R.in_ring(a) || !R.in_ring(b)) return "a node is in no ring"; }
    else if (op == "xnew" || op == "xlnew") { if (!unlinked(a)) return "constructed over a linked node"; }
    else if (op == "xsplice_same") { if (!R.in_ring(a) || !R.in_ring(b) || a == b || R.find(a) != R.find(b)) return "xsplice_same wants two different heads of ONE ring"; }
    else if (op == "xmove_head") { if (!R.in_ring(a) || !R.in_ring(b)) return "a node is in no ring"; }
    else if (op == "xsplice") { if (!R.in_ring(a) || !R.in_ring(b) || (a != b && R.find(a) == R.find(b))) return "heads in the same ring / in no ring"; }
    return "";
}
static bool s_free(int a)
{
    for (auto &kv : slists) if (kv.first == a || std::find(kv.second.begin(), kv.second.end(), a) != kv.second.end()) return false;
    return true;
}
static int s_owner(int a) // head of the list a is an element of, -1
{
    for (auto &kv : slists) if (std::find(kv.second.begin(), kv.second.end(), a) != kv.second.end()) return kv.first;
    return -1;
}
static std::string admitted_s(const std::string &op, int a, int b)
{
    auto lone = [&](int x) { return slists.count(x) && slists[x].empty(); };
    if (op == "sinit") { if (!s_free(a) && !slists.count(a)) return "slist_init of an element"; }
    else if (op == "sadd" || op == "sxadd")
    {
        if (!s_free(a) && !lone(a)) return "the new node is in a list";
        if (a == b) return "node == position";
        if (!slists.count(b) && s_owner(b) < 0) return "the position is in no list";
        if (op == "sxadd" && !slists.count(b)) return "add_first on a non-head";
    }
    else if (op == "spop" || op == "sxiter" || op == "spop_entry") { if (!slists.count(a)) return "not a list head"; }
    else if (op == "smove_front")
    {
        if (!slists.count(b)) return "not a list head";
        if (a == b) return "node == head";
        if (!(s_owner(a) == b || s_free(a) || lone(a))) return "the node is in another list";
    }
    return "";
}
static bool h_linked(int a)
{
    for (auto &kv : hlists) if (std::find(kv.second.begin(), kv.second.end(), a) != kv.second.end()) return true;
    return false;
}
static std::string admitted_h(const std::string &op, int a, const std::string &loc)
{
    if (op == "hnode_init") { if (h_linked(a)) return "hlist_node_init of a linked node"; }
    else if (op == "hadd")
    {
        if (h_linked(a)) return "the node is linked";
        int t = atoi(loc.c_str() + 1);
        if (loc[0] == 'H') { if (!hlists.count(t)) return "not a head"; }
        else if (!h_linked(t)) return "&p->next of a node that is not linked";
    }
    else if (op == "hdel") { if (!h_linked(a) && !hidle.count(a)) return "hlist_del of a node that was deleted before (stale pprev)"; }
    return "";
}

static void free_all()
{
    for (auto p : cn) free(p);
    cn.clear();
    for (auto p : tobj) free(p);
    for (auto p : thead) free(p);
    tobj.clear(); thead.clear();
    for (auto &p : xl) { if (p) { while (!p->empty()) p->pop_front(); delete p; } p = nullptr; }
    for (auto &p : xn) { delete p; p = nullptr; }
    xl.clear(); xn.clear();
    for (auto p : sn) free(p);
    sn.clear();
    for (auto p : hitem) free(p);
    for (auto p : hh) free(p);
    hn.clear(); hh.clear(); hitem.clear();
    ref = Ref();
    hlists.clear();
    slists.clear();
    hidle.clear();
    removed_d.clear();
}

static bool s_free(int a);
static std::string dump()
{
    std::string s;
    if (kind == 'c')
    {
        if (cn.size() > 16) return s;
        for (size_t i = 0; i < cn.size(); i++)
            s += (i ? " " : "") + std::to_string(i) + ":" + (removed_d.count((int)i) ? std::string("-/-") : cptr(cn[i]->lnk.next) + "/" + cptr(cn[i]->lnk.prev));
    }
    else if (kind == 't')
    {
        for (size_t i = 0; i < tobj.size(); i++)
            s += (i ? " " : "") + std::to_string(i) + ":a=" + (removed_d.count(2 * (int)i) ? std::string("-/-") : ttok(tobj[i]->la.next) + "/" + ttok(tobj[i]->la.prev)) +
                 ",b=" + (removed_d.count(2 * (int)i + 1) ? std::string("-/-") : ttok(tobj[i]->lb.next) + "/" + ttok(tobj[i]->lb.prev));
        for (size_t j = 0; j < thead.size(); j++)
            s += " " + std::to_string(tobj.size() + j) + ":" + ttok(thead[j]->next) + "/" + ttok(thead[j]->prev);
    }
    else if (kind == 'x')
        for (int i = 0; i < xnitems + (int)xl.size(); i++)
        {
            igris::dlist_node *n = xnode(i);
            s += (i ? " " : "") + std::to_string(i) + ":" + (n ? xptr(n->next) + "/" + xptr(n->prev) : std::string("dead"));
        }
    else if (kind == 's')
        for (size_t i = 0; i < sn.size(); i++)
            s += (i ? " " : "") + std::to_string(i) + ":" + (s_free((int)i) ? std::string("-") : sptr(sn[i]->lnk.next));
    else if (kind == 'h')
    {
        // which nodes the chains of the real heads reach (bounded walk on the real structure)
        std::set<struct hlist_node *> reach;
        for (auto *h : hh) { size_t guard = 0; for (struct hlist_node *p = h->first; p && guard++ <= hn.size(); p = p->next) reach.insert(p); }
        for (size_t i = 0; i < hn.size(); i++)
            s += (i ? " " : "") + std::to_string(i) + ":" + (reach.count(hn[i]) ? hnid(hn[i]->next) + "/" + hloc(hn[i]->pprev) : std::string("-/-"));
        for (size_t i = 0; i < hh.size(); i++)
            s += " " + std::to_string(hn.size() + i) + ":" + hnid(hh[i]->first);
    }
    return s;
}

// ---- property oracle on the real structures --------------------------------
static void oracle_c(out &o)
{
    // every ring of the reference: forward = reference order, backward = reverse,
    // neighbours point back, sizes / emptiness / membership / is_correct agree
    for (auto &ring : ref.rings)
        for (int hd : ring)
        {
            std::vector<int> want = ref.list(hd), fw, bw;
            struct dlist_head *head = &cn[hd]->lnk, *it;
            int guard = 0;
            dlist_for_each(it, head) { fw.push_back(cid(it)); if (++guard > 10000) break; }
            guard = 0;
            dlist_for_each_reverse(it, head) { bw.push_back(cid(it)); if (++guard > 10000) break; }
            if (fw != want) return o.fail("C dlist forward traversal from " + std::to_string(hd) + " = " + ids(fw) + ", reference " + ids(want));
            std::reverse(bw.begin(), bw.end());
            if (bw != want) return o.fail("C dlist backward traversal from " + std::to_string(hd) + " != reverse of reference");
            if (head->next->prev != head || head->prev->next != head) return o.fail("neighbours of " + std::to_string(hd) + " do not point back");
            if (dlist_size(head) != (int)want.size() || dlist_size_reversed(head) != (int)want.size()) return o.fail("dlist_size disagrees with reference");
            if ((bool)dlist_empty(head) != want.empty()) return o.fail("dlist_empty disagrees");
            if (!dlist_is_correct(head)) return o.fail("dlist_is_correct false on a well-formed list");
            // entry iteration through the member-offset macros
            CItem *pos; std::vector<int> ent;
            guard = 0;
            dlist_for_each_entry(pos, head, lnk) { ent.push_back(pos->key); if (++guard > 10000) break; }
            if (ent != want) return o.fail("dlist_for_each_entry disagrees");
        }
    // a node in no ring (poisoned) is reachable from no list
    for (size_t i = 0; i < cn.size(); i++)
        if (!ref.in_ring((int)i))
            for (size_t j = 0; j < cn.size(); j++)
                if (ref.in_ring((int)j) && (cn[j]->lnk.next == &cn[i]->lnk || cn[j]->lnk.prev == &cn[i]->lnk))
                    return o.fail("removed node " + std::to_string(i) + " still reachable from " + std::to_string(j));
}
// bounded walks on a ring that may be corrupted: judged by cycle detection on the id graph
// (first return time of `start` under the successor map, -1 when it does not return within `count` steps)
static int first_return(const std::vector<int> &succ, int start, int count)
{
    std::vector<int> seen(succ.size(), -1);
    int it = start, k = 0;
    while (true)
    {
        it = succ[it];
        if (it == start) return k < count ? k : -1;
        if (seen[it] >= 0) return -1; // entered a cycle that does not contain start
        seen[it] = k++;
        if (k > (int)succ.size() + 1) return -1;
    }
}
static void c_succ(std::vector<int> &nx, std::vector<int> &pv)
{
    // address -> id: the nodes do not move within a case, so the table is built once per case (300 000-node rings)
    static std::map<struct dlist_head *, int> id;
    static CItem *id_first = nullptr;
    if (id.size() != cn.size() || (!cn.empty() && id_first != cn[0]))
    {
        id.clear();
        for (size_t i = 0; i < cn.size(); i++) id.emplace_hint(id.end(), &cn[i]->lnk, (int)i);
        id_first = cn.empty() ? nullptr : cn[0];
    }
    nx.resize(cn.size()); pv.resize(cn.size());
    for (size_t i = 0; i < cn.size(); i++) { nx[i] = id[cn[i]->lnk.next]; pv[i] = id[cn[i]->lnk.prev]; }
}
static void oracle_walks(out &o, const std::string &op, int a, int b, const std::string &val)
{
    std::vector<int> nx, pv;
    c_succ(nx, pv);
    if (op == "csize" || op == "csize_rev")
    {
        // the int result = number of other nodes of the cycle through a (cycle detection on the id graph), exact up to INT_MAX
        int f = first_return(op == "csize" ? nx : pv, a, INT_MAX);
        if (f < 0) return; // the walk does not return (corrupted ring): not asked
        if (atol(val.c_str()) != (long)f) o.fail("dlist_size / dlist_size_reversed != number of elements of the ring (" + std::to_string(f) + ")");
    }
    else if (op == "cin") { /* a = fnd, b = head */ bool in = false; int it = b, g = 0; for (it = nx[b]; it != b && g++ <= (int)nx.size(); it = nx[it]) if (it == a) in = true; if ((val == "1") != in) o.fail("dlist_in disagrees with the id graph"); }
    else if (op == "ccheck") { if (atoi(val.c_str()) != first_return(nx, a, b)) o.fail("dlist_check != first return time of the forward walk"); }
    else if (op == "ccheck_rev") { if (atoi(val.c_str()) != first_return(pv, a, b)) o.fail("dlist_check_reversed != first return time of the backward walk"); }
    else if (op == "ccorrect")
    {
        // after the repair (round 3b): true iff the forward walk returns to a within 1000 steps AND every node of that
        // cycle is pointed back at by its successor (= a is on a well-formed ring of at most 1000 nodes)
        int f = first_return(nx, a, 1000), r = first_return(pv, a, 1000);
        bool back = true;
        if (f >= 0) { int it = a; for (int k = 0; k <= f; k++) { if (pv[nx[it]] != it) back = false; it = nx[it]; } }
        bool want = f >= 0 && back;
        if ((val == "1") != want) o.fail("dlist_is_correct != (the forward walk returns within 1000 steps and every visited node is pointed back at by its successor)");
        if (f < 0) o.tag("correct-fwd-fails"); else if (r < 0) o.tag("correct-bwd-fails"); else if (f != r) o.tag("correct-lengths-differ");
        if (f >= 0 && !back) o.tag("correct-backlink-wrong");
        if (f >= 0 && !back && r == f) o.tag("correct-backlink-wrong-same-length");
    }
}
// two-member objects: every ring of the reference, read from every member
static void oracle_t(out &o)
{
    for (auto &ring : ref.rings)
        for (int hd : ring)
        {
            std::vector<int> want = ref.list(hd), fw, bw;
            struct dlist_head *head = tnode(hd), *it;
            int guard = 0;
            dlist_for_each(it, head) { fw.push_back(trid(it)); if (++guard > 10000) break; }
            guard = 0;
            dlist_for_each_reverse(it, head) { bw.push_back(trid(it)); if (++guard > 10000) break; }
            std::reverse(bw.begin(), bw.end());
            if (fw != want) return o.fail("two-member objects: forward traversal from " + ttok(head) + " disagrees with the reference");
            if (bw != want) return o.fail("two-member objects: backward traversal from " + ttok(head) + " disagrees with the reference");
            if (head->next->prev != head || head->prev->next != head) return o.fail("neighbours of " + ttok(head) + " do not point back");
        }
}
static std::vector<std::pair<struct dlist_head *, struct dlist_head *>> t_snapshot(int m)
{
    // link fields of every node that belongs to the lists of member m
    std::vector<std::pair<struct dlist_head *, struct dlist_head *>> v;
    for (auto p : tobj) { struct dlist_head *n = m ? &p->lb : &p->la; v.push_back({n->next, n->prev}); }
    for (size_t j = 0; j < thead.size(); j++) if ((int)(j % 2) == m) v.push_back({thead[j]->next, thead[j]->prev});
    return v;
}

static void oracle_x(out &o)
{
    for (auto &ring : ref.rings)
        for (int hd : ring)
        {
            std::vector<int> want = ref.list(hd), fw, bw;
            igris::dlist_node *head = xnode(hd);
            if (!head) return o.fail("reference has a dead node in a ring");
            int guard = 0;
            for (auto *n = head->next; n != head && ++guard < 10000; n = n->next) fw.push_back(atoi(xptr(n).c_str()));
            guard = 0;
            for (auto *n = head->prev; n != head && ++guard < 10000; n = n->prev) bw.push_back(atoi(xptr(n).c_str()));
            std::reverse(bw.begin(), bw.end());
            if (fw != want) return o.fail("C++ dlist forward traversal from " + std::to_string(hd) + " = " + ids(fw) + ", reference " + ids(want));
            if (bw != want) return o.fail("C++ dlist backward traversal != reverse of reference");
            if (head->next->prev != head || head->prev->next != head) return o.fail("neighbours do not point back");
            if (head->is_linked() != !want.empty()) return o.fail("is_linked disagrees");
            if (hd >= xnitems)
            {
                XList *l = xl[hd - xnitems];
                if (l->size() != want.size() || l->empty() != want.empty() || !l->is_correct()) return o.fail("size/empty/is_correct of list disagree with reference");
                std::vector<int> keys, rkeys;
                bool all_items = true;
                for (int w : want) if (w >= xnitems) all_items = false; // another list head spliced in: keys undefined
                if (all_items)
                {
                    for (auto &it : *l) keys.push_back(it.key);
                    for (auto it = l->rbegin(); it != l->rend(); ++it) rkeys.push_back(it->key);
                    std::reverse(rkeys.begin(), rkeys.end());
                    if (keys != want || rkeys != want) return o.fail("iterator traversal disagrees with reference");
                }
            }
        }
}
static void oracle_s(out &o)
{
    std::set<int> seen;
    for (auto &kv : slists)
    {
        int hd = kv.first;
        const std::vector<int> &want = kv.second;
        std::vector<int> fw;
        struct slist_head *head = &sn[hd]->lnk, *it;
        int guard = 0;
        slist_for_each(it, head) { fw.push_back(atoi(sptr(it).c_str())); if (++guard > 10000) break; }
        if (fw != want) { if (fw.size() > 40) fw.resize(40); return o.fail("slist traversal from " + std::to_string(hd) + " = " + ids(fw) + (fw.size() == 40 ? ",..." : "") + ", reference " + ids(want)); }
        if (slist_size(head) != (int)want.size() || (bool)slist_empty(head) != want.empty()) return o.fail("slist_size/empty disagree");
        for (size_t k = 0; k < sn.size(); k++)
            if ((bool)slist_in(head, &sn[k]->lnk) != (std::find(want.begin(), want.end(), (int)k) != want.end()))
                return o.fail("slist_in disagrees");
        // lists share no node
        if (!seen.insert(hd).second) return o.fail("a head is also an element");
        for (int x : want) if (!seen.insert(x).second) return o.fail("node " + std::to_string(x) + " is in two lists");
        // entry iteration through the member-offset macros
        SItem *pos; std::vector<int> ent;
        guard = 0;
        slist_for_each_entry(pos, head, lnk) { ent.push_back(pos->key); if (++guard > 10000) break; }
        if (ent != want) return o.fail("slist_for_each_entry disagrees");
    }
}
static void oracle_h(out &o)
{
    for (auto &kv : hlists)
    {
        std::vector<int> fw;
        struct hlist_node *p;
        int guard = 0;
        hlist_for_each(p, hh[kv.first - hn.size()]) { fw.push_back(atoi(hnid(p).c_str())); if (++guard > 10000) break; }
        if (fw != kv.second) return o.fail("hlist traversal of head " + std::to_string(kv.first) + " = " + ids(fw) + ", reference " + ids(kv.second));
        // every linked node's pprev points at the location that points at it
        for (int n : kv.second)
            if (*hn[n]->pprev != hn[n]) return o.fail("hlist pprev of " + std::to_string(n) + " does not point back");
        // the last node ends the chain, the first node's pprev is the head's `first` field
        // … exactly: &head->first for the first node, &predecessor->next for every other one
        for (size_t i = 0; i < kv.second.size(); i++)
        {
            struct hlist_node **want = i == 0 ? &hh[kv.first - hn.size()]->first : &hn[kv.second[i - 1]]->next;
            if (hn[kv.second[i]]->pprev != want) return o.fail("pprev of node " + std::to_string(kv.second[i]) + " is not the location of its predecessor's link");
        }
        if (!kv.second.empty() && hn[kv.second.back()]->next != 0) return o.fail("the last node's next is not NULL");
    }
    for (int n : hidle) if (hn[n]->pprev != 0) return o.fail("idle node " + std::to_string(n) + " has a non-NULL pprev");
}

static void run_op(const std::vector<std::string> &w, const std::string &, out &o)
{
    const std::string &op = w[0];
    auto A = [&](size_t i) { return atoi(w[i].c_str()); };
    std::string val = "ok";
    if (op == "reset")
    {
        free_all();
        kind = w[1][0];
        corrupt = false;
        int n = A(2);
        if (kind == 'r' || kind == 'R')
        {
            kind = 'c';
            for (int i = 0; i < n; i++)
            {
                CItem *p = (CItem *)malloc(sizeof(CItem));
                p->key = i;
                dlist_init(&p->lnk);
                cn.push_back(p);
                if (i) dlist_add_prev(&p->lnk, &cn[0]->lnk);
            }
            std::vector<int> all;
            for (int i = 0; i < n; i++) all.push_back(i);
            ref.rings.push_back(all);
            if (n > 1000) o.tag("ring-over-limit");
            if (n >= 300000) o.tag("long-ring");
        }
        else if (kind == 't')
        {
            for (int i = 0; i < n; i++)
            {
                TObj *p = (TObj *)malloc(sizeof(TObj));
                p->key = i;
                dlist_init(&p->la); dlist_init(&p->lb);
                tobj.push_back(p);
            }
            for (int j = 0; j < A(3); j++) { auto *p = (struct dlist_head *)malloc(sizeof(struct dlist_head)); dlist_init(p); thead.push_back(p); }
            for (int i = 0; i < 2 * n + A(3); i++) ref.single(i);
        }
        else if (kind == 'c')
            for (int i = 0; i < n; i++)
            {
                CItem *p = (CItem *)malloc(sizeof(CItem));
                p->key = i;
                dlist_init(&p->lnk);
                cn.push_back(p);
                ref.single(i);
            }
        else if (kind == 'x')
        {
            xnitems = n;
            xn.assign(n, nullptr);
            for (int i = 0; i < A(3); i++) { xl.push_back(new XList()); ref.single(n + i); }
        }
        else if (kind == 's')
            for (int i = 0; i < n; i++)
            {
                SItem *p = (SItem *)malloc(sizeof(SItem));
                p->key = i;
                p->lnk.next = &p->lnk;
                sn.push_back(p);
                slists[i] = {};
            }
        else if (kind == 'h')
        {
            for (int i = 0; i < n; i++) { auto *p = (HItem *)malloc(sizeof(HItem)); p->key = i; p->lnk.next = 0; p->lnk.pprev = 0; hitem.push_back(p); hn.push_back(&p->lnk); hidle.insert(i); }
            for (int i = 0; i < A(3); i++) { auto *p = (struct hlist_head *)malloc(sizeof(struct hlist_head)); p->first = 0; hh.push_back(p); hlists[n + i] = {}; }
        }
    }
    // ---------------- round 3: kind-independent ops
    else if (op == "widths")
    {
        // type widths, struct sizes, constants the model embeds, read out of the compiled code (C++ TU and C -O2 TU)
        struct dlist_head dh; igris::dlist_node xn_; XList xl_;
        char b2[128]; c01_o2_widths(b2, sizeof b2);
        // the bound of dlist_is_correct, measured: the longest well-formed ring it accepts
        int bound = 0;
        {
            std::vector<struct dlist_head> ring(1100);
            dlist_init(&ring[0]);
            for (int n = 1; n < 1100; n++) { dlist_add_prev(&ring[n], &ring[0]); if (dlist_is_correct(&ring[0])) bound = n + 1; }
        }
        val = "int=" + std::to_string(sizeof(dlist_size(&dh))) + "," + std::to_string(sizeof(dlist_size_reversed(&dh))) + "," + std::to_string(sizeof(slist_size((struct slist_head *)nullptr))) +
              "," + std::to_string(sizeof(dlist_check(&dh, 0))) +
              " size_t=" + std::to_string(sizeof(xn_.circular_size())) + "," + std::to_string(sizeof(xl_.size())) +
              " ptr=" + std::to_string(sizeof(void *)) + " structs=" + std::to_string(sizeof(struct dlist_head)) + "," + std::to_string(sizeof(struct slist_head)) + "," +
              std::to_string(sizeof(struct hlist_node)) + "," + std::to_string(sizeof(struct hlist_head)) + "," + std::to_string(sizeof(igris::dlist_node)) + "," + std::to_string(sizeof(XList)) +
              " c=" + b2 + " bound=" + std::to_string(bound) +
              " off=" + std::to_string(member_offset(&XItem::lnk)) + "," + std::to_string(member_offsetof(XItem, lnk)) + "," + std::to_string(member_offsetof(struct MMObj, hl)) +
              " msize=" + std::to_string(member_sizeof(struct MMObj, la)) + "," + std::to_string(member_sizeof(struct MMObj, sl)) + "," + std::to_string(member_sizeof(struct MMObj, hl)) + "," + std::to_string(sizeof(struct MMObj));
        if (sizeof(dlist_size(&dh)) * CHAR_BIT != 32 || sizeof(xn_.circular_size()) * CHAR_BIT != 64) o.fail("counter widths are not int32 / size_t64");
        o.tag("widths");
    }
    else if (op == "mmac")
    {
        char buf[512];
        int tu = A(1), i = A(2);
        if (tu == 0) c01_mm_o1(i, buf, sizeof buf); else c01_mm_o2(i, buf, sizeof buf);
        val = buf;
        // oracle: every evaluation count is 1 (0 for the sizeof / typeof operands), independent of the model
        std::vector<std::string> toks; { std::string t; for (char ch : val + " ") { if (ch == ' ') { toks.push_back(t); t.clear(); } else t += ch; } }
        for (size_t k = 0; k < toks.size(); k++)
        {
            size_t c = toks[k].find(':');
            if (c == std::string::npos) continue;
            int ev = atoi(toks[k].c_str() + c + 1), want = (k == 17 || k == 18) ? 0 : 1;
            if (ev != want) o.fail("macro #" + std::to_string(k) + " of the member.h / list-header exercise evaluated its argument " + std::to_string(ev) + " times (contract: " + std::to_string(want) + ")");
            if (toks[k][0] == '?') o.fail("macro #" + std::to_string(k) + " returned a pointer that is no object of the fixture");
        }
        o.tag(tu ? "macros-C-O2" : "macros-C++-O1");
    }
    else if (op == "xsplice_same")
    {
        // two list heads in ONE ring spliced into each other (theorem splice_same_ring): L holds 1 2 3, the head node of O is
        // moved in front of item m (m = 0: in front of L's head, i.e. at the tail), then L takes everything from O.
        // Prose: L ends up with the nodes that followed O's head, then those that followed L's head up to O; O is empty.
        int m = A(1);
        XList *L = new XList(), *O = new XList();
        XItem *it[3];
        for (int i = 0; i < 3; i++) { it[i] = new XItem(); it[i]->key = i + 1; L->move_back(*it[i]); }
        xhead_of(O)->move_prev_than(m == 0 ? xhead_of(L) : &it[m - 1]->lnk);
        L->unlink_and_move_all_nodes_from_other(std::move(*O));
        std::vector<int> fw, bw, want; int guard = 0;
        for (auto i = L->begin(); i != L->end() && guard++ < 8; ++i) fw.push_back(i->key);
        guard = 0;
        for (auto i = L->rbegin(); i != L->rend() && guard++ < 8; ++i) bw.push_back(i->key);
        bool ok = L->is_correct() && O->is_correct();
        val = ids(fw) + " " + ids(bw) + " " + (O->empty() ? "1" : "0") + " " + std::to_string(L->size()) + " " + (ok ? "1" : "0");
        for (int k = (m == 0 ? 1 : m); k <= 3; k++) want.push_back(k);
        for (int k = 1; k < m; k++) want.push_back(k);
        std::vector<int> rwant(want.rbegin(), want.rend());
        if (fw != want || bw != rwant) o.fail("splice of two heads of one ring: destination = " + ids(fw) + " (backward " + ids(bw) + "), expected " + ids(want));
        if (!O->empty() || L->size() != 3 || !ok) o.fail("splice of two heads of one ring: source not empty / size / is_correct wrong");
        for (auto *p : it) delete p;
        delete L; delete O;
        o.tag("splice-same-ring");
    }
    else if (op == "xcorrect_poke")
    {
        // igris::dlist::is_correct() on a hand-corrupted ring (the C++ node's links are public fields): it must RETURN
        // (the old circular_size() comparison never did on a lasso) and answer "well-formed ring"
        int m = A(1);
        XList *L = new XList();
        XItem *it[3];
        for (int i = 0; i < 3; i++) { it[i] = new XItem(); it[i]->key = i; L->move_back(*it[i]); }
        igris::dlist_node *hd = xhead_of(L), *n1 = &it[0]->lnk, *n2 = &it[1]->lnk, *n3 = &it[2]->lnk;
        if (m == 1) n3->next = n2;
        else if (m == 2) { hd->prev = n1; n1->prev = n2; n2->prev = n3; n3->prev = hd; }
        else if (m == 3) n2->prev = hd;
        else if (m == 4) hd->prev = n1;
        val = L->is_correct() ? "1" : "0";
        if ((val == "1") != (m == 0)) o.fail("igris::dlist::is_correct() on a hand-corrupted ring (mode " + std::to_string(m) + ") = " + val);
        // restore before the destructors unlink the nodes
        hd->next = n1; n1->next = n2; n2->next = n3; n3->next = hd; hd->prev = n3; n3->prev = n2; n2->prev = n1; n1->prev = hd;
        for (auto *p : it) delete p;
        delete L;
        o.tag(m ? "cpp-correct-corrupt" : "cpp-correct-intact");
    }
    else if (op == "premain")
    {
        // what the init_priority(101) constructor saw, and the same lists walked now
        val = "c=" + pm_obj.c + " s=" + pm_obj.sl + " x=" + pm_obj.x + " now c=" + pm_walk_c() + " s=" + pm_walk_s() + " x=" + pm_walk_x();
        if (pm_obj.c != "2,1,0/3" || pm_walk_c() != "2,1,0/3") o.fail("statically initialised C dlist (DLIST_HEAD_INIT) used before main(): traversal " + pm_obj.c + ", expected 2,1,0/3");
        if (pm_obj.sl != "1,0/2" || pm_walk_s() != "1,0/2") o.fail("statically initialised slist (SLIST_HEAD_INIT) used before main(): traversal " + pm_obj.sl + ", expected 1,0/2");
        if (!pm_obj.x_ready) o.fail("a static igris::dlist is not a self-linked head before its dynamic initialiser ran (next == nullptr): use from an earlier static constructor dereferences NULL, and nodes linked before main() would be orphaned by the late constructor");
        else if (pm_obj.x != "0,2/2" || pm_walk_x() != "0,2/2") o.fail("static igris::dlist used before main(): traversal " + pm_obj.x + " / now " + pm_walk_x() + ", expected 0,2/2");
        o.tag("pre-main");
    }
    // ---------------- C dlist
    else if (kind == 'c')
    {
        int a = A(1), b = w.size() > 2 ? A(2) : 0;
        struct dlist_head *pa = &cn[a]->lnk, *pb = w.size() > 2 && b < (int)cn.size() ? &cn[b]->lnk : nullptr;
        if (!corrupt) { std::string why = admitted_d(ref, op, a, b); if (!why.empty()) o.fail("call not admitted by the reference semantics: " + why); }
        if (op == "cinit" || op == "cadd_next" || op == "cadd_prev" || op == "cinsert_instead" || op == "cmove_sorted") removed_d.erase(a);
        if (op == "cinit") { if (ref.multi(a)) o.tag("init-abandons-ring"); dlist_init(pa); ref.abandon(a); }
        else if (op == "cadd_next") { dlist_add_next(pa, pb); ref.ins_after(a, b); o.tag("insert"); }
        else if (op == "cadd_prev") { dlist_add_prev(pa, pb); ref.ins_before(a, b); o.tag("insert"); }
        else if (op == "cdel") { if (ref.ring_size(a) == 1) o.tag("del-single"); dlist_del(pa); ref.remove(a); removed_d.insert(a); o.tag("remove"); }
        else if (op == "cdel_init") { if (ref.ring_size(a) == 1) o.tag("del-single"); dlist_del_init(pa); ref.single(a); o.tag("remove"); }
        else if (op == "cmove" || op == "cmove_tail")
        {
            if (a == b) o.tag("move-self");
            else if (ref.find(a) == ref.find(b)) o.tag("move-same-ring");
            if (a != b && (cn[a]->lnk.next == pb || cn[a]->lnk.prev == pb)) o.tag("move-adjacent");
            if (op == "cmove") dlist_move(pa, pb); else dlist_move_tail(pa, pb);
            // moving a node next to itself leaves it alone in its own ring
            if (a == b) ref.single(a);
            else if (op == "cmove") ref.ins_after(a, b);
            else ref.ins_before(a, b);
        }
        else if (op == "cinsert_instead") { dlist_insert_instead(pa, pb); ref.ins_before(a, b); ref.single(b); o.tag("replace"); }
        else if (op == "cmove_sorted")
        {
            CItem *added = cn[a];
            dlist_move_sorted(added, pb, lnk, ckey_less);
            int pos = b;
            for (int x : ref.list(b)) if (a < x) { pos = x; break; }
            ref.ins_before(a, pos);
            o.tag("sorted-insert");
        }
        else if (op == "cmove_sorted_k")
        {
            int mode = A(3);
            CItem *added = cn[a];
            if (mode == 1) { dlist_move_sorted(added, pb, lnk, ckey_mod3); }
            else if (mode == 2) { dlist_move_sorted(added, pb, lnk, ckey_wrap8); }
            else { dlist_move_sorted(added, pb, lnk, ckey_less); }
            int pos = b; bool tie = false;
            for (int x : ref.list(b)) { if (cmp_mode(mode, a, x)) { pos = x; break; } if (!cmp_mode(mode, x, a)) tie = true; }
            ref.ins_before(a, pos);
            o.tag(mode == 1 ? "sorted-insert-ties" : mode == 2 ? "sorted-insert-wrap" : "sorted-insert");
            if (tie) o.tag("sorted-insert-after-equal");
        }
        else if (op == "cpop_entry")
        {
            // the NULL-safe pop idiom on a dlist: entry of the node popped, NULL on an empty list
            auto v = ref.list(a);
            g_evals = 0;
            CItem *e = mcast_out_or_null(counted_dpop(pa), CItem, lnk);
            if (g_evals != 1) { o.fail(evals_msg()); val = "?"; }
            else
            {
                val = e ? std::to_string(e->key) : "null";
                if (v.empty() ? e != nullptr : e != cn[v.front()]) o.fail("pop idiom returned the wrong entry");
            }
            if (!v.empty()) ref.single(v.front());
            o.tag(v.empty() ? "pop-idiom-empty" : "pop-idiom");
        }
        else if (op == "csize") val = std::to_string(dlist_size(pa));
        else if (op == "csize_rev") val = std::to_string(dlist_size_reversed(pa));
        else if (op == "cempty") val = dlist_empty(pa) ? "1" : "0";
        else if (op == "ccorrect") val = dlist_is_correct(pa) ? "1" : "0";
        else if (op == "cin") val = dlist_in(pa, pb) ? "1" : "0";
        else if (op == "ccheck") val = std::to_string(dlist_check(pa, b));
        else if (op == "ccheck_rev") val = std::to_string(dlist_check_reversed(pa, b));
        else if (op == "clist") { std::vector<int> v; struct dlist_head *it; dlist_for_each(it, pa) v.push_back(cid(it)); val = ids(v); }
        else if (op == "clist_rev") { std::vector<int> v; struct dlist_head *it; dlist_for_each_reverse(it, pa) v.push_back(cid(it)); val = ids(v); }
        else if (op == "ccorrect_strict")
        {
            // probe of finding C01-is-correct-length-only: "correct" should imply that neighbours point back
            val = dlist_is_correct(pa) ? "1" : "0";
            std::vector<int> nx, pv; c_succ(nx, pv);
            bool wf = true;
            for (size_t i = 0; i < nx.size(); i++) if (pv[nx[i]] != (int)i || nx[pv[i]] != (int)i) wf = false;
            if (val == "1" && !wf) o.fail("dlist_is_correct accepts a ring whose neighbours do not point back");
        }
        else if (op == "cpoke_next") { pa->next = pb; corrupt = true; o.tag("corrupt"); }
        else if (op == "cpoke_prev") { pa->prev = pb; corrupt = true; o.tag("corrupt"); }
        else val = "bad-op";
        if (op == "ccorrect_strict") {}
        else if (corrupt || cn.size() > 16) oracle_walks(o, op, a, b, val);
        else oracle_c(o);
    }
    // ---------------- objects with two link members
    else if (op == "toffsets")
        val = std::to_string(member_offsetof(TObj, la)) + " " + std::to_string(member_offsetof(TObj, lb)) + " " + std::to_string(sizeof(TObj));
    else if (kind == 't')
    {
        int n = (int)tobj.size();
        auto H = [&](int id) { return thead[id - n]; };
        auto hrid = [&](int id) { return 2 * n + (id - n); };
        auto keys_of = [&](const std::vector<int> &rids) { std::vector<int> v; for (int r : rids) v.push_back(r / 2); return v; };
        if (op == "tsafe")
        {
            bool raw = w[1] == "raw";
            int m = w[raw ? 2 : 1] == "b", hd = A(raw ? 3 : 2), p = A(raw ? 4 : 3), q = A(raw ? 5 : 4);
            int mode = raw ? 0 : A(5), tgt = raw ? 0 : A(6);
            auto before = t_snapshot(1 - m);
            if (!ref.in_ring(hrid(hd)) || (!raw && mode == 2 && !ref.in_ring(hrid(tgt)))) o.fail("call not admitted by the reference semantics: a list head is in no ring");
            std::vector<int> want = keys_of(ref.list(hrid(hd))), visited;
            int guard = 0;
            if (raw)
            {
                struct dlist_head *pos, *nn;
                dlist_for_each_safe(pos, nn, H(hd))
                {
                    TObj *e = m ? dlist_entry(pos, TObj, lb) : dlist_entry(pos, TObj, la);
                    visited.push_back(e->key);
                    if (e->key % p == q) dlist_del_init(pos);
                    if (++guard > 10000) break;
                }
            }
            else
            {
                TObj *pos, *nn;
#define T_BODY(MEM)                                                                          \
    dlist_for_each_entry_safe(pos, nn, H(hd), MEM)                                           \
    {                                                                                        \
        visited.push_back(pos->key);                                                         \
        if (pos->key % p == q)                                                               \
        {                                                                                    \
            if (mode == 0) dlist_del_init(&pos->MEM);                                        \
            else if (mode == 1) dlist_del(&pos->MEM);                                        \
            else dlist_move_tail(&pos->MEM, H(tgt));                                         \
        }                                                                                    \
        if (++guard > 10000) break;                                                          \
    }
                if (m) { T_BODY(lb) } else { T_BODY(la) }
#undef T_BODY
            }
            for (int k : want)
                if (k % p == q)
                {
                    if (mode == 0) ref.single(2 * k + m);
                    else if (mode == 1) { ref.remove(2 * k + m); removed_d.insert(2 * k + m); }
                    else ref.ins_before(2 * k + m, hrid(tgt));
                    o.tag("delete-during-traversal");
                }
            val = ids(visited);
            if (visited != want) o.fail("safe traversal with deletion of the current element did not visit every element exactly once in order");
            if (before != t_snapshot(1 - m)) o.fail("an operation on the lists of one member changed link fields of the other member");
        }
        else
        {
            const std::string &ms = w[1];
            int m = ms == "b", a = A(2), b = w.size() > 3 ? A(3) : 0;
            auto before = t_snapshot(ms == "h" ? 2 : 1 - m);
            auto N = [&](int obj) { return m ? &tobj[obj]->lb : &tobj[obj]->la; };
            {
                // ENABLEDNESS for the two-member kind (round 3): the same predicate as for the C kind, on the reference ids
                std::string why;
                if (op == "tadd" || op == "tadd_tail" || op == "tsorted") why = admitted_d(ref, "cadd_next", 2 * a + m, hrid(b));
                else if (op == "tdel" || op == "tdelp") why = admitted_d(ref, "cdel", 2 * a + m, 0);
                else if (op == "tmove" || op == "tmove_tail") why = admitted_d(ref, "cmove", 2 * a + m, hrid(b));
                else if (op == "tmove_to" || op == "tmove_tail_to") why = admitted_d(ref, "cmove", 2 * a + m, 2 * b + m);
                else if ((op == "tnext" || op == "tprev") && !ref.in_ring(2 * a + m)) why = "entry neighbours of a node that is in no ring";
                if (!why.empty()) o.fail("call not admitted by the reference semantics: " + why);
            }
            auto key_or_end = [&](TObj *e) {
                struct dlist_head *node = m ? &e->lb : &e->la;
                int r = trid(node);
                return r >= 2 * n ? "end" + std::to_string(n + r - 2 * n) : std::to_string(e->key);
            };
            if (op == "tinit")
            {
                if (ms == "h") { dlist_init(H(a)); ref.single(hrid(a)); }
                else { dlist_init(N(a)); ref.single(2 * a + m); removed_d.erase(2 * a + m); }
            }
            else if (op == "tadd") { dlist_add_next(N(a), H(b)); ref.ins_after(2 * a + m, hrid(b)); removed_d.erase(2 * a + m); o.tag("insert"); }
            else if (op == "tadd_tail") { dlist_add_tail(N(a), H(b)); ref.ins_before(2 * a + m, hrid(b)); removed_d.erase(2 * a + m); o.tag("insert"); }
            else if (op == "tdel") { dlist_del_init(N(a)); ref.single(2 * a + m); o.tag("remove"); }
            else if (op == "tdelp") { dlist_del(N(a)); ref.remove(2 * a + m); removed_d.insert(2 * a + m); o.tag("remove"); }
            else if (op == "tmove" || op == "tmove_tail" || op == "tmove_to" || op == "tmove_tail_to")
            {
                bool to = op == "tmove_to" || op == "tmove_tail_to", tail = op == "tmove_tail" || op == "tmove_tail_to";
                struct dlist_head *target = to ? N(b) : H(b);
                int rt = to ? 2 * b + m : hrid(b), rs = 2 * a + m;
                if (rs == rt) o.tag("move-self");
                else if (N(a)->next == target || N(a)->prev == target) o.tag("move-adjacent");
                if (ref.find(rs) != ref.find(rt)) o.tag("move-between-lists");
                if (ref.ring_size(rs) == 2) o.tag("move-last-element");
                if (tail) dlist_move_tail(N(a), target); else dlist_move(N(a), target);
                if (rs == rt) ref.single(rs); else if (tail) ref.ins_before(rs, rt); else ref.ins_after(rs, rt);
            }
            else if (op == "tsorted")
            {
                TObj *added = tobj[a];
                if (m) { dlist_move_sorted(added, H(b), lb, tkey_less); } else { dlist_move_sorted(added, H(b), la, tkey_less); }
                int pos = hrid(b);
                for (int x : ref.list(hrid(b))) if (a < x / 2) { pos = x; break; }
                ref.ins_before(2 * a + m, pos);
                removed_d.erase(2 * a + m);
                o.tag("sorted-insert");
            }
            else if (op == "tentries" || op == "tentries_rev")
            {
                std::vector<int> v, want = keys_of(ref.list(hrid(a)));
                TObj *pos; int guard = 0;
                if (op == "tentries") { if (m) { dlist_for_each_entry(pos, H(a), lb) { v.push_back(pos->key); if (++guard > 10000) break; } } else { dlist_for_each_entry(pos, H(a), la) { v.push_back(pos->key); if (++guard > 10000) break; } } }
                else
                {
                    if (m) { dlist_for_each_entry_reverse(pos, H(a), lb) { v.push_back(pos->key); if (++guard > 10000) break; } } else { dlist_for_each_entry_reverse(pos, H(a), la) { v.push_back(pos->key); if (++guard > 10000) break; } }
                    std::reverse(want.begin(), want.end());
                }
                val = ids(v);
                if (v != want) o.fail("dlist_for_each_entry(_reverse) through a member that is not first disagrees with the reference");
            }
            else if (op == "tfirst" || op == "tlast")
            {
                TObj *e = op == "tfirst" ? (m ? dlist_first_entry(H(a), TObj, lb) : dlist_first_entry(H(a), TObj, la))
                                         : (m ? dlist_last_entry(H(a), TObj, lb) : dlist_last_entry(H(a), TObj, la));
                val = key_or_end(e);
                auto l = ref.list(hrid(a));
                std::string want = l.empty() ? "end" + std::to_string(a) : std::to_string((op == "tfirst" ? l.front() : l.back()) / 2);
                if (val != want) o.fail("dlist_first_entry/last_entry disagrees with the reference");
            }
            else if (op == "tnext" || op == "tprev")
            {
                TObj *e = tobj[a];
                TObj *r = op == "tnext" ? (m ? dlist_next_entry(e, lb) : dlist_next_entry(e, la)) : (m ? dlist_prev_entry(e, lb) : dlist_prev_entry(e, la));
                val = key_or_end(r);
                auto v = ref.from(2 * a + m);
                int nb = op == "tnext" ? v[1 % v.size()] : v.back();
                std::string want = nb >= 2 * n ? "end" + std::to_string(n + nb - 2 * n) : std::to_string(nb / 2);
                if (val != want) o.fail("dlist_next_entry/prev_entry disagrees with the reference");
                // container_of o member = id: the object recovered from either member is the object itself
                if (dlist_entry(&e->la, TObj, la) != e || dlist_entry(&e->lb, TObj, lb) != e) o.fail("mcast_out(mcast_in(obj)) != obj");
            }
            else if (op == "tsize") val = std::to_string(dlist_size(H(a)));
            else val = "bad-op";
            if (ms != "h" && before != t_snapshot(1 - m)) o.fail("an operation on the lists of one member changed link fields of the other member");
        }
        oracle_t(o);
    }
    // ---------------- C++ dlist
    else if (kind == 'x')
    {
        int a = A(1), b = w.size() > 2 ? A(2) : 0;
        { std::string why = admitted_d(ref, op, a, b); if (!why.empty()) o.fail("call not admitted by the reference semantics: " + why); }
        if (op == "xnew") { xn[a] = new XItem(); xn[a]->key = a; ref.single(a); }
        else if (op == "xrenew")
        {
            // a dlist_node constructed again at the address of an unlinked node (storage reuse)
            if (!ref.lone(a)) o.fail("call not admitted by the reference semantics: constructed over a linked node");
            new (&xn[a]->lnk) igris::dlist_node();
            o.tag("ctor-over-unlinked");
        }
        else if (op == "xdel") { if (ref.multi(a)) o.tag("destroy-linked"); delete xn[a]; xn[a] = nullptr; ref.remove(a); }
        else if (op == "xlnew") { xl[a - xnitems] = new XList(); ref.single(a); }
        else if (op == "xldel" || op == "xclear")
        {
            if (ref.multi(a)) o.tag("clear-nonempty");
            for (int x : ref.list(a)) ref.single(x);
            if (op == "xldel") { delete xl[a - xnitems]; xl[a - xnitems] = nullptr; ref.remove(a); }
            else xl[a - xnitems]->clear();
        }
        else if (op == "xunlink") { if (!ref.multi(a)) o.tag("unlink-unlinked"); xnode(a)->unlink(); ref.single(a); }
        else if (op == "xpop_front" || op == "xpop_back")
        {
            auto v = ref.list(a);
            if (v.empty()) o.tag("pop-empty");
            else ref.single(op == "xpop_front" ? v.front() : v.back());
            if (op == "xpop_front") xl[a - xnitems]->pop_front(); else xl[a - xnitems]->pop_back();
        }
        else if (op == "xmove_next" || op == "xmove_prev" || op == "xmove_front" || op == "xmove_back")
        {
            int node = a, target = b;
            bool after = op == "xmove_next" || op == "xmove_front";
            if (op == "xmove_front" || op == "xmove_back") { node = b; target = a; }
            if (node == target) o.tag("move-self");
            else if (ref.find(node) == ref.find(target)) o.tag("move-same-ring");
            if (node != target && (xnode(node)->next == xnode(target) || xnode(node)->prev == xnode(target))) o.tag("move-adjacent");
            if (op == "xmove_next") xnode(node)->move_next_than(xnode(target));
            else if (op == "xmove_prev") xnode(node)->move_prev_than(xnode(target));
            else if (op == "xmove_front") xl[a - xnitems]->move_front(*xn[b]);
            else xl[a - xnitems]->move_back(*xn[b]);
            if (node == target) ref.single(node);
            else if (after) ref.ins_after(node, target);
            else ref.ins_before(node, target);
        }
        else if (op == "xsplice")
        {
            auto src = ref.list(b);
            if (src.empty()) o.tag("splice-from-empty");
            if (ref.multi(a)) o.tag("splice-into-nonempty");
            xl[a - xnitems]->unlink_and_move_all_nodes_from_other(std::move(*xl[b - xnitems]));
            ref.single(a); // the destination head leaves its old ring (its nodes stay linked among themselves)
            if (a != b)
            {
                ref.single(b);
                int r = ref.find(a);
                for (int x : src) { ref.remove(x); }
                r = ref.find(a);
                ref.rings[r].insert(ref.rings[r].end(), src.begin(), src.end());
            }
        }
        else if (op == "xpop") { if (!ref.multi(b)) o.tag("unlink-unlinked"); xl[a - xnitems]->pop(*xn[b]); ref.single(b); o.tag("typed-pop"); }
        else if (op == "xerase_if")
        {
            int p = A(2), q = A(3);
            XList *l = xl[a - xnitems];
            std::vector<int> want = ref.list(a), visited;
            for (auto it = l->begin(); it != l->end();)
            {
                auto cur = it++;
                visited.push_back(cur->key);
                if (cur->key % p == q) { l->pop(*cur); o.tag("erase-while-iterating"); }
            }
            for (int k : want) if (k % p == q) ref.single(k);
            val = ids(visited);
            if (visited != want) o.fail("erase-while-iterating did not visit every element exactly once in order");
        }
        else if (op == "xround_left")
        {
            auto v = ref.list(a);
            if (v.empty()) o.tag("round-empty"); else { ref.ins_before(v.front(), a); o.tag("round-left"); }
            xl[a - xnitems]->round_left();
        }
        else if (op == "xwalk")
        {
            XList *l = xl[a - xnitems];
            const XList *cl = l;
            std::vector<int> want = ref.list(a), f1, f2, f3, b1, b2, b3;
            for (auto it = l->begin(); it != l->end(); ++it) f1.push_back(it->key);
            for (auto it = l->begin(); it != l->end(); it++) f2.push_back((*it).key);
            for (auto it = cl->begin(); it != cl->end(); ++it) f3.push_back(it->key);
            for (auto it = l->end(); it != l->begin();) { --it; b1.push_back(it->key); }
            for (auto it = l->rbegin(); it != l->rend(); it++) b2.push_back((*it).key);
            { auto it = l->rend(); while (it != l->rbegin()) { it--; b3.push_back(it->key); } } // reverse_iterator--: forward order
            val = ids(f1) + "/" + ids(b1);
            std::vector<int> rw = want; std::reverse(rw.begin(), rw.end());
            if (f1 != want || f2 != want || f3 != want || b3 != want || b1 != rw || b2 != rw) o.fail("iterator ++/--/post-increment/const/reverse traversals disagree with the reference");
            // ++ then -- comes back to the same iterator
            for (auto it = l->begin(); it != l->end(); ++it) { auto j = it; ++j; --j; if (j != it) o.fail("++ then -- does not return to the same iterator"); }
            o.tag("iterators");
        }
        else if (op == "xfront" || op == "xback")
        {
            XList *l = xl[a - xnitems];
            auto v = ref.list(a);
            int want = op == "xfront" ? v.front() : v.back();
            int k1 = op == "xfront" ? l->front().key : l->back().key;
            int k2 = op == "xfront" ? l->first_entry<XItem, &XItem::lnk>().key : l->last_entry<XItem, &XItem::lnk>().key;
            int k3 = op == "xfront" ? l->first().key : xptr(l->last_node()) == std::to_string(want) ? want : -1;
            val = std::to_string(k1);
            if (k1 != want || k2 != want || k3 != want) o.fail("front/back/first/first_entry/last_entry disagree with the reference");
            if (&xn[want]->lnk.cast_out<XItem, &XItem::lnk>() != xn[want]) o.fail("cast_out(member) != object");
        }
        else if (op == "xmove_next_obj" || op == "xmove_prev_obj" || op == "xmove_next_it" || op == "xmove_prev_it")
        {
            XList *l = xl[a - xnitems];
            int node = A(2), target;
            bool after = op == "xmove_next_obj" || op == "xmove_next_it";
            if (op == "xmove_next_obj" || op == "xmove_prev_obj")
            {
                target = A(3);
                if (after) l->move_next(*xn[node], *xn[target]); else l->move_prev(*xn[node], *xn[target]);
            }
            else
            {
                auto v = ref.list(a);
                int k = A(3);
                target = k < (int)v.size() ? v[k] : a;
                XList::iterator it = l->begin();
                for (int i = 0; i < k; i++) ++it;
                if (it == l->end()) o.tag("move-to-end-iterator");
                if (after) l->move_next(*xn[node], it); else l->move_prev(*xn[node], it);
            }
            if (node == target) o.tag("move-self");
            if (node == target) ref.single(node); else if (after) ref.ins_after(node, target); else ref.ins_before(node, target);
            o.tag("typed-move");
        }
        else if (op == "xsize") val = std::to_string(xl[a - xnitems]->size());
        else if (op == "xempty") val = xl[a - xnitems]->empty() ? "1" : "0";
        else if (op == "xlinked") val = xnode(a)->is_linked() ? "1" : "0";
        else if (op == "xcorrect") val = xl[a - xnitems]->is_correct() ? "1" : "0";
        else if (op == "xiter") { std::vector<int> v; igris::dlist_node *h = xnode(a); for (auto *n = h->next; n != h; n = n->next) v.push_back(atoi(xptr(n).c_str())); val = ids(v); }
        else if (op == "xriter") { std::vector<int> v; igris::dlist_node *h = xnode(a); for (auto *n = h->prev; n != h; n = n->prev) v.push_back(atoi(xptr(n).c_str())); val = ids(v); }
        else val = "bad-op";
        oracle_x(o);
    }
    // ---------------- slist
    else if (kind == 's')
    {
        int a = A(1), b = w.size() > 2 ? A(2) : 0;
        std::string why_s = admitted_s(op, a, b); // judged on the state BEFORE the call, reported after the oracle
        auto s_take = [&](int x) { int ow = s_owner(x); if (ow >= 0) { auto &v = slists[ow]; v.erase(std::find(v.begin(), v.end(), x)); } slists.erase(x); };
        auto s_ins_after = [&](int x, int pos)
        {
            s_take(x);
            if (slists.count(pos)) slists[pos].insert(slists[pos].begin(), x);
            else { auto &v = slists[s_owner(pos)]; v.insert(std::find(v.begin(), v.end(), pos) + 1, x); }
        };
        if (op == "sinit")
        {
            if (slists.count(a) && !slists[a].empty()) o.tag("init-clears-list");
            slist_init(&sn[a]->lnk); slists[a] = {};
        }
        else if (op == "sadd")
        {
            if (!slists.count(b)) o.tag("insert-after-element");
            slist_add(&sn[a]->lnk, &sn[b]->lnk); s_ins_after(a, b); o.tag("insert");
        }
        else if (op == "spop")
        {
            auto v = slists[a];
            struct slist_head *r = slist_pop_first(&sn[a]->lnk);
            val = r ? sptr(r) : "null";
            if (v.empty()) { if (r) o.fail("slist_pop_first on empty list returned a node"); o.tag("pop-empty"); }
            else { if (!r || atoi(sptr(r).c_str()) != v.front()) o.fail("slist_pop_first returned the wrong node"); s_take(v.front()); o.tag("remove"); if (v.size() == 1) o.tag("pop-last"); }
        }
        else if (op == "spop_entry")
        {
            // b = 0: mcast_out_or_null(slist_pop_first(&head), T, lnk) (NULL-safe); b = 1: slist_pop_first_entry (non-empty lists)
            auto v = slists[a];
            g_evals = 0;
            SItem *e;
            if (b == 1 && !v.empty()) e = slist_pop_first_entry(counted_shead(&sn[a]->lnk), SItem, lnk);
            else e = mcast_out_or_null(counted_spop(&sn[a]->lnk), SItem, lnk);
            if (g_evals != 1) { o.fail(evals_msg()); val = "?"; }
            else
            {
                val = e ? std::to_string(e->key) : "null";
                if (v.empty() ? e != nullptr : e != sn[v.front()]) o.fail("pop idiom returned the wrong entry");
            }
            if (!v.empty()) s_take(v.front());
            o.tag(v.empty() ? "pop-idiom-empty" : "pop-idiom");
        }
        else if (op == "smacros")
        {
            // every container_of-style macro of member.h / memberxx.h and the list headers with a cursor
            // argument `*c++`: the cursor must advance by exactly one, the value is the entry / member of item a
            std::vector<struct slist_head *> nodes(sn.size() + 2, nullptr);
            std::vector<SItem *> objs(sn.size() + 2, nullptr);
            for (size_t i = 0; i < sn.size(); i++) { nodes[i] = &sn[i]->lnk; objs[i] = sn[i]; }
            nodes[sn.size()] = nodes[sn.size() + 1] = &sn[0]->lnk; objs[sn.size()] = objs[sn.size() + 1] = sn[0];
            struct slist_head **c; SItem **oc;
            std::string out; int bad = 0;
            auto put = [&](const std::string &t) { out += (out.empty() ? "" : " ") + t; };
#define NODE_MACRO(EXPR) { c = &nodes[a]; SItem *e = EXPR; if (c != &nodes[a] + 1) bad++; put(e ? std::to_string(e->key) : "null"); }
#define OBJ_MACRO(EXPR) { oc = &objs[a]; struct slist_head *l = EXPR; if (oc != &objs[a] + 1) bad++; put(l ? sptr(l) : "null"); }
            NODE_MACRO(mcast_out(*c++, SItem, lnk))
            NODE_MACRO(mcast_out_or_null(*c++, SItem, lnk))
            NODE_MACRO(slist_entry(*c++, SItem, lnk))
            NODE_MACRO(dlist_entry(*c++, SItem, lnk))
            NODE_MACRO(hlist_entry(*c++, SItem, lnk))
            OBJ_MACRO(mcast_in(*oc++, lnk))
            OBJ_MACRO(mcast_in_or_null(*oc++, lnk))
            NODE_MACRO(member_container(*c++, &SItem::lnk))
#undef NODE_MACRO
#undef OBJ_MACRO
            val = out;
            if (bad) o.fail("a container_of macro evaluated its argument more than once (cursor advanced by more than one) in " + std::to_string(bad) + " macro(s)");
            o.tag("macro-side-effect-arg");
        }
        else if (op == "smove_front")
        {
            // igris::slist<T,m>::move_front on the list whose (only, first) member is the head node b
            SList *lst = reinterpret_cast<SList *>(&sn[b]->lnk);
            if (s_owner(a) == b) { o.tag("move-linked"); if (slists[b].front() == a) o.tag("move-first"); if (slists[b].back() == a) o.tag("move-last"); }
            lst->move_front(*sn[a]);
            if (s_owner(a) == b || s_free(a) || (slists.count(a) && slists[a].empty())) s_ins_after(a, b);
        }
        else if (op == "sxadd")
        {
            SList *lst = reinterpret_cast<SList *>(&sn[b]->lnk);
            lst->add_first(*sn[a]); s_ins_after(a, b); o.tag("insert");
        }
        else if (op == "sxiter")
        {
            SList *lst = reinterpret_cast<SList *>(&sn[a]->lnk);
            const SList *clst = lst;
            std::vector<int> v1, v2, v3, v4, want = slists[a];
            for (auto it = lst->begin(); it != lst->end(); ++it) v1.push_back(it->key);
            for (auto it = lst->begin(); it != lst->end(); it++) v2.push_back((*it).key);
            for (auto it = clst->begin(); it != clst->end(); ++it) v3.push_back(it->key);
            for (auto it = clst->begin(); it != clst->end(); it++) v4.push_back((*it).key);
            val = ids(v1);
            if (v1 != want || v2 != want || v3 != want || v4 != want) o.fail("igris::slist iterators disagree with the reference");
            if (lst->empty() != want.empty()) o.fail("igris::slist::empty disagrees");
        }
        else if (op == "ssize") val = std::to_string(slist_size(&sn[a]->lnk));
        else if (op == "sin") val = slist_in(&sn[a]->lnk, &sn[b]->lnk) ? "1" : "0";
        else if (op == "slist") { std::vector<int> v; struct slist_head *it; slist_for_each(it, &sn[a]->lnk) v.push_back(atoi(sptr(it).c_str())); val = ids(v); }
        else val = "bad-op";
        oracle_s(o);
        if (!why_s.empty()) o.fail("call not admitted by the reference semantics: " + why_s);
    }
    // ---------------- hlist
    else if (kind == 'h')
    {
        int a = A(1);
        { std::string why = admitted_h(op, a, w.size() > 2 ? w[2] : std::string("H0")); if (!why.empty()) o.fail("call not admitted by the reference semantics: " + why); }
        if (op == "hhead_init") { if (!hlists[a].empty()) o.tag("init-clears-list"); hlist_head_init(hh[a - hn.size()]); hlists[a] = {}; }
        else if (op == "hnode_init") { hlist_node_init(hn[a]); hidle.insert(a); }
        else if (op == "hadd")
        {
            const std::string &loc = w[2];
            int t = atoi(loc.c_str() + 1);
            struct hlist_node **pp = loc[0] == 'H' ? &hh[t - hn.size()]->first : &hn[t]->next;
            if (!hidle.count(a)) o.tag("add-stale-node");
            hlist_add_next(hn[a], pp);
            hidle.erase(a);
            if (loc[0] == 'H') { if (hlists[t].empty()) o.tag("add-to-empty"); hlists[t].insert(hlists[t].begin(), a); }
            else
                for (auto &kv : hlists)
                {
                    auto it = std::find(kv.second.begin(), kv.second.end(), t);
                    if (it != kv.second.end()) { if (it + 1 == kv.second.end()) o.tag("add-after-last"); kv.second.insert(it + 1, a); break; }
                }
            o.tag("insert");
        }
        else if (op == "hdel")
        {
            hlist_del(hn[a]);
            bool was = false;
            for (auto &kv : hlists)
            {
                auto it = std::find(kv.second.begin(), kv.second.end(), a);
                if (it != kv.second.end())
                {
                    if (kv.second.size() == 1) o.tag("del-only"); else if (it == kv.second.begin()) o.tag("del-first"); else if (it + 1 == kv.second.end()) o.tag("del-last");
                    kv.second.erase(it); was = true; break;
                }
            }
            o.tag(was ? "remove" : "del-unlinked");
        }
        else if (op == "hpop_entry")
        {
            auto v = hlists[a];
            g_evals = 0;
            HItem *e = mcast_out_or_null(counted_hpop(hh[a - hn.size()]), HItem, lnk);
            if (g_evals != 1) { o.fail(evals_msg()); val = "?"; }
            else
            {
                val = e ? std::to_string(e->key) : "null";
                if (v.empty() ? e != nullptr : e != hitem[v.front()]) o.fail("pop idiom returned the wrong entry");
            }
            if (!v.empty()) hlists[a].erase(hlists[a].begin());
            o.tag(v.empty() ? "pop-idiom-empty" : "pop-idiom");
        }
        else if (op == "hentries")
        {
            // entry iteration through a member at offset 8: terminates on `&pos->member != 0`
            std::vector<int> v; HItem *pos; int guard = 0;
            hlist_for_each_entry(pos, hh[a - hn.size()], lnk) { v.push_back(pos->key); if (++guard > 10000) break; }
            val = ids(v);
            if (v != hlists[a]) o.fail("hlist_for_each_entry disagrees with the reference");
        }
        else if (op == "hlist") { std::vector<int> v; struct hlist_node *p; hlist_for_each(p, hh[a - hn.size()]) v.push_back(atoi(hnid(p).c_str())); val = ids(v); }
        else val = "bad-op";
        oracle_h(o);
    }
    o.result = val + " | " + dump();
}

void c01_gen(rng &r, const std::string &tier);
#else
// ------------------------------------------------------------------ gen
// The generator keeps its own reference so that it only emits operations whose
// preconditions hold (Linux-style contract: *_add wants an entry that is in no
// list; every other entry argument must be initialised/linked).
struct G
{
    rng &r;
    Ref ref;
    std::set<int> poisoned, dead;
    G(rng &r) : r(r) {}
};

static void emit(const std::string &s) { puts(s.c_str()); }

static void gen_c_case(rng &r, int n, int nops)
{
    G g(r);
    emit("reset c " + std::to_string(n));
    for (int i = 0; i < n; i++) g.ref.single(i);
    auto any = [&]() { return (int)r.below(n); };
    auto inring = [&]() { for (int t = 0; t < 50; t++) { int a = any(); if (g.ref.in_ring(a)) return a; } return -1; };
    auto free_node = [&]() { for (int t = 0; t < 50; t++) { int a = any(); if (!g.ref.multi(a)) return a; } return -1; };
    for (int k = 0; k < nops; k++)
    {
        int c = (int)r.below(100);
        if (c < 22)
        {
            int a = free_node(), b = inring();
            if (a < 0 || b < 0 || a == b) continue;
            bool nx = r.chance(50);
            emit(std::string(nx ? "cadd_next " : "cadd_prev ") + std::to_string(a) + " " + std::to_string(b));
            g.poisoned.erase(a);
            if (nx) g.ref.ins_after(a, b); else g.ref.ins_before(a, b);
        }
        else if (c < 28) { int a = inring(); if (a < 0) continue; emit("cdel " + std::to_string(a)); g.ref.remove(a); g.poisoned.insert(a); }
        else if (c < 30)
        {
            int a = inring(); if (a < 0) continue;
            emit("cpop_entry " + std::to_string(a));
            auto v = g.ref.list(a);
            if (!v.empty()) g.ref.single(v.front());
        }
        else if (c < 40) { int a = inring(); if (a < 0) continue; emit("cdel_init " + std::to_string(a)); g.ref.single(a); }
        else if (c < 65)
        {
            int a = inring(), b = inring();
            if (a < 0 || b < 0) continue;
            int mode = (int)r.below(10);
            if (mode == 0) b = a;                                   // move next to itself
            else if (mode <= 3 && g.ref.multi(a))                  // current neighbour
            { auto v = g.ref.from(a); b = mode == 1 ? v[1] : v.back(); }
            bool tail = r.chance(50);
            emit(std::string(tail ? "cmove_tail " : "cmove ") + std::to_string(a) + " " + std::to_string(b));
            if (a == b) g.ref.single(a); else if (tail) g.ref.ins_before(a, b); else g.ref.ins_after(a, b);
        }
        else if (c < 70)
        {
            int a = free_node(), b = inring();
            if (a < 0 || b < 0 || a == b) continue;
            emit("cinsert_instead " + std::to_string(a) + " " + std::to_string(b));
            g.poisoned.erase(a);
            g.ref.ins_before(a, b); g.ref.single(b);
        }
        else if (c < 78)
        {
            int a = free_node(), b = inring();
            if (a < 0 || b < 0 || a == b) continue;
            emit("cmove_sorted " + std::to_string(a) + " " + std::to_string(b));
            g.poisoned.erase(a);
            int pos = b;
            for (int x : g.ref.list(b)) if (a < x) { pos = x; break; }
            g.ref.ins_before(a, pos);
        }
        else if (c < 81)
        {
            // dlist_init of an unlinked node, or (1 in 4) of a node that is in a ring: the ring is abandoned
            int a = r.chance(25) ? inring() : free_node();
            if (a < 0) continue;
            emit("cinit " + std::to_string(a)); g.poisoned.erase(a); g.ref.abandon(a);
        }
        else
        {
            int a = inring(), b = inring();
            if (a < 0) continue;
            static const char *q[] = {"csize", "csize_rev", "cempty", "ccorrect", "clist", "clist_rev"};
            int qi = (int)r.below(9);
            if (qi < 6) emit(std::string(q[qi]) + " " + std::to_string(a));
            else if (qi == 6) emit("cin " + std::to_string(any()) + " " + std::to_string(a));
            else emit(std::string(qi == 7 ? "ccheck " : "ccheck_rev ") + std::to_string(a) + " " + std::to_string((int)r.range(0, n + 2)));
            (void)b;
        }
    }
}

static void gen_x_case(rng &r, int n, int k, int nops)
{
    G g(r);
    emit("reset x " + std::to_string(n) + " " + std::to_string(k));
    std::set<int> live;
    for (int i = 0; i < k; i++) { g.ref.single(n + i); live.insert(n + i); }
    auto live_item = [&]() { for (int t = 0; t < 50; t++) { int a = (int)r.below(n); if (live.count(a)) return a; } return -1; };
    auto live_list = [&]() { for (int t = 0; t < 50; t++) { int a = n + (int)r.below(k); if (live.count(a)) return a; } return -1; };
    auto live_any = [&]() { return r.chance(35) ? live_list() : live_item(); };
    for (int q = 0; q < nops; q++)
    {
        int c = (int)r.below(100);
        if (c < 15) { int a = (int)r.below(n); if (live.count(a)) continue; emit("xnew " + std::to_string(a)); live.insert(a); g.ref.single(a); }
        else if (c < 22) { int a = live_item(); if (a < 0) continue; emit("xdel " + std::to_string(a)); live.erase(a); g.ref.remove(a); }
        else if (c < 25) { int a = n + (int)r.below(k); if (live.count(a)) continue; emit("xlnew " + std::to_string(a)); live.insert(a); g.ref.single(a); }
        else if (c < 29)
        {
            int a = live_list(); if (a < 0) continue;
            bool del = r.chance(50);
            emit(std::string(del ? "xldel " : "xclear ") + std::to_string(a));
            for (int x : g.ref.list(a)) g.ref.single(x);
            if (del) { live.erase(a); g.ref.remove(a); }
        }
        else if (c < 33) { int a = live_any(); if (a < 0) continue; emit("xunlink " + std::to_string(a)); g.ref.single(a); }
        else if (c < 35) { int a = live_item(); if (a < 0 || !g.ref.lone(a)) continue; emit("xrenew " + std::to_string(a)); }
        else if (c < 42)
        {
            int a = live_list(); if (a < 0) continue;
            bool fr = r.chance(50);
            emit(std::string(fr ? "xpop_front " : "xpop_back ") + std::to_string(a));
            auto v = g.ref.list(a);
            if (!v.empty()) g.ref.single(fr ? v.front() : v.back());
        }
        else if (c < 72)
        {
            int a = live_item(), b = live_any();
            if (a < 0 || b < 0) continue;
            int mode = (int)r.below(10);
            if (mode == 0) b = a;
            else if (mode <= 3 && g.ref.multi(a)) { auto v = g.ref.from(a); b = mode == 1 ? v[1] : v.back(); }
            bool after = r.chance(50);
            if (b >= n && r.chance(50))
                emit(std::string(after ? "xmove_front " : "xmove_back ") + std::to_string(b) + " " + std::to_string(a));
            else
                emit(std::string(after ? "xmove_next " : "xmove_prev ") + std::to_string(a) + " " + std::to_string(b));
            if (a == b) g.ref.single(a); else if (after) g.ref.ins_after(a, b); else g.ref.ins_before(a, b);
        }
        else if (c < 78)
        {
            int a = live_list(), b = live_list();
            if (a < 0 || b < 0) continue;
            // the source must contain item nodes only (a spliced-in foreign head is not a list element)
            auto src = g.ref.list(b);
            bool ok = true;
            for (int x : src) if (x >= n) ok = false;
            if (!ok) continue;
            emit("xsplice " + std::to_string(a) + " " + std::to_string(b));
            g.ref.single(a);
            if (a != b)
            {
                g.ref.single(b);
                for (int x : src) g.ref.remove(x);
                int ri = g.ref.find(a);
                g.ref.rings[ri].insert(g.ref.rings[ri].end(), src.begin(), src.end());
            }
        }
        else if (c < 90)
        {
            // typed wrapper: pop(obj), erase-while-iterating, iterator walks, front/back, move_next/prev(obj, obj|iterator)
            int a = live_list(); if (a < 0) continue;
            auto v = g.ref.list(a);
            bool all_items = true;
            for (int x : v) if (x >= n) all_items = false;
            int sel = (int)r.below(7);
            if (sel == 6) { emit("xround_left " + std::to_string(a)); if (!v.empty()) g.ref.ins_before(v.front(), a); }
            else if (sel == 0) { int b = live_item(); if (b < 0) continue; emit("xpop " + std::to_string(a) + " " + std::to_string(b)); g.ref.single(b); }
            else if (!all_items) continue;
            else if (sel == 1)
            {
                int p = (int)r.range(1, 3), qq = (int)r.below(p);
                emit("xerase_if " + std::to_string(a) + " " + std::to_string(p) + " " + std::to_string(qq));
                for (int x : v) if (x % p == qq) g.ref.single(x);
            }
            else if (sel == 2) emit("xwalk " + std::to_string(a));
            else if (sel == 3) { if (v.empty()) continue; emit(std::string(r.chance(50) ? "xfront " : "xback ") + std::to_string(a)); }
            else if (sel == 4)
            {
                int x = live_item(), y = live_item();
                if (x < 0 || y < 0) continue;
                if (r.chance(30) && g.ref.multi(x)) { auto f = g.ref.from(x); int cand = r.chance(50) ? f[1] : f.back(); if (cand < n) y = cand; }
                bool after = r.chance(50);
                emit(std::string(after ? "xmove_next_obj " : "xmove_prev_obj ") + std::to_string(a) + " " + std::to_string(x) + " " + std::to_string(y));
                if (x == y) g.ref.single(x); else if (after) g.ref.ins_after(x, y); else g.ref.ins_before(x, y);
            }
            else
            {
                int x = live_item(); if (x < 0) continue;
                int kpos = (int)r.range(0, (int)v.size());
                int target = kpos < (int)v.size() ? v[kpos] : a;
                bool after = r.chance(50);
                emit(std::string(after ? "xmove_next_it " : "xmove_prev_it ") + std::to_string(a) + " " + std::to_string(x) + " " + std::to_string(kpos));
                if (x == target) g.ref.single(x); else if (after) g.ref.ins_after(x, target); else g.ref.ins_before(x, target);
            }
        }
        else
        {
            int a = live_list(); if (a < 0) continue;
            static const char *qn[] = {"xsize", "xempty", "xcorrect", "xiter", "xriter"};
            int qi = (int)r.below(6);
            if (qi < 5) emit(std::string(qn[qi]) + " " + std::to_string(a));
            else { int b = live_any(); if (b >= 0) emit("xlinked " + std::to_string(b)); }
        }
    }
}

static void gen_s_case(rng &r, int n, int nops)
{
    auto S = [](long v) { return std::to_string(v); };
    emit("reset s " + S(n));
    // own reference: head -> elements; initially every node is an empty list of its own.  A node that
    // was popped / orphaned by re-initialising its head keeps a stale next and is in no list.
    std::map<int, std::vector<int>> L;
    for (int i = 0; i < n; i++) L[i] = {};
    auto owner = [&](int x) { for (auto &kv : L) if (std::find(kv.second.begin(), kv.second.end(), x) != kv.second.end()) return kv.first; return -1; };
    auto is_free = [&](int x) { return !L.count(x) && owner(x) < 0; };
    auto unlinked = [&](int x) { return is_free(x) || (L.count(x) && L[x].empty()); };
    auto take = [&](int x) { int ow = owner(x); if (ow >= 0) { auto &v = L[ow]; v.erase(std::find(v.begin(), v.end(), x)); } L.erase(x); };
    auto pick_head = [&]() { if (r.chance(85)) { int h = (int)r.below(2); if (L.count(h)) return h; } std::vector<int> hs; for (auto &kv : L) hs.push_back(kv.first); return hs.empty() ? -1 : hs[r.below(hs.size())]; };
    for (int q = 0; q < nops; q++)
    {
        int c = (int)r.below(100);
        int head = pick_head();
        if (c < 8)
        {
            // slist_init of a node that is in no list, or of a head (1 in 3: a non-empty one = clear)
            int a = (int)r.below(n);
            if (!(is_free(a) || L.count(a))) continue;
            if (L.count(a) && !L[a].empty() && !r.chance(33)) continue;
            emit("sinit " + S(a));
            L[a] = {};
        }
        else if (c < 42)
        {
            if (head < 0) continue;
            int a = (int)r.below(n);
            if (!unlinked(a) || a == head) continue;
            // after the head (slist_add / add_first) or after an element (30 %, biased to the last one)
            int pos = head;
            bool cpp = false;
            if (!L[head].empty() && r.chance(30)) pos = r.chance(40) ? L[head].back() : L[head][r.below(L[head].size())];
            else cpp = r.chance(30);
            if (a == pos) continue;
            emit(std::string(cpp ? "sxadd " : "sadd ") + S(a) + " " + S(pos));
            take(a);
            if (pos == head) L[head].insert(L[head].begin(), a);
            else { auto &v = L[head]; v.insert(std::find(v.begin(), v.end(), pos) + 1, a); }
        }
        else if (c < 60)
        {
            if (head < 0) continue;
            if (r.chance(40)) emit("spop_entry " + S(head) + " " + S((int)r.below(2)));
            else emit("spop " + S(head));
            if (!L[head].empty()) L[head].erase(L[head].begin());
        }
        else if (c < 78)
        {
            // move_front: an element of THIS list (first / last / any), a node in no list, an empty list
            if (head < 0) continue;
            int a;
            auto &v = L[head];
            int mode = (int)r.below(10);
            if (!v.empty() && mode < 6) a = mode == 0 ? v.front() : mode <= 2 ? v.back() : v[r.below(v.size())];
            else { a = (int)r.below(n); if (!unlinked(a) || a == head) continue; }
            emit("smove_front " + S(a) + " " + S(head));
            take(a);
            L[head].insert(L[head].begin(), a);
        }
        else
        {
            if (head < 0) continue;
            int qi = (int)r.below(5);
            if (qi == 4) emit("smacros " + S((int)r.below(n)));
            else if (qi == 3) emit("sxiter " + S(head));
            else if (qi == 0) emit("ssize " + S(head));
            else if (qi == 1) emit("slist " + S(head));
            else emit("sin " + S(head) + " " + S((int)r.below(n)));
        }
    }
}

static void gen_h_case(rng &r, int n, int k, int nops)
{
    auto S = [](long v) { return std::to_string(v); };
    emit("reset h " + S(n) + " " + S(k));
    std::map<int, std::vector<int>> L;
    std::set<int> linked, idle;       // neither = stale (deleted and not re-initialised / orphaned)
    for (int i = 0; i < n; i++) idle.insert(i);
    for (int i = 0; i < k; i++) { L[n + i] = {}; emit("hhead_init " + S(n + i)); }
    for (int q = 0; q < nops; q++)
    {
        int c = (int)r.below(100);
        if (c < 5)
        {
            // re-initialising a head: an empty one (nothing changes) or (1 in 3) a non-empty one: its
            // elements are in no list afterwards and their pprev is stale
            int h = n + (int)r.below(k);
            if (!L[h].empty() && !r.chance(33)) continue;
            emit("hhead_init " + S(h));
            for (int x : L[h]) linked.erase(x);
            L[h].clear();
        }
        else if (c < 50)
        {
            int a = (int)r.below(n);
            if (linked.count(a)) continue;
            int h = n + (int)r.below(k);
            // a stale node may be added again without hlist_node_init: hlist_add_next overwrites both fields
            if (L[h].empty() || r.chance(40)) { emit("hadd " + S(a) + " H" + S(h)); L[h].insert(L[h].begin(), a); }
            else
            {
                size_t pos = r.chance(40) ? L[h].size() - 1 : r.below(L[h].size());
                emit("hadd " + S(a) + " N" + S(L[h][pos]));
                L[h].insert(L[h].begin() + pos + 1, a);
            }
            linked.insert(a); idle.erase(a);
        }
        else if (c < 78)
        {
            // hlist_del of a linked node (first / last / any), or of an idle node (pprev == 0: no-op);
            // never of a stale one
            int a = (int)r.below(n);
            if (linked.count(a))
            {
                for (auto &kv : L) { auto it = std::find(kv.second.begin(), kv.second.end(), a); if (it != kv.second.end()) { kv.second.erase(it); break; } }
                linked.erase(a);
                emit("hdel " + S(a));
                // half of the time the node is re-initialised at once, otherwise it stays stale
                if (r.chance(50)) { emit("hnode_init " + S(a)); idle.insert(a); }
            }
            else if (idle.count(a) && r.chance(40)) emit("hdel " + S(a));
        }
        else if (c < 82)
        {
            int a = (int)r.below(n);
            if (linked.count(a)) continue;
            emit("hnode_init " + S(a)); idle.insert(a);
        }
        else if (c < 86)
        {
            // the NULL-safe pop idiom: the first node leaves the list (stale afterwards), NULL on an empty list
            int h = n + (int)r.below(k);
            emit("hpop_entry " + S(h));
            if (!L[h].empty()) { linked.erase(L[h].front()); L[h].erase(L[h].begin()); }
        }
        else emit(std::string(r.chance(50) ? "hentries " : "hlist ") + S(n + (int)r.below(k)));
    }
}

// hand-corrupted rings and rings longer than the limit: only the bounded walks are asked
static void gen_corrupt_cases(rng &r, int cases)
{
    auto S = [](long v) { return std::to_string(v); };
    // rings around the 1000-step limit of dlist_is_correct (1000 nodes = head + 999 elements is the last accepted one)
    for (int n : {999, 1000, 1001, 1002, 1500})
    {
        emit("reset r " + S(n));
        emit("ccorrect 0"); emit("ccheck 0 1000"); emit("ccheck_rev 0 1000"); emit("ccheck 0 2000"); emit("ccheck_rev 7 " + S(n)); emit("ccheck 3 " + S(n - 1));
    }
    // forward walk fine, backward walk never returns (lasso): second failure branch of dlist_is_correct
    emit("reset r 12"); emit("cpoke_prev 5 5"); emit("ccorrect 0"); emit("ccheck_rev 0 1000"); emit("ccheck 0 1000");
    // forward walk never returns: first failure branch
    emit("reset r 12"); emit("cpoke_next 7 7"); emit("ccorrect 0"); emit("ccheck 0 1000"); emit("ccheck_rev 0 1000");
    // both return, different lengths (backward links skip a node)
    emit("reset r 6"); emit("cpoke_prev 0 4"); emit("ccorrect 0"); emit("ccheck 0 10"); emit("ccheck_rev 0 10");
    for (int i = 0; i < cases; i++)
    {
        int n = (int)r.range(2, 8);
        emit("reset r " + S(n));
        int pokes = (int)r.range(1, 4);
        for (int k = 0; k < pokes; k++)
        {
            int a = (int)r.below(n), b = (int)r.below(n);
            int mode = (int)r.below(4);
            if (mode == 0) b = a;                                   // self loop
            emit(std::string(r.chance(50) ? "cpoke_next " : "cpoke_prev ") + S(a) + " " + S(b));
        }
        if (r.chance(25))
            for (int a = 0; a < n; a++) emit("cpoke_prev " + S(a) + " " + S((a + 1) % n)); // backward links = forward links
        for (int k = 0; k < 8; k++)
        {
            int a = (int)r.below(n), q = (int)r.below(3);
            if (q == 0) emit("ccorrect " + S(a));
            else emit(std::string(q == 1 ? "ccheck " : "ccheck_rev ") + S(a) + " " + S(r.range(0, n + 2)));
        }
    }
}

// objects with two link members, each object on (up to) two lists at once
static void gen_t_case(rng &r, int n, int nops)
{
    auto S = [](long v) { return std::to_string(v); };
    const int k = 4;
    emit("reset t " + S(n) + " " + S(k));
    emit("toffsets");
    Ref ref;
    for (int i = 0; i < 2 * n + k; i++) ref.single(i);
    std::set<int> poisoned;
    auto hrid = [&](int id) { return 2 * n + (id - n); };
    auto head_of = [&](int m) { return n + m + 2 * (int)r.below(2); }; // even heads: la lists, odd heads: lb lists
    const char *ML = "ab";
    for (int q = 0; q < nops; q++)
    {
        int c = (int)r.below(100), m = (int)r.below(2), a = (int)r.below(n), rid = 2 * a + m;
        std::string ms(1, ML[m]);
        if (c < 25)
        {
            if (ref.multi(rid)) continue;
            int h = head_of(m);
            bool tail = r.chance(50);
            emit(std::string(tail ? "tadd_tail " : "tadd ") + ms + " " + S(a) + " " + S(h));
            poisoned.erase(rid);
            if (tail) ref.ins_before(rid, hrid(h)); else ref.ins_after(rid, hrid(h));
        }
        else if (c < 33) { if (poisoned.count(rid)) continue; emit("tdel " + ms + " " + S(a)); ref.single(rid); }
        else if (c < 37) { if (poisoned.count(rid)) continue; emit("tdelp " + ms + " " + S(a)); ref.remove(rid); poisoned.insert(rid); }
        else if (c < 40) { if (ref.multi(rid)) continue; emit("tinit " + ms + " " + S(a)); poisoned.erase(rid); ref.single(rid); }
        else if (c < 55)
        {
            if (poisoned.count(rid)) continue;
            int h = head_of(m);
            // bias: the head the node is adjacent to
            if (r.chance(40) && ref.multi(rid)) { auto f = ref.from(rid); int nb = r.chance(50) ? f[1] : f.back(); if (nb >= 2 * n) h = n + nb - 2 * n; }
            bool tail = r.chance(50);
            emit(std::string(tail ? "tmove_tail " : "tmove ") + ms + " " + S(a) + " " + S(h));
            if (tail) ref.ins_before(rid, hrid(h)); else ref.ins_after(rid, hrid(h));
        }
        else if (c < 72)
        {
            if (poisoned.count(rid)) continue;
            int b = (int)r.below(n);
            int mode = (int)r.below(10);
            if (mode == 0) b = a;
            else if (mode <= 5 && ref.multi(rid)) { auto f = ref.from(rid); int nb = mode % 2 ? f[1] : f.back(); if (nb < 2 * n) b = nb / 2; }
            int rt = 2 * b + m;
            if (poisoned.count(rt)) continue;
            bool tail = r.chance(50);
            emit(std::string(tail ? "tmove_tail_to " : "tmove_to ") + ms + " " + S(a) + " " + S(b));
            if (rid == rt) ref.single(rid); else if (tail) ref.ins_before(rid, rt); else ref.ins_after(rid, rt);
        }
        else if (c < 76)
        {
            if (ref.multi(rid) || poisoned.count(rid)) continue;
            int h = head_of(m);
            emit("tsorted " + ms + " " + S(a) + " " + S(h));
            int pos = hrid(h);
            for (int x : ref.list(hrid(h))) if (a < x / 2) { pos = x; break; }
            ref.ins_before(rid, pos);
        }
        else if (c < 86)
        {
            int h = head_of(m);
            auto v = ref.list(hrid(h));
            bool ok = true;
            for (int x : v) if (x >= 2 * n) ok = false; // only objects in the list
            if (!ok) continue;
            int p = (int)r.range(1, 3), qq = (int)r.below(p);
            if (r.chance(30))
            {
                emit("tsafe raw " + ms + " " + S(h) + " " + S(p) + " " + S(qq));
                for (int x : v) if ((x / 2) % p == qq) ref.single(x);
            }
            else
            {
                int mode = (int)r.below(3), tgt = n + m + 2 * (1 - (h - n - m) / 2);
                emit("tsafe " + ms + " " + S(h) + " " + S(p) + " " + S(qq) + " " + S(mode) + " " + S(tgt));
                for (int x : v)
                    if ((x / 2) % p == qq)
                    {
                        if (mode == 0) ref.single(x);
                        else if (mode == 1) { ref.remove(x); poisoned.insert(x); }
                        else ref.ins_before(x, hrid(tgt));
                    }
            }
        }
        else
        {
            int h = head_of(m), qi = (int)r.below(7);
            auto v = ref.list(hrid(h));
            bool ok = true;
            for (int x : v) if (x >= 2 * n) ok = false;
            if (qi == 0 && ok) emit("tentries " + ms + " " + S(h));
            else if (qi == 1 && ok) emit("tentries_rev " + ms + " " + S(h));
            else if (qi == 2) emit("tfirst " + ms + " " + S(h));
            else if (qi == 3) emit("tlast " + ms + " " + S(h));
            else if (qi == 4) { if (!poisoned.count(rid)) emit("tnext " + ms + " " + S(a)); }
            else if (qi == 5) { if (!poisoned.count(rid)) emit("tprev " + ms + " " + S(a)); }
            else emit("tsize " + ms + " " + S(h));
        }
    }
}

// every op sequence of a given depth over 3 nodes (0 = head) for the C dlist
static void gen_c_exhaustive(int depth)
{
    // op alphabet on nodes {0,1,2}: add_next/add_prev x (lnk,head), del_init, move, move_tail
    struct Op { const char *name; int a, b; };
    std::vector<Op> ops;
    for (int a = 0; a < 3; a++)
    {
        ops.push_back({"cdel_init", a, -1});
        for (int b = 0; b < 3; b++)
        {
            ops.push_back({"cmove", a, b});
            ops.push_back({"cmove_tail", a, b});
            if (a != b) { ops.push_back({"cadd_next", a, b}); ops.push_back({"cadd_prev", a, b}); }
        }
    }
    std::vector<int> idx(depth, 0);
    while (true)
    {
        // validity: adds need an unlinked entry
        Ref ref;
        for (int i = 0; i < 3; i++) ref.single(i);
        std::vector<std::string> lines;
        bool ok = true;
        for (int d = 0; d < depth && ok; d++)
        {
            const Op &o = ops[idx[d]];
            std::string nm = o.name;
            if (nm == "cadd_next" || nm == "cadd_prev")
            {
                if (ref.multi(o.a)) { ok = false; break; }
                if (nm == "cadd_next") ref.ins_after(o.a, o.b); else ref.ins_before(o.a, o.b);
            }
            else if (nm == "cdel_init") ref.single(o.a);
            else { if (o.a == o.b) ref.single(o.a); else if (nm == "cmove") ref.ins_after(o.a, o.b); else ref.ins_before(o.a, o.b); }
            lines.push_back(nm + " " + std::to_string(o.a) + (o.b >= 0 ? " " + std::to_string(o.b) : ""));
        }
        if (ok)
        {
            emit("reset c 3");
            for (auto &l : lines) emit(l);
            emit("clist 0");
        }
        int d = depth - 1;
        while (d >= 0 && ++idx[d] == (int)ops.size()) { idx[d] = 0; d--; }
        if (d < 0) break;
    }
}

// round 3: widths / constants, the macro exercise in both TUs, the pre-main history, rings in closed form at
// boundary sizes and one ring of 300 000 nodes (thorough: 1 000 000), sorted insertion with a weak order
// with ties and with the wrap-around comparator
static void gen_sorted_case(rng &r, int n, int nops)
{
    auto S = [](long v) { return std::to_string(v); };
    emit("reset c " + S(n));
    std::vector<int> L; // contents of list 0
    for (int q = 0; q < nops; q++)
    {
        std::vector<int> fr;
        for (int i = 1; i < n; i++) if (std::find(L.begin(), L.end(), i) == L.end()) fr.push_back(i);
        if (!fr.empty() && (L.empty() || r.chance(70)))
        {
            int a = fr[r.below(fr.size())], mode = r.chance(45) ? 1 : r.chance(80) ? 2 : 0;
            emit("cmove_sorted_k " + S(a) + " 0 " + S(mode));
            size_t pos = L.size();
            for (size_t i = 0; i < L.size(); i++) if (cmp_mode(mode, a, L[i])) { pos = i; break; }
            L.insert(L.begin() + pos, a);
        }
        else if (!L.empty())
        {
            size_t i = r.below(L.size());
            emit("cdel_init " + S(L[i]));
            L.erase(L.begin() + i);
        }
        if (r.chance(25)) emit(r.chance(50) ? "clist 0" : "clist_rev 0");
    }
    emit("clist 0");
}
static void gen_round3(rng &r, bool th)
{
    auto S = [](long v) { return std::to_string(v); };
    emit("reset c 2"); emit("widths"); emit("premain");
    for (int m = 0; m < 5; m++) emit("xcorrect_poke " + std::to_string(m));
    for (int m = 0; m < 4; m++) emit("xsplice_same " + std::to_string(m));
    for (int i = 0; i < 4; i++) { emit("mmac 0 " + S(i)); emit("mmac 1 " + S(i)); }
    emit("premain");
    // the closed-form ring of the model against the ring the code builds, small enough to be dumped
    for (int n : {1, 2, 3, 12, 16})
    {
        emit("reset R " + S(n)); emit("clist 0"); emit("clist_rev 0"); emit("csize 0"); emit("csize_rev " + S(n / 2)); emit("cin " + S(n - 1) + " 0");
        emit("ccheck 0 " + S(n)); emit("ccorrect 0"); emit("cdel_init " + S(n - 1)); emit("clist 0");
    }
    std::vector<int> sizes = {17, 255, 256, 257, 999, 1000, 1001, 65535, 65536, 65537, 300000};
    if (th) sizes.push_back(1000000);
    for (int n : sizes)
    {
        emit("reset R " + S(n));
        emit("csize 0"); emit("csize_rev 0"); emit("csize " + S(n - 1)); emit("ccheck 0 " + S(n)); emit("ccheck 0 " + S(n - 1)); emit("ccheck_rev 5 " + S(n));
        emit("ccorrect 0"); emit("cin " + S(n - 1) + " 0"); emit("cin 0 0"); emit("cin 3 " + S(n - 1));
        // repeated calls on ONE object with changed state between the calls
        emit("cdel_init " + S(n / 2)); emit("csize 0"); emit("cin " + S(n / 2) + " 0"); emit("cadd_next " + S(n / 2) + " 0"); emit("csize_rev 0"); emit("cin " + S(n / 2) + " 0");
    }
    for (int i = 0; i < (th ? 200 : 30); i++) gen_sorted_case(r, (int)r.range(4, 14), th ? 80 : 50);
}

static void gen(rng &r, const std::string &tier)
{
    bool th = tier == "thorough";
    gen_c_exhaustive(th ? 4 : 3);
    int cases = th ? 600 : 80;
    for (int i = 0; i < cases; i++) gen_c_case(r, (int)r.range(2, 12), th ? 200 : 120);
    for (int i = 0; i < cases; i++) gen_x_case(r, (int)r.range(1, 10), (int)r.range(1, 3), th ? 200 : 120);
    for (int i = 0; i < cases / 2; i++) gen_s_case(r, (int)r.range(3, 9), 80);
    for (int i = 0; i < cases / 2; i++) gen_h_case(r, (int)r.range(1, 8), (int)r.range(1, 3), 80);
    gen_corrupt_cases(r, th ? 300 : 60);
    // probes of the two recorded findings (each is the last op of its case)
    emit("reset r 4"); emit("cpoke_prev 0 1"); emit("cpoke_prev 1 2"); emit("cpoke_prev 2 3"); emit("cpoke_prev 3 0");
    emit("@F:C01-is-correct-length-only ccorrect_strict 0");
    emit("reset s 4"); emit("sadd 2 0"); emit("@F:C01-slist-move-front-foreign smove_front 2 1");
    for (int i = 0; i < cases / 2; i++) gen_t_case(r, (int)r.range(1, 6), th ? 200 : 120);
    gen_round3(r, th);
}

void c01_gen(rng &r, const std::string &tier) { gen(r, tier); }
#endif
#ifndef C01_PART_GEN
int main(int argc, char **argv)
{
    int rc = main_(argc, argv, c01_gen, run_op);
    free_all();
    return rc;
}

#endif
