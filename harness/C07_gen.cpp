// C07 harness, generator (see harness/C07.cpp for the operations)
// generator-only code: no optimisation (compile time)
#pragma GCC optimize("O0")
#include "C07_common.h"
#include <cstdarg>

// ------------------------------------------------------------------ gen
// Every generated line goes through P().  The generator runs twice: the first pass prints every line; the second
// pass (g_twin_pass, fresh random choices) prints, prefixed with `twin`, the operations that reach the code through
// call_toa / call_ato / hex2half - the same stream on the copy of the routines in igris/container/std_portable.h -
// keeping one line in g_twin_keep (all of them in the thorough tier's share of a seed).
static bool g_twin_pass = false;
static unsigned g_twin_keep = 1, g_twin_ctr = 0;
static void P(const char *fmt, ...) __attribute__((format(printf, 1, 2)));
static void P(const char *fmt, ...)
{
    va_list ap;
    va_start(ap, fmt);
    char *line = 0;
    if (vasprintf(&line, fmt, ap) < 0) line = 0;
    va_end(ap);
    if (!line) return;
    if (!g_twin_pass) fputs(line, stdout);
    else
    {
        // one generated string may hold several lines (the constants block): take them one by one
        for (char *p = line; *p;)
        {
            char *e = strchr(p, '\n');
            size_t n = e ? (size_t)(e - p) : strlen(p);
            std::string l(p, n);
            p += n + (e ? 1 : 0);
            static const char *const TW[] = {"toa ", "ato ", "h2h ", "rng ", "sweep ", "maxlen ", "atorep ", "seq "};
            bool ok = false;
            for (const char *t : TW) if (l.compare(0, strlen(t), t) == 0) ok = true;
            if (!ok) continue;
            bool cheap = l[0] == 'h' || l[0] == 'm' || l.compare(0, 3, "seq") == 0; // h2h, maxlen, seq: always
            if (!cheap && g_twin_keep > 1 && (g_twin_ctr++ % g_twin_keep) != 0) continue;
            printf("twin %s\n", l.c_str());
        }
    }
    free(line);
}

static std::vector<uint64_t> boundary_values(rng &r, int bits, bool sgn, unsigned base, int nrand)
{
    std::vector<uint64_t> v;
    uint64_t m = wmask(bits);
    auto add = [&](uint64_t x) { v.push_back(extend(x, bits, sgn)); };
    uint64_t top = sgn ? (m >> 1) : m; // largest magnitude on the positive side
    for (uint64_t x : {0ull, 1ull, 2ull, 9ull, 10ull, 11ull, 35ull, 36ull, 37ull}) { add(x); if (sgn) add(0 - x); }
    add(top); add(top - 1);
    if (sgn) { add(top + 1); add(top + 2); } // minimum, minimum + 1
    if (base >= 2)
    {
        add(base - 1); add(base); add(base + 1);
        if (sgn) { add(0 - (uint64_t)(base - 1)); add(0 - (uint64_t)base); }
        // powers of the base: every length boundary of the text
        std::vector<uint64_t> pw;
        u128 p = base;
        while (p <= (u128)top) { pw.push_back((uint64_t)p); p *= base; }
        size_t take = pw.size() <= 6 ? pw.size() : 6;
        for (size_t i = 0; i < take; i++)
        {
            uint64_t q = (i < 2 && pw.size() > 6) ? pw[pw.size() - 1 - i] : pw[r.below(pw.size())];
            add(q); add(q - 1); add(q + 1);
            if (sgn) { add(0 - q); add(0 - (q - 1)); }
        }
    }
    for (int i = 0; i < nrand; i++)
    {
        // uniform in the bit length, so that short and long texts are equally likely
        int len = (int)r.range(0, bits);
        uint64_t x = len == 0 ? 0 : (r.next() & wmask(len)) | (1ull << (len - 1));
        if (len == 64) x = r.next();
        add(x);
    }
    return v;
}

static std::string digit_string(rng &r, unsigned base, int len)
{
    std::string s;
    unsigned lim = base < 1 ? 1 : (base > 36 ? 36 : base);
    for (int i = 0; i < len; i++)
    {
        unsigned d = (unsigned)r.below(lim);
        if (r.chance(15)) d = lim - 1; // the largest digit of the base
        s.push_back(r.chance(50) ? AL_LO[d] : AL_UP[d]);
    }
    return s;
}
static void emit_ato(int k, unsigned base, const std::string &s)
{
    // s must end with a NUL byte
    P("ato %s %u %s\n", KNAME[k], base, hex(s).c_str());
}

static const unsigned NPART = 16; // = thorough_seeds in checks/C07.json

static void gen(rng &r, const std::string &tier)
{
    bool th = tier == "thorough";
    const unsigned odd_bases[] = {0, 1, 37, 64, 255};
    // (0) hex2half on every character
    for (unsigned c = 0; c < 256; c++) P("h2h %02x\n", c);

    // (1) exhaustive 8-bit and 16-bit values x all bases (as ranges, model and code hashed)
    for (unsigned base = 2; base <= 36; base++)
        for (int k : {I8, U8})
            P("rng %s %u %016llx 256 1\n", KNAME[k], base, k == I8 ? 0xffffffffffffff80ull : 0ull);
    // every 16-bit value x every base on the code (oracle: odometer reference + parse back) ...
    for (unsigned base = 2; base <= 36; base++)
        for (int k : {I16, U16})
            P("sweep %s %u %016llx 65536\n", KNAME[k], base, k == I16 ? 0xffffffffffff8000ull : 0ull);
    // ... and model against code on every 16-bit value for a subset of the bases: 2, 10, 16, 36
    // and four seed-chosen ones in the quick tier; in the thorough tier the 35 bases are
    // dealt out over the NPART parallel seeds, so one thorough run covers all of them
    {
        std::vector<unsigned> sel = {2, 10, 16, 36};
        if (th) { for (unsigned b = 2; b <= 36; b++) if (b % NPART == g_seed % NPART) sel.push_back(b); }
        else for (int i = 0; i < 4; i++) sel.push_back((unsigned)r.range(3, 35));
        for (unsigned base : sel)
            for (int k : {I16, U16})
                for (unsigned c = 0; c < 8; c++)
                    P("rng %s %u %016llx 8192 1\n", KNAME[k], base, (unsigned long long)extend(c * 8192ull + (k == I16 ? 0x8000 : 0), 16, k == I16));
    }

    // (2) boundary-biased single values, every kind x every base (+ bases outside 2..36)
    for (int k = 0; k < NKIND; k++)
    {
        for (unsigned base = 2; base <= 36; base++)
            for (uint64_t v : boundary_values(r, KBITS[k], ksigned(k), base, th ? 24 : 6))
                P("toa %s %u %016llx\n", KNAME[k], base, (unsigned long long)v);
        for (unsigned base : odd_bases)
            for (uint64_t v : {(uint64_t)0, (uint64_t)1, wmask(KBITS[k]), (uint64_t)12345})
                P("toa %s %u %016llx\n", KNAME[k], base, (unsigned long long)extend(v, KBITS[k], ksigned(k)));
    }
    // sampled 32- and 64-bit ranges with large odd strides (model hashed against code)
    for (unsigned base = 2; base <= 36; base++)
        for (int ki = 0; ki < 4; ki++)
        {
            static const int K4[4] = {I32, U32, I64, U64};
            const int k = K4[ki];
            P("rng %s %u %016llx %d %llu\n", KNAME[k], base, (unsigned long long)r.next(), th ? 4096 : 256,
                   (unsigned long long)((r.next() >> (KBITS[k] == 32 ? 44 : 6)) | 1));
        }

    // (3) parse side: digit strings of each base followed by every terminator byte
    std::vector<unsigned> bases;
    for (unsigned b = 2; b <= 36; b++) bases.push_back(b);
    for (unsigned b : odd_bases) bases.push_back(b);
    for (unsigned base : bases)
        for (unsigned t = 0; t < 256; t++)
            for (int k = 0; k < NKIND; k++)
            {
                if (!th && (int)((base + t) % NKIND) != k) continue;
                int mode = (int)r.below(10);
                int len = mode == 0 ? 0 : mode <= 6 ? (int)r.range(1, 8) : mode <= 8 ? (int)r.range(9, 22) : (int)r.range(23, 70);
                std::string s;
                if (r.chance(ksigned(k) ? 35 : 8)) s += '-';
                s += digit_string(r, base, len);
                s.push_back((char)t);
                int extra = (int)r.below(4);
                for (int i = 0; i < extra; i++) s.push_back(r.chance(50) ? AL_LO[r.below(36)] : (char)r.next());
                s.push_back(0);
                // the string must stay NUL terminated: an embedded NUL is fine, the tail is then unread
                emit_ato(k, base, s);
            }
    // texts around the overflow boundary of every width, odd prefixes
    for (unsigned base : {2u, 3u, 7u, 8u, 10u, 16u, 17u, 35u, 36u})
        for (int k = 0; k < NKIND; k++)
        {
            char t[80];
            int bits = KBITS[k];
            for (uint64_t v : {wmask(bits), wmask(bits) >> 1, (wmask(bits) >> 1) + 1, (uint64_t)0})
            {
                ref_text(v, 64, false, base, r.chance(50), t);
                std::string s = t;
                emit_ato(k, base, s + std::string(1, '\0'));
                emit_ato(k, base, "-" + s + std::string(1, '\0'));
                emit_ato(k, base, s + "0" + std::string(1, '\0'));          // one digit too many
                emit_ato(k, base, "000" + s + " " + std::string(1, '\0'));  // leading zeros are digits
            }
            for (const char *odd : {"", "-", "--1", "+1", " 1", "-+1", "0x1f", "1-", "1.", "1.0", "-0", "z", "Z", "zZ9", "\x80", "\xff" "1", "@", "[", "`", "{", "/", ":"})
                emit_ato(k, base, std::string(odd) + std::string(1, '\0'));
        }

    // (4) libc shims
    for (const char *fn : {"itoa", "utoa", "ltoa", "ultoa"})
    {
        int bits = fn[0] == 'l' || fn[1] == 'l' ? 64 : 32;
        bool sgn = fn[0] == 'i' || fn[0] == 'l';
        for (unsigned base = 2; base <= 36; base++)
            for (uint64_t v : boundary_values(r, bits, sgn, base, th ? 16 : 4))
                P("lc %s %u %016llx\n", fn, base, (unsigned long long)v);
        for (unsigned base : {0u, 1u, 37u, 266u, 65535u, 256u + 16u})
            for (uint64_t v : {(uint64_t)0, (uint64_t)255, wmask(bits)})
                P("lc %s %u %016llx\n", fn, base, (unsigned long long)extend(v, bits, sgn));
    }
    // atol/atoi on the decimal text of longs (the value always fits; LONG_MIN is the probe below)
    {
        std::vector<uint64_t> vals = boundary_values(r, 64, true, 10, th ? 600 : 150);
        for (uint64_t v : boundary_values(r, 32, true, 10, th ? 200 : 50)) vals.push_back(v);
        for (uint64_t v : vals)
        {
            if (v == 0x8000000000000000ull) continue;
            char t[80];
            ref_text(v, 64, true, 10, false, t);
            std::string s;
            int sp = r.chance(30) ? (int)r.below(4) : 0;
            for (int i = 0; i < sp; i++) s.push_back(" \t\n\v\f\r"[r.below(6)]);
            if (t[0] != '-' && r.chance(20)) s.push_back('+');
            s += t;
            if (r.chance(40)) s += r.chance(50) ? std::string(1, (char)r.range(1, 255)) : std::string(".5e3");
            s.push_back(0);
            bool ok = true;
            {
                errno = 0;
                strtol(s.c_str(), 0, 10);
                if (errno) ok = false; // an appended digit overflowed: outside the stream by construction
            }
            if (ok) P("atol %s\n", hex(s).c_str());
        }
        for (const char *odd : {"", " ", "-", "+", "+-1", "- 1", "abc", "\x80" "1", "00012", "-0"})
            P("atol %s\n", hex(std::string(odd) + std::string(1, '\0')).c_str());
        // recorded finding (repaired in fix-C11): LONG_MIN overflows the accumulator
        P("@F:C07-atol-longmin atol %s\n", hex(std::string("-9223372036854775808") + std::string(1, '\0')).c_str());
        P("@F:C07-atol-longmin atol %s\n", hex(std::string("  -9223372036854775808x") + std::string(1, '\0')).c_str());
    }

    // (5) debug printers
    for (int i = 0; i < dfn_count(); i++)
    {
        struct { const char *name; int bits; bool sgn; char fmt; } f;
        dfn_info(i, &f.name, &f.bits, &f.sgn, &f.fmt);
        // hex_u4x / bin_u4x call the nibble printers without the harness masking the argument.  Only arguments
        // below 16 are generated: above that the routines are outside their contract (checks/C07.json assumptions;
        // theorem print_nibble_total says what the present code does), a table-driven rewrite may read anything
        // there, and the check must not alarm on it.  `dpr hex_u4x 1f` still works in a replay.
        if (f.fmt == 'X' || f.fmt == 'B')
            for (unsigned v = 0; v < 16; v++)
                P("dpr %s %016llx\n", f.name, (unsigned long long)v);
        else if (f.bits <= 8)
            for (unsigned v = 0; v < (1u << f.bits); v++)
                P("dpr %s %016llx\n", f.name, (unsigned long long)extend(v, f.bits, f.sgn));
        else
            for (uint64_t v : boundary_values(r, f.bits, f.sgn, f.fmt == 'd' ? 10 : f.fmt == 'x' ? 16 : 2, th ? 200 : 24))
                P("dpr %s %016llx\n", f.name, (unsigned long long)v);
    }
    // (6) vt100_left
    for (uint64_t v : boundary_values(r, 32, true, 10, th ? 200 : 40))
        P("vt %08x\n", (unsigned)(v & 0xffffffffu));

    // ---------------------------------------------------------------- round 3
    // (8) what the compiled code contains: type widths, tables, alphabets; calls made before main()
    P("consts\npre\ntbl h2x\ntbl dv\ntbl cty\ntbl alpha\n");

    // (9) EVERY length boundary of the text: base^k - 1, base^k, base^k + 1 (and their negatives)
    //     for every kind, every base 2..36 and every k the type can hold
    for (int k = 0; k < NKIND; k++)
    {
        int bits = KBITS[k];
        bool sgn = ksigned(k);
        uint64_t top = sgn ? wmask(bits) >> 1 : wmask(bits);
        for (unsigned base = 2; base <= 36; base++)
        {
            P("maxlen %s %u\n", KNAME[k], base);
            for (u128 p = base; p <= (u128)top + (sgn ? 1 : 0); p *= base)
            {
                uint64_t q = (uint64_t)p;
                for (uint64_t x : {q - 1, q, q + 1})
                {
                    if ((u128)x <= (u128)top) P("toa %s %u %016llx\n", KNAME[k], base, (unsigned long long)extend(x, bits, sgn));
                    if (sgn && (u128)x <= (u128)top + 1) P("toa %s %u %016llx\n", KNAME[k], base, (unsigned long long)extend(0 - x, bits, sgn));
                }
            }
        }
    }

    // (10) debug_writehex / _reversed / writebin / _reversed / printhex_n: sizes 0, 1, .., around 256, 65535
    {
        auto rnd = [&](size_t n) { bytes b; for (size_t i = 0; i < n; i++) b.push_back(r.chance(20) ? (uint8_t)(r.chance(50) ? 0x00 : 0xff) : (uint8_t)r.next()); return b; };
        for (const char *fn : {"hex", "hexr", "bin", "binr", "hexn"})
        {
            for (size_t size : {0u, 1u, 2u, 3u, 4u, 7u, 8u, 9u, 15u, 16u, 17u, 255u, 256u, 257u})
                for (size_t p : {0u, 3u})
                {
                    bytes m = rnd(p + size);
                    P("wh %s %zu %zu 1 %s\n", fn, p, size, m.empty() ? "-" : hex(m).c_str());
                }
            // every byte value once, in order
            bytes all;
            for (unsigned c = 0; c < 256; c++) all.push_back((uint8_t)c);
            P("wh %s 0 256 1 %s\n", fn, hex(all).c_str());
            // uint16_t size at its maximum: 255 random bytes x 257 = 65535 (output 128 KiB hex / 512 KiB binary)
            P("wh %s 0 65535 257 %s\n", fn, hex(rnd(255)).c_str());
            for (int i = 0; i < (th ? 40 : 8); i++)
            {
                size_t size = r.range(0, 40), p = r.below(5);
                bytes m = rnd(p + size);
                P("wh %s %zu %zu 1 %s\n", fn, p, size, m.empty() ? "-" : hex(m).c_str());
            }
        }
    }
    // (11) debug_print_dump: rows of 8, partial last row, printable / control / high-bit bytes in the ASCII column
    {
        auto rnd = [&](size_t n) {
            bytes b;
            for (size_t i = 0; i < n; i++)
            {
                int m = (int)r.below(6);
                b.push_back(m == 0 ? (uint8_t)r.range(0, 31) : m == 1 ? (uint8_t)r.range(127, 255) : m == 2 ? (uint8_t)(r.chance(50) ? 32 : 126) : (uint8_t)r.range(32, 126));
            }
            return b;
        };
        for (size_t len : {0u, 1u, 2u, 7u, 8u, 9u, 15u, 16u, 17u, 23u, 24u, 255u, 256u, 257u})
            for (int i = 0; i < 2; i++)
            {
                bytes m = rnd(len);
                P("dump %zu 1 %s\n", len, m.empty() ? "-" : hex(m).c_str());
            }
        // every value of the first byte (the row's ASCII column must not depend on it), every value in the column
        for (unsigned c = 0; c < 256; c += th ? 1 : 5)
        {
            bytes m = rnd(11);
            m[0] = (uint8_t)c;
            P("dump 11 1 %s\n", hex(m).c_str());
        }
        bytes all;
        for (unsigned c = 0; c < 256; c++) all.push_back((uint8_t)c);
        P("dump 256 1 %s\n", hex(all).c_str());
        // uint16_t len at its maximum: 8192 rows, 424 KiB of output
        P("dump 65535 257 %s\n", hex(rnd(255)).c_str());
        for (int i = 0; i < (th ? 100 : 20); i++)
        {
            size_t len = r.range(1, 70);
            P("dump %zu 1 %s\n", len, hex(rnd(len)).c_str());
        }
    }
    // (12) hexascii.h: fixed-width text of every byte, boundary values of the wider types, and back
    for (unsigned v = 0; v < 256; v++) P("hxa 8 %02x\n", v);
    for (int W : {16, 32, 64})
        for (uint64_t v : boundary_values(r, W, false, 16, th ? 300 : 40))
            P("hxa %d %016llx\n", W, (unsigned long long)v);
    for (uint64_t v : boundary_values(r, 64, false, 16, th ? 200 : 30)) P("dpr hex_ptr %016llx\n", (unsigned long long)v);

    // (13) long texts: lengths around 255 / 65536 and beyond 300 KiB (the parsers are linear)
    {
        struct L { int k; unsigned base; size_t len; const char *pat; };
        const L ls[] = {
            {U64, 10, 307200, "1234567890"}, {I32, 36, 307201, "zZ09aA"}, {U8, 2, 320000, "10"}, {I64, 16, 65535, "fF0"},
            {U32, 10, 65536, "9"}, {I16, 7, 65537, "6"}, {U16, 36, 255, "z"}, {I8, 10, 256, "0"}, {U64, 2, 257, "1"},
            {I64, 10, 400000, "0"}, // 400 000 leading zeros are digits
        };
        for (const L &l : ls)
            for (const char *tail : {"", "x", "-", " 1"})
            {
                std::string pat = l.pat;
                if (ksigned(l.k) && tail[0] == 'x') pat = std::string(l.pat); // same text; the sign variant follows
                P("atorep %s %u %zu %s %s\n", KNAME[l.k], l.base, l.len, hex(pat).c_str(), hex(std::string(tail) + std::string(1, '\0')).c_str());
            }
        // a '-' in front of a long text: the pattern cannot hold it, so it is the first tail-less variant
        P("atorep i64 10 0 - %s\n", hex(std::string("-") + std::string(300, '7') + std::string(1, '\0')).c_str());
        for (int i = 0; i < (th ? 60 : 12); i++)
        {
            int k = (int)r.below(NKIND);
            unsigned base = (unsigned)r.range(2, 36);
            P("atorep %s %u %zu %s %s\n", KNAME[k], base, (size_t)r.range(0, 3000), hex(digit_string(r, base, (int)r.range(1, 9))).c_str(),
                   hex(std::string(1, (char)r.next()) + std::string(1, '\0')).c_str());
        }
    }
    // (15) the asmlink self-test printers, dprptr / dprptrln, debug_print(NULL)
    for (int W : {8, 16, 32})
        for (int n = 1; n <= 4; n++)
            for (int i = 0; i < (th ? 40 : 8); i++)
            {
                std::string l = "asml " + std::to_string(W);
                std::vector<uint64_t> bv = boundary_values(r, W, false, 16, 4);
                for (int j = 0; j < n; j++) l += " " + hexn(bv[r.below(bv.size())] & wmask(W), W / 4);
                P("%s\n", l.c_str());
            }
    for (uint64_t v : boundary_values(r, 64, false, 16, th ? 60 : 10)) P("asmr %016llx\n", (unsigned long long)v);
    // (16) the copy in igris/container/std_portable.h: see the twin pass in gen_wrapper (round 3b: the copy is repaired
    // and runs through the same stream as the anchored routines)
    // (14) one buffer, several calls: a long text first, shorter ones over it, bad bases in between
    for (int i = 0; i < (th ? 400 : 80); i++)
    {
        int k = (int)r.below(NKIND);
        std::vector<uint64_t> bv = boundary_values(r, KBITS[k], ksigned(k), 2, 2);
        uint64_t v = bv[r.below(bv.size())];
        std::string bs = "2";
        int n = (int)r.range(1, 4);
        for (int j = 0; j < n; j++) bs += "," + std::to_string(r.chance(12) ? (unsigned)(r.chance(50) ? 0 : 37) : (unsigned)r.range(2, 36));
        P("seq %s %016llx %s\n", KNAME[k], (unsigned long long)v, bs.c_str());
    }

}

// (7) thorough: every 32-bit value in base 10 and 16, oracle only.  bin/check runs the seeds
// s*1000+0..NPART-1 in parallel; seed % NPART selects the share of the 32-bit space.
void gen_wrapper(rng &r, const std::string &tier)
{
    // formerly the one probe that ended in a sanitizer abort (-num on INT64_MIN in the std_portable.h copy, repaired
    // in round 3b); it stays the first op of the stream
    P("twin toa i64 10 8000000000000000\n");
    gen(r, tier);
    // the same stream on the copy in igris/container/std_portable.h (quick: every h2h / maxlen / seq line and one in
    // three of the others; thorough: everything)
    g_twin_pass = true;
    g_twin_keep = tier == "thorough" ? 1 : 3;
    gen(r, tier);
    g_twin_pass = false;
    if (tier != "thorough") return;
    uint64_t part = g_seed % NPART, span = (1ull << 32) / NPART;
    const uint64_t CH = 1ull << 18; // ~0.1 s per op: far below the 3 s per-op watchdog even on a loaded machine
    static const int K2[2] = {I32, U32};
    static const unsigned B2[2] = {10u, 16u};
    for (int ki = 0; ki < 2; ki++)
        for (int bi = 0; bi < 2; bi++)
            for (uint64_t lo = part * span; lo < (part + 1) * span; lo += CH)
                P("sweep %s %u %016llx %llu\n", KNAME[K2[ki]], B2[bi], (unsigned long long)extend(lo, 32, K2[ki] == I32), (unsigned long long)CH);
    // round 3b: bases 2, 8 and 36 over the whole 32-bit space in windows of 2^22 values, in each selected window the
    // seed's own 2^18 consecutive values (the 16 seeds of a run together: the whole window).  Base 8 and base 36:
    // every fourth window (round 3: every eighth) - four consecutive VERIF_SEEDs together cover EVERY 32-bit value,
    // signed and unsigned; base 2 (32-character texts, three times the cost per value): every eighth window as in
    // round 3, but now chosen so that eight consecutive VERIF_SEEDs together are exhaustive.  (bin/check runs the
    // seeds VERIF_SEED*1000 + 0..15.)  The divisors are the only thing to change for more: everything in one run
    // costs 12 CPU-minutes per seed, which the shared machine (load average 60-250 during round 3b) did not allow.
    static const unsigned B3[2] = {8u, 36u};
    for (int ki = 0; ki < 2; ki++)
        for (int bi = 0; bi < 2; bi++)
            for (uint64_t win = 0; win < (1ull << 32); win += (1ull << 22))
                if ((win >> 22) % 4 == (g_seed / 1000 + bi + 2 * ki) % 4)
                    P("sweep %s %u %016llx %llu\n", KNAME[K2[ki]], B3[bi], (unsigned long long)extend(win + part * CH, 32, K2[ki] == I32), (unsigned long long)CH);
    for (int ki = 0; ki < 2; ki++)
        for (uint64_t win = 0; win < (1ull << 32); win += (1ull << 22))
            if ((win >> 22) % 8 == (g_seed / 1000 + 4 * ki) % 8)
                P("sweep %s 2 %016llx %llu\n", KNAME[K2[ki]], (unsigned long long)extend(win + part * CH, 32, K2[ki] == I32), (unsigned long long)CH);
}
