// C14 harness: igris::static_vector<T,N> / igris::static_string<N>
// (igris/container/static_vector.h, static_string.h) and their twins in
// igris/container/std_portable.h (second translation unit, C14/portable.cpp)
// against the Lean model IgrisModel/C14.
//
// Cases:
//   reset sv <c|p> <int|trk> <N> <K> <heap|canary>   K container objects ("registers") of capacity N
//     new r | copy r s | move r s | range r v… | il r v… | acopy r s | amove r s |
//     push r x | emplace r x | resize r n | erase r i j | clear r | del r | finish
//   reset ss <c|p> <N> <K> <heap|canary>
//     snew r | sptr r <hex> | sptrlen r <hex> n | scopy r s | spush r hh | sadd r hh |
//     sclear r | scstr r | sget r i | sset r i hh | sdel r | ssplit r hh VS SS
// Result = state of every register (size/room[contents]) + the lifetime events
// of the op (Tracked elements) + number of live elements.
// Oracle = std::vector / std::string mirror built from the arguments only,
// the lifetime ledger of the Tracked element type, canaries, ASan.
#include "C14/prelude.h"
#include <igris/container/unbounded_array.h>
// the library: flags of the command line; the generator and the harness machines: no optimisation (see C14/twin_c.h)
#pragma GCC optimize("O0")
#include "C14/machine.h"

using namespace hv;
using namespace c14;

// ------------------------------------------------------------------ unbounded_array
// (anchored by C14, repaired for C03): K heap arrays of a ledger element type.
//   reset ua <int|trk> <K>
//   unew r n | ufrom r v… | uil r v… | ucopy r s | umove r s | uassign r s |
//   uresize r n | ufill r x | uset r i x | uclear r | udel r | finish
// Observable: size + contents of every array, number of live elements.
// an allocator that fails on command: the next allocate() throws std::bad_alloc
struct AllocCtl
{
    static bool &fail_next()
    {
        static bool f = false;
        return f;
    }
    // the allocator contract: deallocate(p, n) gets the n that allocate(n) returned p for (ASan does not see a
    // wrong n of 0), every block is released once
    static std::map<void *, size_t> &blocks()
    {
        static std::map<void *, size_t> m;
        return m;
    }
};
template <class T> struct ThrowAlloc
{
    using value_type = T;
    ThrowAlloc() = default;
    template <class U> ThrowAlloc(const ThrowAlloc<U> &) {}
    T *allocate(size_t n)
    {
        if (AllocCtl::fail_next())
        {
            AllocCtl::fail_next() = false;
            throw std::bad_alloc();
        }
        T *p = std::allocator<T>().allocate(n);
        AllocCtl::blocks()[(void *)p] = n;
        return p;
    }
    void deallocate(T *p, size_t n)
    {
        if (!p) return; // invalidate() of an empty array
        auto it = AllocCtl::blocks().find((void *)p);
        if (it == AllocCtl::blocks().end())
        {
            L().err("deallocate of a block that is not allocated");
            return;
        }
        if (it->second != n)
            L().err("deallocate(p, " + std::to_string(n) + ") of a block of " + std::to_string(it->second) + " elements");
        size_t real = it->second;
        AllocCtl::blocks().erase(it);
        std::allocator<T>().deallocate(p, real);
    }
    bool operator==(const ThrowAlloc &) const { return true; }
    bool operator!=(const ThrowAlloc &) const { return false; }
};

template <class T> struct UMachine : IMachine
{
    using Arr = igris::unbounded_array<T, ThrowAlloc<T>>;
    using ET = ElemTraits<T>;
    struct Reg
    {
        std::unique_ptr<Place> place;
        Arr *a = nullptr;
        std::vector<int> ref;
    };
    int K;
    std::vector<Reg> regs;
    UMachine(int k) : K(k), regs(k)
    {
        L().reset();
        L().loose = true;
        AllocCtl::blocks().clear();
    }
    ~UMachine() override { L().reset(); }
    bool has(int r) { return r >= 0 && r < K && regs[r].a; }
    bool empty_reg(int r) { return r >= 0 && r < K && !regs[r].a; }
    void *place(int r)
    {
        regs[r].place.reset(new Place(false, sizeof(Arr)));
        return regs[r].place->obj;
    }
    void drop(int r)
    {
        regs[r].a->~Arr();
        regs[r].a = nullptr;
        regs[r].ref.clear();
        regs[r].place.reset();
    }
    void op(const std::vector<std::string> &w0, hv::out &o) override
    {
        // `uthr k <op>`: the (k+1)-th element construction inside <op> throws; `ubad <op>`: the allocation inside
        // <op> throws std::bad_alloc.  The reference is computed from the arguments alone.
        std::vector<std::string> wbuf;
        long thr = -1;
        bool badalloc = false;
        if (w0[0] == "uthr")
        {
            if (w0.size() < 3) { o.result = "bad-op"; return; }
            if (!ET::trk) { o.result = "bad"; return; } // int has no constructor that could throw
            thr = atol(w0[1].c_str());
            wbuf.assign(w0.begin() + 2, w0.end());
        }
        else if (w0[0] == "ubad")
        {
            if (w0.size() < 2) { o.result = "bad-op"; return; }
            badalloc = true;
            wbuf.assign(w0.begin() + 1, w0.end());
        }
        const std::vector<std::string> &w = (thr >= 0 || badalloc) ? wbuf : w0;
        const std::string &c = w[0];
        auto R = [&](size_t i) { return i < w.size() ? atoi(w[i].c_str()) : -1; };
        int r = R(1), s = R(2);
        bool bad = false, thrown = false;
        if ((thr >= 0 || badalloc) && !(c == "unew" || c == "ufrom" || c == "uil" || c == "ucopy" || c == "uassign" || c == "uresize"))
        {
            o.result = "bad"; // the other operations neither allocate nor construct
            return;
        }
        L().throw_in = thr;
        AllocCtl::fail_next() = false;
        try
        {
        if (c == "unew")
        {
            if (!empty_reg(r) || s < 0) bad = true;
            else
            {
                void *m = place(r);
                AllocCtl::fail_next() = badalloc;
                { Strict _g;
                regs[r].a = new (m) Arr((size_t)s);
                }
                regs[r].ref.assign((size_t)s, 0);
            }
        }
        else if (c == "ufrom" || c == "uil")
        {
            if (!empty_reg(r)) bad = true;
            else
            {
                std::vector<int> xs = ints_from(w, 2);
                {
                    std::vector<T> src;
                    src.reserve(xs.size());
                    for (int x : xs) src.emplace_back(x);
                    void *m = place(r);
                    AllocCtl::fail_next() = badalloc;
                    Strict _g;
                    if (c == "ufrom")
                        regs[r].a = new (m) Arr((const T *)src.data(), src.size());
                    else
                        regs[r].a = new (m) Arr(make_il<T>(src.data(), src.size()));
                }
                regs[r].ref = xs;
            }
        }
        else if (c == "ucopy" || c == "umove")
        {
            if (!empty_reg(r) || !has(s)) bad = true;
            else if (c == "ucopy")
            {
                void *m = place(r);
                AllocCtl::fail_next() = badalloc;
                { Strict _g;
                regs[r].a = new (m) Arr(*(const Arr *)regs[s].a);
                }
                regs[r].ref = regs[s].ref;
            }
            else { regs[r].a = new (place(r)) Arr(std::move(*regs[s].a)); regs[r].ref = regs[s].ref; regs[s].ref.clear(); }
        }
        else if (c == "uassign")
        {
            if (!has(r) || !has(s)) bad = true;
            else
            {
                AllocCtl::fail_next() = badalloc && r != s;
                { Strict _g;
                *regs[r].a = *(const Arr *)regs[s].a;
                }
                regs[r].ref = regs[s].ref;
                if (r == s) o.tag("self-assign");
            }
        }
        else if (c == "uresize")
        {
            if (!has(r) || s < 0) bad = true;
            else
            {
                AllocCtl::fail_next() = badalloc;
                { Strict _g;
                regs[r].a->resize((size_t)s);
                }
                regs[r].ref.assign((size_t)s, 0);
            }
        }
        else if (c == "ufill")
        {
            if (!has(r)) bad = true;
            else { T x = ET::make(s); regs[r].a->fill(x); for (auto &e : regs[r].ref) e = s; }
        }
        else if (c == "uset")
        {
            int x = R(3);
            if (!has(r) || s < 0 || (size_t)s >= regs[r].ref.size()) bad = true;
            else { T t = ET::make(x); (*regs[r].a)[(size_t)s] = t; regs[r].ref[(size_t)s] = x; }
        }
        else if (c == "uclear")
        {
            if (!has(r)) bad = true;
            else { regs[r].a->clear(); regs[r].ref.clear(); }
        }
        else if (c == "udel")
        {
            if (!has(r)) bad = true;
            else drop(r);
        }
        else if (c == "finish")
        {
            for (int q = K - 1; q >= 0; q--)
                if (has(q)) drop(q);
            if (ET::trk && (L().ctors != L().dtors || !L().live.empty()))
                o.fail("constructed " + std::to_string(L().ctors) + " destroyed " + std::to_string(L().dtors));
            if (!AllocCtl::blocks().empty())
            {
                o.fail(std::to_string(AllocCtl::blocks().size()) + " block(s) never deallocated");
                AllocCtl::blocks().clear();
            }
        }
        else { L().throw_in = -1; o.result = "bad-op"; return; }
        }
        catch (const Thrown &) { thrown = true; }
        catch (const std::bad_alloc &) { thrown = true; }
        L().throw_in = -1;
        AllocCtl::fail_next() = false;
        if (bad) { o.result = "bad"; return; }
        if (thrown)
        {
            // what the failed call leaves: a constructor no object and nothing it constructed; resize /
            // operator= an empty array (the old elements are gone, what was constructed is destroyed again)
            o.tag("threw");
            o.tag(badalloc ? "alloc-threw" : "ctor-threw");
            if (c == "uresize" || c == "uassign") regs[r].ref.clear();
            else
            {
                regs[r].a = nullptr;
                regs[r].ref.clear();
                regs[r].place.reset();
            }
        }
        std::string st;
        size_t total = 0;
        for (int q = 0; q < K; q++)
        {
            if (q) st += " ";
            st += std::to_string(q) + ":";
            if (!regs[q].a) { st += "-"; continue; }
            Arr &a = *regs[q].a;
            st += std::to_string(a.size()) + "[";
            if (a.size() != regs[q].ref.size()) o.fail("array " + std::to_string(q) + " size " + std::to_string(a.size()) + " expected " + std::to_string(regs[q].ref.size()));
            size_t i = 0;
            for (auto &e : (const Arr &)a)
            {
                RE g = ET::get(e);
                if (i) st += ",";
                st += show(g);
                if (i < regs[q].ref.size() && (g.moved || g.v != regs[q].ref[i])) o.fail("array " + std::to_string(q) + " element " + std::to_string(i));
                i++;
            }
            st += "]";
            if (i != a.size()) o.fail("begin()/end()");
            total += regs[q].ref.size();
        }
        for (auto &e : L().errors) o.fail(e);
        L().errors.clear();
        if (ET::trk)
        {
            if ((size_t)(L().ctors - L().dtors) != total) o.fail("ledger: " + std::to_string(L().ctors - L().dtors) + " live elements, sizes sum to " + std::to_string(total));
            o.result = st + " | " + std::to_string(L().ctors - L().dtors);
        }
        else
            o.result = st + " | -";
        if (thr >= 0 || badalloc)
            o.result += thrown ? " | threw" : " | done";
    }
};

static std::unique_ptr<IMachine> mach;

// which translation unit holds the instantiation
typedef IMachine *(*Factory)(bool, bool, size_t, int, bool);
static IMachine *make_trk_or_rest_c(bool str, bool trk, size_t N, int K, bool can) { return !str && trk ? make_c_small_trk(str, trk, N, K, can) : make_c_small_rest(str, trk, N, K, can); }
static IMachine *make_trk_or_rest_p(bool str, bool trk, size_t N, int K, bool can) { return !str && trk ? make_p_small_trk(str, trk, N, K, can) : make_p_small_rest(str, trk, N, K, can); }
static Factory pick(bool p, bool str, size_t N)
{
    if (N <= 8) return p ? make_trk_or_rest_p : make_trk_or_rest_c;
    if (!str && N <= 257) return p ? make_p_big_trk : make_c_big_trk;
    return p ? make_p_big_rest : make_c_big_rest;
}

static void run_op(const std::vector<std::string> &w, const std::string &, out &o)
{
    if (w.empty())
    {
        o.result = "bad-op";
        return;
    }
    if (w[0] == "reset")
    {
        mach.reset();
        if (w.size() == 7 && w[1] == "sv")
        {
            bool p = w[2] == "p", trk = w[3] == "trk", can = w[6] == "canary";
            size_t N = (size_t)atoi(w[4].c_str());
            int K = atoi(w[5].c_str());
            mach.reset(pick(p, false, N)(false, trk, N, K, can));
        }
        else if (w.size() == 6 && w[1] == "ss")
        {
            bool p = w[2] == "p", can = w[5] == "canary";
            size_t N = (size_t)atoi(w[3].c_str());
            int K = atoi(w[4].c_str());
            mach.reset(pick(p, true, N)(true, false, N, K, can));
        }
        else if (w.size() == 4 && w[1] == "ua")
        {
            int K = atoi(w[3].c_str());
            if (w[2] == "trk") mach.reset(new UMachine<Tracked>(K));
            else mach.reset(new UMachine<int>(K));
        }
        o.result = (mach || (w.size() == 2 && w[1] == "premain")) ? "ok" : "bad-reset";
        return;
    }
    if (w[0] == "premain")
    {
        // what the static objects with init_priority(101) computed before main()
        o.result = std::string("c=") + premain_c() + " p=" + premain_p();
        if (std::string(premain_c()) != "1/2[1] 3/0[1,2,3] 3:abc" || std::string(premain_p()) != "1/2[1] 3/0[1,2,3] 3:abc")
            o.fail("operations run before main() gave " + o.result);
        o.tag("before-main");
        return;
    }
    if (!mach)
    {
        o.result = "no-case";
        return;
    }
    mach->op(w, o);
}

// the width of m_size of one instantiation, read out of the compiled code (gen passes it to the model)
static int width_of(bool p, bool str, bool trk, size_t N)
{
    static std::map<std::string, int> cache;
    std::string key = std::string(p ? "p" : "c") + (str ? "s" : trk ? "t" : "i") + std::to_string(N);
    auto it = cache.find(key);
    if (it != cache.end()) return it->second;
    std::unique_ptr<IMachine> m(pick(p, str, N)(str, trk, N, 1, false));
    int w = m ? m->width() : 0;
    cache[key] = w;
    return w;
}

// ---------------------------------------------------------------- generator
static void P(const std::string &s) { puts(s.c_str()); }
static std::string S(long v) { return std::to_string(v); }

struct VCfg
{
    const char *tw, *ty;
    int N;
};

static int val(rng &r) { return (int)r.range(1, 99); }
static int placeno = 0;
static std::string vreset(const VCfg &c, int K)
{
    return std::string("reset sv ") + c.tw + " " + c.ty + " " + S(c.N) + " " + S(K) + ((placeno++ & 1) ? " canary" : " heap") +
           "\nwidth " + S(width_of(c.tw[0] == 'p', false, c.ty[0] == 't', (size_t)c.N));
}
static std::string vals(rng &r, int n)
{
    std::string s;
    for (int i = 0; i < n; i++)
        s += " " + S(val(r));
    return s;
}
static void fill(rng &r, int reg, int k)
{
    P("new " + S(reg));
    for (int i = 0; i < k; i++)
        P((r.chance(50) ? "push " : "emplace ") + S(reg) + " " + S(val(r)));
}

static void gen_vec(rng &r, bool thorough)
{
    const char *tws[] = {"c", "p"};
    const char *tys[] = {"int", "trk"};
    int Ns[] = {1, 2, 3, 8};
    for (auto tw : tws)
        for (auto ty : tys)
            for (int N : Ns)
            {
                VCfg c{tw, ty, N};
                bool port = tw[0] == 'p';
                // A. constructors with every argument length 0..2N (+1)
                if (!port)
                    for (int len = 0; len <= 2 * N + 1; len++)
                        for (const char *k : {"range", "il", "rangev", "ranges"})
                        {
                            P(vreset(c, 3));
                            P(std::string(k) + " 0" + vals(r, len));
                            P("push 0 " + S(val(r)));
                            P("copy 1 0");
                            P("move 2 1");
                            P("emplace 1 " + S(val(r)));
                            P("finish");
                        }
                // push / emplace far beyond the capacity
                P(vreset(c, 2));
                P("new 0");
                for (int i = 0; i < 2 * N + 1; i++)
                    P((i & 1 ? "emplace 0 " : "push 0 ") + S(val(r)));
                P("copy 1 0");
                P("finish");
                // B. every operation in every (size of *this, size of other) state
                std::vector<std::pair<int, int>> kl;
                if (N <= 3)
                {
                    for (int k = 0; k <= N; k++)
                        for (int l = 0; l <= N; l++)
                            kl.push_back({k, l});
                }
                else
                {
                    kl = {{0, 0}, {0, N}, {N, 0}, {N, N}, {N, N - 1}, {1, N}};
                    for (int q = 0; q < (thorough ? 20 : 6); q++)
                        kl.push_back({(int)r.range(0, N), (int)r.range(0, N)});
                }
                for (auto [k, l] : kl)
                {
                    std::vector<std::string> ops = {"acopy 0 1", "amove 0 1", "acopy 0 0", "amove 0 0", "copy 2 0", "move 2 0", "acopy 1 0", "amove 1 0"};
                    if (l == 0 || l == N)
                    {
                        ops.push_back("clear 0");
                        for (int n = 0; n <= 2 * N + 1; n++)
                            if (N <= 3 || n <= 2 || n >= N - 1 || r.chance(30))
                                ops.push_back("resize 0 " + S(n));
                        if (!port)
                            for (int i = 0; i <= k; i++)
                                for (int j = i; j <= k; j++)
                                    if (N <= 3 || r.chance(thorough ? 60 : 25) || (i == j) || j == k)
                                        ops.push_back("erase 0 " + S(i) + " " + S(j));
                    }
                    for (auto &op : ops)
                    {
                        P(vreset(c, 3));
                        fill(r, 0, k);
                        fill(r, 1, l);
                        P(op);
                        // follow-ups that step on whatever the op left behind
                        P("push 0 " + S(val(r)));
                        P("emplace 1 " + S(val(r)));
                        if (op[0] == 'c' && op[1] == 'o' || op[0] == 'm')
                            P("push 2 " + S(val(r)));
                        if (r.chance(50))
                            P("resize 0 " + S(r.range(0, N + 1)));
                        if (r.chance(30))
                            P("del 1");
                        P("finish");
                    }
                }
                // C. random histories
                int ncases = thorough ? 320 : 14;
                for (int q = 0; q < ncases; q++)
                {
                    int K = 3;
                    P(vreset(c, K));
                    std::vector<int> sz(K, -1); // -1 = no object (generator's own bookkeeping, only to bias towards valid ops)
                    int nops = (int)r.range(10, thorough ? 80 : 50);
                    for (int t = 0; t < nops; t++)
                    {
                        int a = (int)r.below(K), b = (int)r.below(K);
                        if (sz[a] < 0)
                        {
                            int w = (int)r.below(port ? 3 : 5);
                            if (w == 0 || sz[b] < 0 && w <= 2)
                            {
                                P("new " + S(a));
                                sz[a] = 0;
                            }
                            else if (w == 1)
                            {
                                P("copy " + S(a) + " " + S(b));
                                sz[a] = sz[b];
                            }
                            else if (w == 2)
                            {
                                P("move " + S(a) + " " + S(b));
                                sz[a] = sz[b];
                                if (!port) sz[b] = 0;
                            }
                            else
                            {
                                int len = (int)r.range(0, 2 * N);
                                P(std::string(w == 3 ? "range " : "il ") + S(a) + vals(r, len));
                                sz[a] = std::min(len, N);
                            }
                            continue;
                        }
                        int w = (int)r.below(100);
                        if (w < 30)
                        {
                            P((r.chance(50) ? "push " : "emplace ") + S(a) + " " + S(val(r)));
                            if (sz[a] < N) sz[a]++;
                        }
                        else if (w < 42)
                        {
                            int n = r.chance(70) ? (int)r.range(0, N) : (int)r.range(N, 2 * N + 2);
                            P("resize " + S(a) + " " + S(n));
                            sz[a] = std::min(n, N);
                        }
                        else if (w < 54 && !port)
                        {
                            int i = (int)r.range(0, sz[a]), j = (int)r.range(i, sz[a]);
                            if (r.chance(4)) j = sz[a] + 1; // outside the contract: skipped by both sides
                            P("erase " + S(a) + " " + S(i) + " " + S(j));
                            if (j <= sz[a]) sz[a] -= j - i;
                        }
                        else if (w < 60)
                        {
                            P("clear " + S(a));
                            sz[a] = 0;
                        }
                        else if (w < 72)
                        {
                            P("acopy " + S(a) + " " + S(b));
                            if (sz[b] >= 0) sz[a] = sz[b];
                        }
                        else if (w < 84)
                        {
                            P("amove " + S(a) + " " + S(b));
                            if (sz[b] >= 0 && a != b)
                            {
                                sz[a] = sz[b];
                                sz[b] = 0;
                            }
                        }
                        else if (w < 92)
                        {
                            P("del " + S(a));
                            sz[a] = -1;
                        }
                        else
                        {
                            // a constructor on a register that holds an object: outside the contract
                            P("new " + S(a));
                        }
                    }
                    P("finish");
                }
            }
}

static std::string hx(const std::string &s) { return hex(s); }
static std::string hb(int c)
{
    uint8_t b = (uint8_t)c;
    return hex(&b, 1);
}
static std::string sreset(const char *tw, int N, int K)
{
    return std::string("reset ss ") + tw + " " + S(N) + " " + S(K) + ((placeno++ & 1) ? " canary" : " heap") +
           "\nwidth " + S(width_of(tw[0] == 'p', true, false, (size_t)N));
}
static std::string rstr(rng &r, int len, bool nul)
{
    static const int special[] = {0x20, 0x41, 0x7a, 0x7f, 0x80, 0xff, 0x01, 0x2c};
    std::string s;
    for (int i = 0; i < len; i++)
    {
        int c = r.chance(40) ? special[r.below(8)] : (int)r.range(1, 255);
        if (nul && r.chance(15)) c = 0;
        s.push_back((char)c);
    }
    return s;
}

static void gen_str(rng &r, bool thorough)
{
    const char *tws[] = {"c", "p"};
    int Ns[] = {1, 2, 3, 8};
    for (auto tw : tws)
        for (int N : Ns)
        {
            bool port = tw[0] == 'p';
            // D. constructors with every argument length
            for (int len = 0; len <= 2 * N + 2; len++)
                for (int rep = 0; rep < (thorough ? 6 : 2); rep++)
                {
                    P(sreset(tw, N, 2));
                    P("sptr 0 " + hx(rstr(r, len, rep > 0 && r.chance(30))));
                    P("scstr 0");
                    P("spush 0 " + hb((int)r.range(1, 255)));
                    P("scstr 0");
                    P("scopy 1 0");
                    P("spush 1 " + hb((int)r.range(1, 255)));
                    P("sget 1 0");
                    P("scstr 1");
                    P("sdel 0");
                    P("sdel 1");
                    if (port)
                    {
                        std::string a = rstr(r, len, r.chance(30));
                        for (int n = 0; n <= len; n++)
                            if (n == len || n == 0 || n == N || n == N + 1 || r.chance(20))
                            {
                                P(sreset(tw, N, 2));
                                P("sptrlen 0 " + hx(a) + " " + S(n));
                                P("scstr 0");
                                P("sadd 0 " + hb((int)r.range(1, 255)));
                                P("scstr 0");
                                P("sclear 0");
                                P("spush 0 41");
                                P("scstr 0");
                                P("sdel 0");
                            }
                    }
                }
            // push far beyond the capacity, c_str after every step
            P(sreset(tw, N, 1));
            P("snew 0");
            for (int i = 0; i < 2 * N + 2; i++)
            {
                P("spush 0 " + hb(0x61 + i));
                P("scstr 0");
            }
            for (int i = 0; i < N; i++)
            {
                P("sget 0 " + S(i));
                P("sset 0 " + S(i) + " " + hb(0x30 + i));
                P("ssetv 0 " + S(i) + " " + hb(0x40 + i) + " " + S(1 + (i & 1)));
                P("sgetany 0 " + S(i));
            }
            P("sgetany 0 " + S(N)); // the terminator slot
            P("sgetany 0 " + S(N + 1)); // outside the storage: outside the contract
            P("scstr 0");
            P("sdel 0");
            // operator[] at every position of the storage at every fill level
            for (int k = 0; k <= N; k++)
            {
                P(sreset(tw, N, 1));
                P("sptr 0 " + hx(rstr(r, k, false)));
                for (int i = 0; i <= N; i++)
                    P("sgetany 0 " + S(i));
                P("scstr 0");
                P("sgetany 0 " + S(k));
                P("sdel 0");
            }
            // E. random histories
            for (int q = 0; q < (thorough ? 160 : 8); q++)
            {
                int K = 2;
                P(sreset(tw, N, K));
                std::vector<int> sz(K, -1);
                int nops = (int)r.range(8, 40);
                for (int t = 0; t < nops; t++)
                {
                    int a = (int)r.below(K), b = (int)r.below(K);
                    if (sz[a] < 0)
                    {
                        int w = (int)r.below(port ? 4 : 3);
                        if (w == 0) { P("snew " + S(a)); sz[a] = 0; }
                        else if (w == 1) { int len = (int)r.range(0, 2 * N + 1); P("sptr " + S(a) + " " + hx(rstr(r, len, false))); sz[a] = std::min(len, N); }
                        else if (w == 2) { P("scopy " + S(a) + " " + S(b)); if (sz[b] >= 0) sz[a] = sz[b]; }
                        else { int len = (int)r.range(0, 2 * N + 1); int n = (int)r.range(0, len); P("sptrlen " + S(a) + " " + hx(rstr(r, len, true)) + " " + S(n)); sz[a] = std::min(n, N); }
                        continue;
                    }
                    int w = (int)r.below(100);
                    if (w < 35) { P((port && r.chance(40) ? "sadd " : "spush ") + S(a) + " " + hb(r.chance(8) ? 0 : (int)r.range(1, 255))); if (sz[a] < N) sz[a]++; }
                    else if (w < 55) P("scstr " + S(a));
                    else if (w < 65) P("sget " + S(a) + " " + S(r.range(0, std::max(0, sz[a] - 1))));
                    else if (w < 75) P("sset " + S(a) + " " + S(r.range(0, std::max(0, sz[a] - 1))) + " " + hb((int)r.range(0, 255)));
                    else if (w < 83 && port) { P("sclear " + S(a)); sz[a] = 0; }
                    else if (w < 92) { P("sdel " + S(a)); sz[a] = -1; }
                    else if (port) P("ssplit " + S(a) + " " + hb(0x2c) + " " + S(r.range(1, 3)) + " " + S(1 << r.range(0, 2)));
                }
            }
            // F. split (std_portable.h only): every string over {a, b, ','} up to length min(N,4|5) x every <VSize,SSize>
            if (port && N >= 3)
            {
                int maxlen = N == 3 ? 3 : (thorough ? 6 : 5);
                const char al[] = {'a', ',', 'b'};
                for (int len = 0; len <= maxlen; len++)
                {
                    int cnt = 1;
                    for (int i = 0; i < len; i++) cnt *= 3;
                    for (int code = 0; code < cnt; code++)
                    {
                        std::string s;
                        int cc = code;
                        for (int i = 0; i < len; i++) { s.push_back(al[cc % 3]); cc /= 3; }
                        P(sreset(tw, N, 1));
                        P("sptr 0 " + hx(s));
                        for (int vs = 1; vs <= 3; vs++)
                            for (int ss : {1, 2, 4})
                                if (len <= 3 || r.chance(thorough ? 60 : 30))
                                    P("ssplit 0 2c " + S(vs) + " " + S(ss));
                        P("sdel 0");
                    }
                }
            }
        }
}


// ---------------------------------------------------------------- big capacities
// The boundaries of a narrowed size counter: 127/128 (int8_t), 255/256/257
// (uint8_t), 65535/65536/65537 (uint16_t).  A container of capacity N needs
// N + 1 size values.  Few, long histories that fill the container to exactly
// N - 1, N and beyond by every route (one element at a time, constructor
// arguments, resize, copy / move), and then step on the result.
static void big_vec_history(rng &r, const VCfg &c)
{
    int N = c.N;
    bool port = c.tw[0] == 'p';
    bool huge = N >= 1000;
    if (huge)
    {
        // the 64 Ki capacities: bulk fills only (every line costs O(N) on both sides)
        P(vreset(c, 2));
        P("new 0");
        P("resize 0 " + S(N - 2));
        for (int i = 0; i < 4; i++) // N-2 -> N-1 -> N -> dropped, dropped
            P((i & 1 ? "emplace 0 " : "push 0 ") + S(val(r)));
        P("copy 1 0");
        P("push 1 " + S(val(r)));
        P("resize 0 " + S(N - 1));
        P("push 0 " + S(val(r)));
        P("push 0 " + S(val(r)));
        P("clear 1");
        P("amove 1 0");
        P("push 1 " + S(val(r)));
        P("resize 0 " + S(N + 5));
        P("push 0 " + S(val(r)));
        P("acopy 1 0");
        P("emplace 1 " + S(val(r)));
        if (!port)
        {
            P("erase 0 0 1");
            P("push 0 " + S(val(r)));
            P("push 0 " + S(val(r)));
        }
        P("del 1");
        P("move 1 0");
        P("push 1 " + S(val(r)));
        P("finish");
        if (!port)
            for (const char *k : {"range", "il"})
            {
                P(vreset(c, 1));
                P(std::string(k) + " 0" + vals(r, k[0] == 'r' ? N + 1 : N));
                P("push 0 " + S(val(r)));
                P("finish");
            }
        return;
    }
    P(vreset(c, 3));
    P("new 0");
    for (int i = 0; i < N - 2; i++)
        P((i & 1 ? "emplace 0 " : "push 0 ") + S(val(r)));
    for (int i = 0; i < 5; i++) // N-2 -> N-1 -> N -> dropped, dropped, dropped
        P((i & 1 ? "emplace 0 " : "push 0 ") + S(val(r)));
    P("at 0 " + S(N - 1));
    P("at 0 " + S(N)); // outside the contract
    P("back 0");
    P("front 0");
    P("copy 1 0");
    P("push 1 " + S(val(r)));
    P("move 2 1");
    P("emplace 2 " + S(val(r)));
    P("push 1 " + S(val(r)));
    P("resize 0 " + S(N - 1));
    P("push 0 " + S(val(r)));
    P("push 0 " + S(val(r)));
    P("acopy 1 0");
    P("emplace 1 " + S(val(r)));
    P("clear 2");
    P("amove 2 0");
    P("push 2 " + S(val(r)));
    P("push 0 " + S(val(r)));
    P("resize 0 " + S(N + 5));
    P("push 0 " + S(val(r)));
    P("acopy 0 0");
    P("amove 2 2");
    P("resize 0 " + S(N));
    P("emplace 0 " + S(val(r)));
    P("resize 2 " + S(N - 1));
    P("acopy 0 2");
    P("push 0 " + S(val(r)));
    P("push 0 " + S(val(r)));
    if (!port)
    {
        P("erase 0 0 1");
        P("push 0 " + S(val(r)));
        P("push 0 " + S(val(r)));
        P("erase 0 " + S(N - 1) + " " + S(N));
        P("emplace 0 " + S(val(r)));
        P("erase 0 0 " + S(N));
        P("push 0 " + S(val(r)));
    }
    P("del 1");
    P("move 1 0");
    P("push 1 " + S(val(r)));
    P("finish");
    if (!port)
        for (int len : {N - 1, N, N + 1, 2 * N + 1})
            for (const char *k : {"range", "il"})
            {
                P(vreset(c, 2));
                P(std::string(k) + " 0" + vals(r, len));
                P("push 0 " + S(val(r)));
                P("emplace 0 " + S(val(r)));
                P("copy 1 0");
                P("erase 0 1 2");
                P("push 0 " + S(val(r)));
                P("push 0 " + S(val(r)));
                P("finish");
            }
}

static void big_str_history(rng &r, const char *tw, int N)
{
    bool port = tw[0] == 'p';
    bool huge = N >= 1000;
    for (int len : {N - 1, N, N + 1, 2 * N + 2})
    {
        if (huge && len > N + 1) continue;
        P(sreset(tw, N, 2));
        P("sptr 0 " + hx(rstr(r, len, false)));
        P("scstr 0");
        P("spush 0 " + hb((int)r.range(1, 255)));
        P("scstr 0");
        P("spush 0 " + hb((int)r.range(1, 255)));
        P("scopy 1 0");
        P("spush 1 " + hb((int)r.range(1, 255)));
        P("sget 1 " + S(N - 2));
        P("sset 1 " + S(N - 2) + " " + hb((int)r.range(1, 255)));
        P("scstr 1");
        P("sdel 0");
        P("sdel 1");
        if (port)
        {
            std::string a = rstr(r, len, !huge && r.chance(50));
            for (int n : {N - 1, N, N + 1, len})
                if (n <= len && !(huge && n != len))
                {
                    P(sreset(tw, N, 1));
                    P("sptrlen 0 " + hx(a) + " " + S(n));
                    P("scstr 0");
                    P("sadd 0 " + hb((int)r.range(1, 255)));
                    P("sadd 0 " + hb((int)r.range(1, 255)));
                    P("scstr 0");
                    P("sclear 0");
                    P("spush 0 41");
                    P("scstr 0");
                    P("sdel 0");
                }
        }
    }
    if (!huge)
    {
        P(sreset(tw, N, 1));
        P("snew 0");
        for (int i = 0; i < N + 3; i++)
        {
            P("spush 0 " + hb(1 + (i * 7) % 255));
            if (i >= N - 3)
                P("scstr 0");
        }
        P("sget 0 " + S(N - 1));
        P("sset 0 " + S(N - 1) + " 5a");
        P("scstr 0");
        P("sdel 0");
    }
}

static void gen_big(rng &r, bool)
{
    for (const char *tw : {"c", "p"})
    {
        for (int N : {255, 256, 257})
            big_vec_history(r, VCfg{tw, "trk", N});
        for (int N : {65535, 65536, 65537})
            big_vec_history(r, VCfg{tw, "int", N});
        for (int N : {127, 128, 255, 256, 257, 65535, 65536, 65537})
            big_str_history(r, tw, N);
    }
}

// ---------------------------------------------------------------- throwing element constructors
// `thr k <op>`: the (k+1)-th element construction inside <op> throws (Tracked
// throws on command, before it has touched anything).  Every operation that
// constructs, in every (size of *this, size of other) state, with the throw at
// EVERY construction of the operation (k = 0 .. number of constructions; the
// last value is "nothing throws"), followed by operations that step on what the
// failed call left behind: basic exception guarantee.
static void gen_exc(rng &r, bool thorough)
{
    for (const char *tw : {"c", "p"})
        for (int N : {1, 2, 3, 8})
        {
            VCfg c{tw, "trk", N};
            bool port = tw[0] == 'p';
            std::vector<std::pair<int, int>> kl;
            if (N <= 3)
            {
                for (int k = 0; k <= N; k++)
                    for (int l = 0; l <= N; l++)
                        kl.push_back({k, l});
            }
            else
                kl = {{0, N}, {N, N}, {N - 1, N - 1}, {3, N}, {N, 2}, {(int)r.range(0, N), (int)r.range(1, N)}};
            for (auto [k, l] : kl)
            {
                // (operation, number of constructions it performs when nothing throws)
                std::vector<std::pair<std::string, int>> ops;
                ops.push_back({"push 0 " + S(val(r)), k < N ? 1 : 0});
                ops.push_back({"emplace 0 " + S(val(r)), k < N ? 1 : 0});
                ops.push_back({"copy 2 1", l});
                ops.push_back({"move 2 1", l});
                ops.push_back({"acopy 0 1", l});
                ops.push_back({"amove 0 1", l});
                ops.push_back({"acopy 0 0", 0});
                for (int n = k + 1; n <= N + 1; n++)
                    if (N <= 3 || n == k + 1 || n >= N || r.chance(30))
                        ops.push_back({"resize 0 " + S(n), std::min(n, N) - k});
                if (!port && l == 0) // the list constructors do not depend on the state: once per k
                    for (int len = 1; len <= N + 1; len++)
                        if (N <= 3 || len == 1 || len >= N - 1)
                            for (const char *kind : {"range", "il"})
                                ops.push_back({std::string(kind) + " 2" + vals(r, len), std::min(len, N)});
                for (auto &[op, cnt] : ops)
                    for (int t = 0; t <= cnt; t++)
                    {
                        if (N > 3 && t > 1 && t < cnt - 1 && !r.chance(thorough ? 60 : 20)) continue;
                        if (N == 3 && !thorough && t > 0 && t < cnt - 1 && k > 0 && k < N && !r.chance(50)) continue;
                        P(vreset(c, 3));
                        fill(r, 0, k);
                        fill(r, 1, l);
                        P("thr " + S(t) + " " + op);
                        // what is there now must be a usable container
                        P("push 0 " + S(val(r)));
                        P("emplace 1 " + S(val(r)));
                        P("new 2"); // valid exactly when a constructor threw (there is no object)
                        P("push 2 " + S(val(r)));
                        if (r.chance(50)) P("thr " + S(r.range(0, 2)) + " resize 0 " + S(r.range(0, N + 1)));
                        if (r.chance(50)) P("thr " + S(r.range(0, N)) + " acopy 1 0");
                        if (r.chance(40)) P("thr 0 push 1 " + S(val(r)));
                        if (r.chance(40)) P("resize 1 " + S(r.range(0, N + 1)));
                        if (!port && r.chance(40)) P("erase 0 0 " + S(r.range(0, 1)));
                        if (r.chance(30)) P("thr " + S(r.range(0, N)) + " amove 0 1");
                        if (r.chance(30)) P("clear 0");
                        P("finish");
                    }
            }
            // random histories, every third operation with a throw point
            int ncases = thorough ? 200 : 10;
            for (int q = 0; q < ncases; q++)
            {
                int K = 3;
                P(vreset(c, K));
                int nops = (int)r.range(10, thorough ? 70 : 40);
                for (int t = 0; t < nops; t++)
                {
                    int a = (int)r.below(K), b = (int)r.below(K);
                    std::string op;
                    int w = (int)r.below(100);
                    if (w < 12) op = "new " + S(a);
                    else if (w < 20) op = "copy " + S(a) + " " + S(b);
                    else if (w < 28) op = "move " + S(a) + " " + S(b);
                    else if (w < 36 && !port) op = std::string(r.chance(50) ? "range " : "il ") + S(a) + vals(r, (int)r.range(0, N + 2));
                    else if (w < 56) op = (r.chance(50) ? "push " : "emplace ") + S(a) + " " + S(val(r));
                    else if (w < 66) op = "resize " + S(a) + " " + S(r.range(0, N + 2));
                    else if (w < 76) op = "acopy " + S(a) + " " + S(b);
                    else if (w < 86) op = "amove " + S(a) + " " + S(b);
                    else if (w < 90 && !port) op = "erase " + S(a) + " 0 " + S(r.range(0, 1));
                    else if (w < 94) op = "clear " + S(a);
                    else op = "del " + S(a);
                    if (r.chance(35))
                        op = "thr " + S(r.range(0, N)) + " " + op;
                    P(op);
                }
                P("finish");
            }
        }
    // a throw point on an element type that cannot throw is outside the contract (both sides: bad)
    P(vreset(VCfg{"c", "int", 2}, 1));
    P("new 0");
    P("thr 0 push 0 5");
    P("push 0 6");
    P("finish");
}

// ---------------------------------------------------------------- read accessors
// at r i (operator[] / data()[i] / *(begin()+i), const and non-const), front r, back r
// at every index of every fill level, also after erase / resize / a move.
static void gen_access(rng &r, bool)
{
    for (const char *tw : {"c", "p"})
        for (const char *ty : {"int", "trk"})
            for (int N : {1, 2, 3, 8})
            {
                VCfg c{tw, ty, N};
                bool port = tw[0] == 'p';
                for (int k = 0; k <= N; k++)
                {
                    if (N == 8 && k > 1 && k < N - 1) continue;
                    P(vreset(c, 2));
                    fill(r, 0, k);
                    for (int i = 0; i <= k; i++) // i = k: outside the contract (bad on both sides)
                        P("at 0 " + S(i));
                    P("front 0");
                    P("back 0");
                    P("push 0 " + S(val(r)));
                    P("back 0");
                    P("move 1 0");
                    P("front 1");
                    P("back 1");
                    P("front 0");
                    P("resize 0 " + S(N));
                    P("at 0 " + S(N - 1));
                    P("back 0");
                    if (!port)
                    {
                        P("erase 0 0 1");
                        P("back 0");
                        P("front 0");
                    }
                    P("resize 0 1");
                    P("front 0");
                    P("back 0");
                    P("clear 0");
                    P("front 0");
                    P("finish");
                }
            }
}

// ---------------------------------------------------------------- N = 0, long inputs, before main()
static void gen_edge(rng &r, bool)
{
    // the degenerate capacity: every growing operation is a reject
    for (const char *tw : {"c", "p"})
    {
        bool port = tw[0] == 'p';
        for (const char *ty : {"int", "trk"})
        {
            VCfg c{tw, ty, 0};
            P(vreset(c, 3));
            P("new 0");
            P("push 0 5");
            P("emplace 0 6");
            P("resize 0 3");
            P("thr 0 push 0 7");
            P("copy 1 0");
            P("move 2 1");
            P("acopy 0 1");
            P("amove 1 2");
            P("acopy 0 0");
            P("at 0 0");
            P("front 0");
            P("wfill 0 3");
            P("wat 0 0 1 0");
            P("clear 0");
            if (!port) P("erase 0 0 0");
            P("del 2");
            if (!port)
            {
                P("range 2 1 2");
                P("del 2");
                P("il 2 3");
                P("del 2");
                P("rangev 2 4 5 6");
                P("del 2");
                P("ranges 2 7");
                P("thr 0 il 1 1 2");
            }
            P("finish");
        }
        P(sreset(tw, 0, 2));
        P("snew 0");
        P("spush 0 41");
        P("scstr 0");
        P("sgetany 0 0");
        P("sptr 1 " + hx("abc"));
        P("scstr 1");
        P("sget 1 0");
        P("sdel 1");
        P("sptr 1 " + hx(std::string()));
        P("scstr 1");
        P("sdel 1");
        if (port)
        {
            P("sptrlen 1 " + hx("abc") + " 2");
            P("sadd 1 42");
            P("scstr 1");
            P("sclear 1");
        }
        P("sdel 0");
    }
    // one argument of more than 300 KiB for each linear routine
    for (const char *tw : {"c", "p"})
    {
        bool port = tw[0] == 'p';
        const int N = 307200;
        P(sreset(tw, N, 1));
        P("sptr 0 " + hx(rstr(r, N + 1, false)));
        P("scstr 0");
        P("spush 0 41");
        P("sget 0 " + S(N - 1));
        P("sset 0 " + S(N - 1) + " 5a");
        P("scstr 0");
        P("sdel 0");
        if (port)
        {
            P("sptrlen 0 " + hx(rstr(r, N + 7, true)) + " " + S(N + 7));
            P("sadd 0 42");
            P("scstr 0");
            P("sdel 0");
        }
        if (!port)
            for (const char *k : {"range", "il"})
            {
                P(vreset(VCfg{tw, "int", 65536}, 1));
                P(std::string(k) + " 0" + vals(r, 80000)); // 320 000 bytes of int
                P("push 0 " + S(val(r)));
                P("finish");
            }
    }
    // stoi / stol / stoll / stod(static_string) of std_portable.h: digit strings up to exactly N characters
    for (int N : {1, 2, 3, 8})
        for (int len = 0; len <= N + 1; len++)
        {
            P(sreset("p", N, 1));
            std::string d;
            for (int i = 0; i < len; i++) d.push_back((char)('0' + (i == 0 && len > 1 ? r.range(1, 9) : r.range(0, 9))));
            if (len >= 2 && r.chance(30)) d[0] = '-';
            P("sptr 0 " + hx(d));
            P("sstoi 0");
            P("spush 0 37");
            P("sstoi 0");
            P("sgetany 0 " + S(N));
            P("sdel 0");
        }
    P(sreset("c", 3, 1));
    P("sptr 0 " + hx("12"));
    P("sstoi 0"); // not in this twin
    P("sdel 0");
    P("reset premain");
    P("premain");
}

// ---------------------------------------------------------------- writes through the accessors
// wat r i x k (k = 0 operator[], 1 data()[i], 2 *(begin()+i)), wfront r x, wback r x,
// wfill r x (range-for), take r i (T y = std::move(v[i])); swap through a third object.
static void gen_write(rng &r, bool thorough)
{
    for (const char *tw : {"c", "p"})
        for (const char *ty : {"int", "trk"})
            for (int N : {1, 2, 3, 8})
            {
                VCfg c{tw, ty, N};
                bool port = tw[0] == 'p';
                for (int k = 0; k <= N; k++)
                {
                    if (N == 8 && k > 1 && k < N - 1) continue;
                    P(vreset(c, 3));
                    fill(r, 0, k);
                    for (int i = 0; i <= k; i++) // i = k: outside the contract
                        for (int via = 0; via < 3; via++)
                            P("wat 0 " + S(i) + " " + S(val(r)) + " " + S(via));
                    P("wfront 0 " + S(val(r)));
                    P("wback 0 " + S(val(r)));
                    P("back 0");
                    P("wfill 0 " + S(val(r)));
                    for (int i = 0; i <= k; i++)
                        P("take 0 " + S(i));
                    P("copy 1 0"); // copies of moved-from elements
                    P("wfill 1 " + S(val(r)));
                    P("push 0 " + S(val(r)));
                    P("wback 0 " + S(val(r)));
                    if (!port) { P("erase 0 0 1"); P("wfront 0 " + S(val(r))); }
                    P("resize 0 " + S(N));
                    P("wat 0 " + S(N - 1) + " " + S(val(r)) + " 0");
                    P("take 0 " + S(N - 1));
                    P("wat 0 " + S(N - 1) + " " + S(val(r)) + " 2");
                    // std::swap(a, b) spelled out: T tmp(std::move(a)); a = std::move(b); b = std::move(tmp);
                    P("move 2 0");
                    P("amove 0 1");
                    P("amove 1 2");
                    P("del 2");
                    P("wfill 0 " + S(val(r)));
                    P("clear 0");
                    P("wfill 0 " + S(val(r)));
                    P("wfront 0 1"); // empty: outside the contract
                    P("finish");
                }
                for (int q = 0; q < (thorough ? 60 : 3); q++)
                {
                    P(vreset(c, 2));
                    P("new 0");
                    P("new 1");
                    int nops = (int)r.range(10, 40);
                    for (int t = 0; t < nops; t++)
                    {
                        int a = (int)r.below(2), w = (int)r.below(100);
                        if (w < 25) P("push " + S(a) + " " + S(val(r)));
                        else if (w < 45) P("wat " + S(a) + " " + S(r.range(0, N)) + " " + S(val(r)) + " " + S(r.below(3)));
                        else if (w < 55) P("take " + S(a) + " " + S(r.range(0, N - 1)));
                        else if (w < 62) P("wfill " + S(a) + " " + S(val(r)));
                        else if (w < 70) P((r.chance(50) ? "wfront " : "wback ") + S(a) + " " + S(val(r)));
                        else if (w < 78) P("resize " + S(a) + " " + S(r.range(0, N + 1)));
                        else if (w < 86) P("acopy " + S(a) + " " + S(1 - a));
                        else if (w < 92 && !port) P("erase " + S(a) + " 0 1");
                        else P("amove " + S(a) + " " + S(1 - a));
                    }
                    P("finish");
                }
            }
    // the counter-boundary capacities: a write into the last slot of a full container
    for (const char *tw : {"c", "p"})
        for (int N : {255, 256, 257})
        {
            VCfg c{tw, "trk", N};
            P(vreset(c, 1));
            P("new 0");
            P("resize 0 " + S(N));
            P("wat 0 " + S(N - 1) + " 7 0");
            P("wback 0 9");
            P("wat 0 " + S(N) + " 7 0"); // outside the contract
            P("take 0 " + S(N - 1));
            P("wfill 0 3");
            P("finish");
        }
}

// ---------------------------------------------------------------- erase with a throwing move-assignment
// `thra a erase r i j`: every [i,j) of every fill level with the throw at EVERY assignment
// (a = 0 .. size-j; the last = nothing throws), followed by operations that step on the result.
static void gen_erase_throw(rng &r, bool thorough)
{
    for (int N : {1, 2, 3, 8})
    {
        VCfg c{"c", "trk", N};
        for (int k = 0; k <= N; k++)
        {
            if (N == 8 && !(k == N || k == N - 1 || k == 3)) continue;
            for (int i = 0; i <= k; i++)
                for (int j = i; j <= k; j++)
                    for (int a = 0; a <= k - j; a++)
                    {
                        if (N == 8 && !thorough && !(a == 0 || a == k - j || a == k - j - 1) && !r.chance(25)) continue;
                        if (N == 8 && !thorough && !(i == 0 || j == k || j == i + 1) && !r.chance(25)) continue;
                        P(vreset(c, 2));
                        fill(r, 0, k);
                        P("thra " + S(a) + " erase 0 " + S(i) + " " + S(j));
                        P("push 0 " + S(val(r)));
                        if (r.chance(50)) P("copy 1 0");
                        if (r.chance(50)) P("thra 0 erase 0 0 1");
                        if (r.chance(50)) P("erase 0 0 " + S(r.range(0, 1)));
                        if (r.chance(30)) P("wfill 0 " + S(val(r)));
                        if (r.chance(30)) P("resize 0 " + S(r.range(0, N)));
                        P("finish");
                    }
        }
    }
    // outside the contract on both sides: the portable twin has no erase, int cannot throw
    P(vreset(VCfg{"p", "trk", 2}, 1));
    P("new 0");
    P("push 0 1");
    P("thra 0 erase 0 0 1");
    P("finish");
    P(vreset(VCfg{"c", "int", 2}, 1));
    P("new 0");
    P("push 0 1");
    P("push 0 2");
    P("thra 0 erase 0 0 1");
    P("finish");
}

// unbounded_array: element constructors / the allocator throw.  Every constructing operation at every size 0..3
// with the throw at EVERY construction (k = 0 .. n; the last = nothing throws) and with a failing allocation,
// followed by operations that step on what the failed call left behind.
static void gen_ua_throw(rng &r, bool thorough)
{
    for (const char *ty : {"int", "trk"})
    {
        bool trk = ty[0] == 't';
        for (int n = 0; n <= 3; n++)
            for (int l = 0; l <= 2; l++)
            {
                std::vector<std::string> ops = {"unew 2 " + S(n), "ufrom 2" + vals(r, n), "uil 2" + vals(r, n), "uresize 0 " + S(n),
                                                "uassign 0 1", "ucopy 2 1", "uassign 1 1", "ufill 0 3"};
                for (auto &op : ops)
                    for (int k = -1; k <= std::max(n, l); k++) // -1: the allocation fails
                    {
                        if (k >= 0 && !trk && k > 0) continue; // int: `uthr` is outside the contract, once is enough
                        P(std::string("reset ua ") + ty + " 3");
                        P("ufrom 0" + vals(r, (int)r.range(0, 3)));
                        P("ufrom 1" + vals(r, l));
                        P((k < 0 ? std::string("ubad ") : "uthr " + S(k) + " ") + op);
                        P("uset 0 0 " + S(val(r)));
                        P("ufill 0 " + S(val(r)));
                        P("unew 2 1"); // valid exactly when a constructor threw (there is no object)
                        if (r.chance(50)) P("uthr " + S(r.range(0, 2)) + " uresize 0 " + S(r.range(0, 3)));
                        if (r.chance(50)) P("uassign 1 0");
                        if (r.chance(30)) P("ubad uassign 2 0");
                        if (r.chance(30)) P("uresize 0 2");
                        P("finish");
                    }
            }
        for (int q = 0; q < (thorough ? 200 : 8); q++)
        {
            P(std::string("reset ua ") + ty + " 3");
            int nops = (int)r.range(8, 30);
            for (int t = 0; t < nops; t++)
            {
                int a = (int)r.below(3), b = (int)r.below(3), w = (int)r.below(100);
                std::string op;
                if (w < 20) op = "unew " + S(a) + " " + S(r.range(0, 4));
                else if (w < 35) op = "ufrom " + S(a) + vals(r, (int)r.range(0, 4));
                else if (w < 45) op = "ucopy " + S(a) + " " + S(b);
                else if (w < 65) op = "uassign " + S(a) + " " + S(b);
                else if (w < 85) op = "uresize " + S(a) + " " + S(r.range(0, 4));
                else if (w < 92) op = "udel " + S(a);
                else op = "uclear " + S(a);
                if (w < 85 && r.chance(40)) op = (r.chance(25) ? std::string("ubad ") : "uthr " + S(r.range(0, 3)) + " ") + op;
                P(op);
            }
            P("finish");
        }
    }
}

static void gen_ua(rng &r, bool thorough)
{
    for (const char *ty : {"int", "trk"})
    {
        // every constructor / size 0..4, followed by every mutator
        for (int n = 0; n <= 4; n++)
            for (const char *k : {"unew", "ufrom", "uil"})
                for (const char *m : {"uresize 0 0", "uresize 0 3", "uassign 0 1", "uassign 1 0", "uassign 0 0", "ufill 0 7", "uclear 0", "ucopy 2 0", "umove 2 0"})
                {
                    P(std::string("reset ua ") + ty + " 3");
                    if (k[1] == 'n') P("unew 0 " + S(n));
                    else P(std::string(k) + " 0" + vals(r, n));
                    P("ufrom 1" + vals(r, (int)r.range(0, 3)));
                    P(m);
                    if (n) P("uset 0 0 " + S(val(r)));
                    P("uresize 1 " + S(r.range(0, 4)));
                    P("finish");
                }
        for (int q = 0; q < (thorough ? 300 : 12); q++)
        {
            int K = 3;
            P(std::string("reset ua ") + ty + " 3");
            std::vector<int> sz(K, -1);
            int nops = (int)r.range(8, 40);
            for (int t = 0; t < nops; t++)
            {
                int a = (int)r.below(K), b = (int)r.below(K);
                if (sz[a] < 0)
                {
                    int w = (int)r.below(5);
                    int n = (int)r.range(0, 6);
                    if (w == 0) { P("unew " + S(a) + " " + S(n)); sz[a] = n; }
                    else if (w == 1) { P("ufrom " + S(a) + vals(r, n)); sz[a] = n; }
                    else if (w == 2) { P("uil " + S(a) + vals(r, n)); sz[a] = n; }
                    else if (w == 3) { P("ucopy " + S(a) + " " + S(b)); if (sz[b] >= 0) sz[a] = sz[b]; }
                    else { P("umove " + S(a) + " " + S(b)); if (sz[b] >= 0) { sz[a] = sz[b]; sz[b] = 0; } }
                    continue;
                }
                int w = (int)r.below(100);
                if (w < 20) { int n = (int)r.range(0, 6); P("uresize " + S(a) + " " + S(n)); sz[a] = n; }
                else if (w < 40) { P("uassign " + S(a) + " " + S(b)); if (sz[b] >= 0) sz[a] = sz[b]; }
                else if (w < 55) P("ufill " + S(a) + " " + S(val(r)));
                else if (w < 75) P("uset " + S(a) + " " + S(r.range(0, std::max(0, sz[a] - 1))) + " " + S(val(r)));
                else if (w < 85) { P("uclear " + S(a)); sz[a] = 0; }
                else { P("udel " + S(a)); sz[a] = -1; }
            }
            P("finish");
        }
    }
}

int main(int argc, char **argv)
{
    return main_(
        argc, argv,
        [](rng &r, const std::string &tier) {
            bool th = tier == "thorough";
            gen_vec(r, th);
            gen_str(r, th);
            gen_ua(r, th);
            gen_big(r, th);
            gen_exc(r, th);
            gen_access(r, th);
            gen_write(r, th);
            gen_erase_throw(r, th);
            gen_edge(r, th);
            gen_ua_throw(r, th);
        },
        run_op);
}
