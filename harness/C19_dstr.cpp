// C19: second translation unit.  igris/util/string.cpp defines a non-inline
// igris::dstring(const void*, size_t) that no header declares, while
// igris/util/dstring.h defines a `static inline` function of the same name
// and signature: the two cannot be visible in one translation unit.  This one
// sees only the copy of string.cpp.
#include <cstddef>
#include <string>
// Round 3b: the copy of string.cpp is declared by no header, i.e. it is an internal symbol: the
// references are WEAK, so a library that drops / renames the copy still links; the `dstr` op then
// judges the declared implementations only (tag dstr-cpp-copy-absent).
namespace igris
{
    std::string dstring(const void *data, size_t size) __attribute__((weak));
    std::string dstring(const std::string &buf) __attribute__((weak));
}
typedef std::string (*c19_f1)(const void *, size_t);
typedef std::string (*c19_f2)(const std::string &);
bool c19_dstring_cpp_present()
{
    c19_f1 volatile a = &igris::dstring;
    c19_f2 volatile b = &igris::dstring;
    return a != nullptr && b != nullptr;
}
std::string c19_dstring_cpp(const void *data, size_t size) { return igris::dstring(data, size); }
std::string c19_dstring_cpp_str(const std::string &s) { return igris::dstring(s); }
