// C19: second translation unit.  igris/util/string.cpp defines a non-inline
// igris::dstring(const void*, size_t) that no header declares, while
// igris/util/dstring.h defines a `static inline` function of the same name
// and signature: the two cannot be visible in one translation unit.  This one
// sees only the copy of string.cpp.
#include <cstddef>
#include <string>
namespace igris
{
    std::string dstring(const void *data, size_t size);
    std::string dstring(const std::string &buf);
}
std::string c19_dstring_cpp(const void *data, size_t size) { return igris::dstring(data, size); }
std::string c19_dstring_cpp_str(const std::string &s) { return igris::dstring(s); }
