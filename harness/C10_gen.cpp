// C10 harness, generator half (round 3b: split off harness/C10.cpp so that the two halves compile in parallel).
// Emits the op stream only: no library code is called here, nothing of the library is named except the public
// constants __WORDSIZE / SIZE_MAX of the platform.
#include "common/hv.h"
#include "C10_shared.h"
#include <map>
#include <set>
#include <climits>
#include <algorithm>
#include <functional>
#include <memory>
#include <array>
#include <bits/wordsize.h>

using namespace hv;

extern uint64_t g_seed;
// (sop_kinds: the table of C10_sop.cpp, declared in C10_shared.h; only sz / al / cap are read here)

// ---------------------------------------------------------------- gen
static size_t pick_size(rng &r)
{
    static const std::vector<size_t> cls = {0, 1, 7, 8, 9, 15, 16, 17, 63, 64, 65, 56, 72, 120, 127, 128, 129, 136, 192, 200, 256};
    unsigned k = (unsigned)r.below(10);
    if (k < 6) return r.pick(cls);
    if (k < 8) return (size_t)r.below(2001);
    return (size_t)r.below(300);
}

struct HGen
{
    rng &r;
    std::vector<int> live; // slots, in allocation order
    int next_slot = 0;
    int max_live;
    HGen(rng &r_, int max_live_) : r(r_), max_live(max_live_) {}
    void m(size_t n)
    {
        printf("m %d %zu\n", next_slot, n);
        live.push_back(next_slot++);
    }
    void f_at(size_t i)
    {
        printf("f %d\n", live[i]);
        live.erase(live.begin() + i);
    }
    void rr(size_t i, size_t n) { printf("r %d %zu\n", live[i], n); }
    void free_all(int order)
    {
        while (!live.empty())
        {
            size_t i = order == 0 ? live.size() - 1 : order == 1 ? 0 : (size_t)r.below(live.size());
            f_at(i);
        }
    }
};

static void gen_heap_random(rng &r, int ncases, int nops, bool rel = false)
{
    for (int c = 0; c < ncases; c++)
    {
        int mode = c % 5;
        size_t lim = 0;
        if (mode == 4) lim = (size_t)r.range(64, 6000); // small arena: exhaustion paths
        printf("reset heap %zu%s\n", lim, rel ? " rel" : "");
        HGen g(r, rel ? 400 : 90);
        // with a limit a request may fail: the generator cannot know, so the
        // harness treats a slot whose malloc failed as NULL (free(NULL), realloc(NULL))
        if (mode <= 2)
        {
            // phases: allocate k blocks, free them LIFO / FIFO / random, again
            for (int round = 0; round < 3; round++)
            {
                int k = (int)r.range(1, rel ? 130 : 30);
                for (int i = 0; i < k && (int)g.live.size() < g.max_live; i++) g.m(pick_size(r));
                // partial release in the phase's order, then refill
                size_t keep = r.below(g.live.size() + 1);
                while (g.live.size() > keep)
                    g.f_at(mode == 0 ? g.live.size() - 1 : mode == 1 ? 0 : (size_t)r.below(g.live.size()));
                for (int i = 0; i < k / 2 && (int)g.live.size() < g.max_live; i++)
                {
                    if (!g.live.empty() && r.chance(30)) g.rr((size_t)r.below(g.live.size()), pick_size(r));
                    else g.m(pick_size(r));
                }
            }
            g.free_all(mode);
        }
        else
        {
            // free interleaving (mode 3), the same in a small arena (mode 4)
            for (int i = 0; i < nops; i++)
            {
                unsigned k = (unsigned)r.below(100);
                if (g.live.empty() || (k < 40 && (int)g.live.size() < g.max_live)) g.m(lim ? (size_t)r.below(lim / 3 + 2) : pick_size(r));
                else if (k < 70) g.f_at((size_t)r.below(g.live.size()));
                else if (k < 72) printf("f %d\n", 1000 + (int)r.below(5)); // free(NULL)
                else if (k < 75) printf("r %d %zu\n", g.next_slot, pick_size(r)), g.live.push_back(g.next_slot++); // realloc(NULL, n)
                else g.rr((size_t)r.below(g.live.size()), lim ? (size_t)r.below(lim / 2 + 2) : pick_size(r));
            }
            g.free_all((int)r.below(3));
        }
    }
}

// small arenas filled to the last byte: the limit tests of malloc (needs len + 8
// bytes) and of realloc's in-place growth of the topmost chunk (needs ptr + len <= end)
static void gen_heap_brim(rng &r, int ncases)
{
    static const std::vector<int> extras = {0, 7, 8, 15, 16, 17, 23, 24, 56, 63, 64, 65, 71, 72, 73, 80, 136, 144};
    for (int c = 0; c < ncases; c++)
    {
        int k = (int)r.range(1, 5);
        int extra = extras[(size_t)c % extras.size()];
        printf("reset heap %d\n", 72 * k + extra);
        for (int i = 0; i < k; i++) printf("m %d 64\n", i);
        switch ((c / extras.size()) % 4)
        {
        case 0: printf("m %d 0\nm %d 0\nr %d 65\n", k, k + 1, k - 1); break;
        case 1: printf("r %d 65\nm %d 0\nr %d 129\n", k - 1, k, k - 1); break;
        case 2: printf("m %d 64\nm %d 0\nm %d 1\n", k, k + 1, k + 2); break;
        default: printf("r %d 129\nr %d 65\nm %d 64\nm %d 0\n", k - 1, k - 1, k, k + 1); break;
        }
        std::vector<int> sl;
        for (int i = 0; i < k + 3; i++) sl.push_back(i);
        while (!sl.empty())
        {
            size_t i = (size_t)r.below(sl.size());
            printf("f %d\n", sl[i]);
            sl.erase(sl.begin() + i);
        }
    }
}

// realloc chains: one or two blocks grown and shrunk repeatedly between neighbours
static void gen_heap_chains(rng &r, int ncases)
{
    for (int c = 0; c < ncases; c++)
    {
        printf("reset heap %d\n", c % 7 == 6 ? (int)r.range(300, 3000) : 0);
        HGen g(r, 90);
        int k = (int)r.range(1, 6);
        for (int i = 0; i < k; i++) g.m(pick_size(r));
        // punch holes so that neighbours are free
        for (int i = 0; i < k / 2; i++)
            if (g.live.size() > 1) g.f_at((size_t)r.below(g.live.size()));
        int steps = (int)r.range(5, 40);
        size_t cur = pick_size(r);
        for (int i = 0; i < steps; i++)
        {
            unsigned kk = (unsigned)r.below(10);
            if (kk < 3) cur = cur + (size_t)r.range(1, 200);
            else if (kk < 6) cur = cur > 0 ? (size_t)r.below(cur + 1) : 0;
            else cur = pick_size(r);
            if (g.live.empty()) g.m(cur);
            else g.rr((size_t)r.below(g.live.size()), cur);
            if (r.chance(15) && (int)g.live.size() < 8) g.m(pick_size(r));
            if (r.chance(15) && g.live.size() > 1) g.f_at((size_t)r.below(g.live.size()));
        }
        g.free_all((int)r.below(3));
    }
}

// Targeted families (history shapes where an off-by-one in a size test, a wrong predecessor or a lost link shows):
//  0 a free chunk of an exactly chosen size (k coalesced 8-byte chunks [+ a 64-byte one]: every multiple of 8),
//    then requests that fit exactly / leave 8, 16, 24, 32 bytes (exact fit, whole chunk, smallest split)
//  1 realloc growing into the upper neighbour: neighbour exactly fitting, 8 bytes short, 8/16/24/32 bytes spare
//  2 3-way coalescing: adjacent blocks between guards freed in every order, several free chunks around
//  3 lowering the break with a free chunk right below the top block and holes further down
//  4 realloc shrinking next to a free chunk / at the top (the split-off tail merges up / lowers the break)
//  5 best fit among several candidates (first candidate not the smallest), whole-chunk and split variants
static void gen_heap_targeted(rng &r, int ncases)
{
    static const std::vector<size_t> grow = {1, 64, 65, 128, 129, 192, 193, 256};
    for (int c = 0; c < ncases; c++)
    {
        int fam = c % 6;
        size_t lim = c % 13 == 12 ? (size_t)r.range(700, 2600) : 0;
        printf("reset heap %zu\n", lim);
        HGen g(r, 90);
        auto free_slot = [&](int slot) {
            for (size_t i = 0; i < g.live.size(); i++)
                if (g.live[i] == slot)
                {
                    g.f_at(i);
                    return;
                }
        };
        auto idx_of = [&](int slot) -> size_t {
            for (size_t i = 0; i < g.live.size(); i++)
                if (g.live[i] == slot) return i;
            return 0;
        };
        auto shuffled = [&](std::vector<int> v) {
            for (size_t i = v.size(); i > 1; i--) std::swap(v[i - 1], v[(size_t)r.below(i)]);
            return v;
        };
        // k zero-size blocks (8-byte chunks) with an optional 64-byte block among them: returns their slots
        auto small_run = [&](int k, bool with64) {
            std::vector<int> sl;
            int pos64 = with64 ? (int)r.below((uint64_t)k + 1) : -1;
            for (int i = 0; i <= k; i++)
            {
                if (i == pos64)
                {
                    sl.push_back(g.next_slot);
                    g.m(64);
                }
                if (i < k)
                {
                    sl.push_back(g.next_slot);
                    g.m(r.chance(80) ? 0 : 8);
                }
            }
            return sl;
        };
        switch (fam)
        {
        case 0:
        {
            if (r.chance(60)) g.m(pick_size(r));
            std::vector<int> run = small_run((int)r.range(1, 10), r.chance(40));
            if (r.chance(85)) g.m(pick_size(r)); // guard above (without it the run ends at the break)
            for (int sl : shuffled(run)) free_slot(sl);
            for (int i = 0, n = (int)r.range(1, 4); i < n; i++) g.m(r.pick(grow) - (r.chance(30) ? 1 : 0));
            break;
        }
        case 1:
        {
            if (r.chance(50)) g.m(pick_size(r));
            int a = g.next_slot;
            g.m(r.chance(50) ? 0 : r.chance(50) ? 64 : 128);
            std::vector<int> run = small_run((int)r.range(1, 12), r.chance(35));
            bool guard = r.chance(80);
            if (guard) g.m(pick_size(r));
            if (r.chance(30)) g.m(0);
            for (int sl : shuffled(run)) free_slot(sl);
            g.rr(idx_of(a), r.pick(grow));
            if (r.chance(60)) g.rr(idx_of(a), r.pick(grow));
            if (r.chance(40)) g.m(r.pick(grow));
            if (r.chance(40)) g.rr(idx_of(a), (size_t)r.below(70));
            break;
        }
        case 2:
        {
            int groups = (int)r.range(1, 3);
            std::vector<std::vector<int>> gs;
            g.m(pick_size(r));
            for (int k = 0; k < groups; k++)
            {
                std::vector<int> grp;
                for (int i = 0, n = (int)r.range(3, 4); i < n; i++)
                {
                    grp.push_back(g.next_slot);
                    g.m(pick_size(r));
                }
                gs.push_back(grp);
                g.m(pick_size(r)); // guard between the groups
            }
            std::vector<int> all;
            for (auto &grp : gs)
                for (int sl : grp) all.push_back(sl);
            for (int sl : shuffled(all)) free_slot(sl);
            for (int i = 0; i < 2; i++) g.m(r.pick(grow));
            break;
        }
        case 3:
        {
            int n = (int)r.range(4, 9);
            std::vector<int> sl;
            for (int i = 0; i < n; i++)
            {
                sl.push_back(g.next_slot);
                g.m(r.chance(50) ? 0 : pick_size(r));
            }
            // holes further down, then the block below the top, then the top block
            for (int i = 0; i + 3 < n; i++)
                if (r.chance(45)) free_slot(sl[(size_t)i]);
            if (r.chance(80)) free_slot(sl[(size_t)n - 2]);
            free_slot(sl[(size_t)n - 1]);
            if (r.chance(50)) free_slot(sl[(size_t)n - 3]); // now adjacent to the lowered break
            g.m(r.pick(grow));
            if (r.chance(50) && !g.live.empty()) g.f_at(g.live.size() - 1);
            break;
        }
        case 4:
        {
            int a = g.next_slot;
            g.m(r.pick(grow) + 64);
            int b = g.next_slot;
            g.m(r.chance(50) ? 0 : pick_size(r));
            int cc = g.next_slot;
            g.m(r.pick(grow) + 128);
            if (r.chance(60)) free_slot(b);
            g.rr(idx_of(a), r.chance(50) ? 0 : (size_t)r.below(70));  // tail merges with the chunk of b (or not)
            g.rr(idx_of(cc), r.chance(50) ? 0 : (size_t)r.below(130)); // tail is the topmost chunk: break lowered
            if (r.chance(50)) g.rr(idx_of(cc), r.pick(grow) + 200);    // and up again
            if (r.chance(50)) g.rr(idx_of(a), r.pick(grow) + 64);      // grow back into its own tail
            break;
        }
        default:
        {
            // several free chunks of different sizes in random address order, then requests that are
            // served from the smallest fitting one (not the first candidate)
            std::vector<int> holes;
            int n = (int)r.range(2, 5);
            for (int i = 0; i < n; i++)
            {
                size_t sz = r.pick(grow) + (size_t)r.below(3) * 64;
                if (r.chance(40))
                {
                    std::vector<int> run = small_run((int)r.range(1, 4), true);
                    for (int sl : run) holes.push_back(sl);
                }
                else
                {
                    holes.push_back(g.next_slot);
                    g.m(sz);
                }
                g.m(r.chance(50) ? 0 : 64); // guard
            }
            for (int sl : shuffled(holes)) free_slot(sl);
            for (int i = 0, k = (int)r.range(2, 5); i < k; i++) g.m(r.pick(grow));
            break;
        }
        }
        g.free_all((int)r.below(3));
    }
}

// requests close to SIZE_MAX: rounding the request up to a multiple of __WORDSIZE wraps around
static void gen_heap_huge(rng &r, int ncases)
{
    for (int c = 0; c < ncases; c++)
    {
        size_t lim = c % 2 ? (size_t)r.range(300, 3000) : 0;
        printf("reset heap %zu\n", lim);
        HGen g(r, 90);
        auto huge = [&]() -> size_t {
            unsigned k = (unsigned)r.below(4);
            if (k == 0) return SIZE_MAX - (size_t)r.below(64);           // rounding wraps (or is exact: SIZE_MAX - 63)
            if (k == 1) return SIZE_MAX - 63 - (size_t)r.below(130);     // around the first representable size
            if (k == 2) return SIZE_MAX - (size_t)r.below(3);
            return (SIZE_MAX / 2 + 1) + (size_t)r.range(-70, 70);
        };
        for (int i = 0, n = (int)r.range(0, 4); i < n; i++) g.m(pick_size(r));
        if (g.live.size() > 1 && r.chance(50)) g.f_at((size_t)r.below(g.live.size() - 1));
        for (int i = 0, n = (int)r.range(2, 6); i < n; i++)
        {
            unsigned k = (unsigned)r.below(3);
            // when a heap end is configured every huge request must fail; without one only the unrepresentable ones do
            size_t h = huge();
            if (!lim) h = SIZE_MAX - (size_t)r.below(63);
            // realloc computes ptr + len before anything else: keep that sum below 2^64 (the `cp < cp1` test of the
            // code relies on pointer wrap-around, which UBSan reports; address wrap-around is outside the model)
            size_t hr = r.chance(50) ? SIZE_MAX - (size_t)r.below(63) : lim ? (SIZE_MAX / 4 + 1) + (size_t)r.range(-70, 70) : h;
            if (k == 0) printf("m %d %zu\n", 2000 + i, h); // slot stays empty when it fails
            else if (k == 1 && !g.live.empty()) g.rr((size_t)r.below(g.live.size()), hr);
            else printf("r %d %zu\n", 3000 + i, h); // realloc(NULL, huge)
            if (r.chance(50)) g.m(pick_size(r));
        }
        for (int i = 0; i < 6; i++) printf("f %d\nf %d\n", 2000 + i, 3000 + i);
        g.free_all((int)r.below(3));
    }
}

// ADDRESS wrap-around without a heap end: requests so large that the new chunk (malloc step 3, the move path of
// realloc) or `ptr + len` (realloc) would cross the top of the 64-bit address space.  All must be refused with the
// heap unchanged; the history then goes on (a wrapped break would make later blocks overlap live ones).
// Sizes are >= 2^64 - 2^32: the verdict is the same for every arena address in [2^32, 2^47).
static void gen_heap_addrwrap(rng &r, int ncases)
{
    auto wrapsz = [&]() -> size_t {
        unsigned k = (unsigned)r.below(5);
        if (k == 0) return SIZE_MAX - 63 - 64 * (size_t)r.below(4);          // the largest representable requests
        if (k == 1) return SIZE_MAX - 63 - 64 * (size_t)r.below(1u << 20);
        if (k == 2) return SIZE_MAX - (size_t)r.below(1ull << 31);             // any residue (most need rounding)
        if (k == 3) return SIZE_MAX - 63 - 8;                                   // rounds to SIZE_MAX - 63
        return SIZE_MAX - (1ull << 32) + 1 + (size_t)r.below(1ull << 31);
    };
    for (int c = 0; c < ncases; c++)
    {
        printf("reset heap 0%s\n", c % 4 == 3 ? " rel" : "");
        HGen g(r, 90);
        for (int i = 0, n = (int)r.range(0, 5); i < n; i++) g.m(pick_size(r));
        if (g.live.size() > 1 && r.chance(60)) g.f_at((size_t)r.below(g.live.size() - 1)); // a free chunk: step 1/2 cannot serve the request
        for (int i = 0, n = (int)r.range(2, 7); i < n; i++)
        {
            unsigned k = (unsigned)r.below(4);
            if (k == 0) printf("m %d %zu\n", 2000 + i, wrapsz());              // refused: slot stays empty
            else if (k == 1 && !g.live.empty()) g.rr((size_t)r.below(g.live.size()), wrapsz()); // ptr + len wraps
            else if (k == 2) printf("r %d %zu\n", 3000 + i, wrapsz());         // realloc(NULL, huge)
            else g.m(pick_size(r));
            if (r.chance(40)) g.m(pick_size(r));
            if (r.chance(25) && g.live.size() > 1) g.f_at((size_t)r.below(g.live.size()));
        }
        for (int i = 0; i < 7; i++) printf("f %d\nf %d\n", 2000 + i, 3000 + i);
        g.free_all((int)r.below(3));
    }
}

// "memory is not lost": in an arena with a heap end, after ANY history whose blocks are all freed in ANY order the
// heap is back in its initial state, so the largest request the arena can hold succeeds again (and one word more fails)
static void gen_heap_maxalloc(rng &r, int ncases)
{
    for (int c = 0; c < ncases; c++)
    {
        size_t lim = 72 + 64 * (size_t)r.range(1, 60) + (c % 3 == 0 ? (size_t)r.below(64) : 0);
        printf("reset heap %zu\n", lim);
        HGen g(r, 90);
        size_t maxreq = (lim - 8) / 64 * 64;
        if (c % 5 == 0) printf("m 900 %zu\nf 900\n", maxreq);
        for (int i = 0, n = (int)r.range(3, 40); i < n; i++)
        {
            unsigned k = (unsigned)r.below(100);
            if (g.live.empty() || (k < 50 && (int)g.live.size() < g.max_live)) g.m((size_t)r.below(lim / 4 + 2));
            else if (k < 80) g.f_at((size_t)r.below(g.live.size()));
            else g.rr((size_t)r.below(g.live.size()), (size_t)r.below(lim / 3 + 2));
        }
        // slots whose malloc failed are NULL for the harness: free(NULL)
        {
            // sizes around 2^16 / 2^31 / 2^32: far beyond the arena, must fail cleanly (a narrowed size computation would not)
            static const std::vector<size_t> wide = {65535, 65536, 65537, 2147483647ull, 2147483648ull, 4294967295ull, 4294967296ull, 4294967297ull, 4294967304ull, 4294967360ull};
            size_t w1 = r.pick(wide), w2 = r.pick(wide);
            if (w1 + 8 > lim) printf("m 904 %zu\nf 904\n", w1);
            if (w2 + 8 > lim && !g.live.empty()) g.rr((size_t)r.below(g.live.size()), w2);
        }
        g.free_all(c % 3);
        printf("m 901 %zu\n", maxreq + 1 + (size_t)r.below(64)); // one word too many: NULL, nothing changes
        printf("m 902 %zu\n", maxreq - (size_t)r.below(64));     // the maximal request: must succeed
        printf("r 902 %zu\nr 902 %zu\nf 902\nf 901\n", (size_t)r.below(maxreq + 1), maxreq);
        printf("m 903 %zu\nf 903\n", maxreq);
    }
}

// long inputs / boundary sizes: blocks of 255..257, 65535..65537 and >= 300 KiB bytes (the move path copies them),
// in the 1 MiB static arena
static void gen_heap_big(rng &r, int ncases)
{
    static const std::vector<size_t> big = {255, 256, 257, 4095, 4096, 4097, 65535, 65536, 65537, 307200, 310000};
    for (int c = 0; c < ncases; c++)
    {
        printf("reset heap 0%s\n", c % 2 ? " rel" : "");
        HGen g(r, 90);
        size_t a = big[(size_t)c % big.size()];
        g.m(a);
        g.m(r.pick(big) % 70000);
        g.rr(0, a + (size_t)r.range(1, 70000)); // blocked by the block above: malloc + memcpy of `a` bytes + free
        g.m(a / 2);                              // reuses the hole (split)
        g.rr(0, a);                              // shrink-split of the moved block
        if (c % 3 == 0) g.rr(0, 307200 + (size_t)r.below(1000));
        g.free_all((int)r.below(3));
    }
}

// every history of exactly `depth` requests over the size alphabet `al`,
// followed by the release of whatever is still live (ascending or descending)
static long gen_heap_exhaustive(const std::vector<size_t> &al, int depth, bool with_realloc, long part, long nparts)
{
    struct Step
    {
        char op;
        int slot;
        size_t n;
    };
    std::vector<Step> hist;
    long count = 0, idx = 0;
    std::function<void(std::vector<int> &, int)> rec = [&](std::vector<int> &live, int next) {
        if ((int)hist.size() == depth)
        {
            if (idx++ % nparts != part) return;
            count++;
            puts("reset heap 0");
            for (auto &st : hist)
            {
                if (st.op == 'f') printf("f %d\n", st.slot);
                else printf("%c %d %zu\n", st.op, st.slot, st.n);
            }
            std::vector<int> l = live;
            if (idx % 2) std::reverse(l.begin(), l.end());
            for (int sl : l) printf("f %d\n", sl);
            return;
        }
        for (size_t n : al)
        {
            hist.push_back({'m', next, n});
            live.push_back(next);
            rec(live, next + 1);
            live.pop_back();
            hist.pop_back();
        }
        for (size_t i = 0; i < live.size(); i++)
        {
            int sl = live[i];
            hist.push_back({'f', sl, 0});
            live.erase(live.begin() + i);
            rec(live, next);
            live.insert(live.begin() + i, sl);
            hist.pop_back();
        }
        if (with_realloc)
            for (size_t i = 0; i < live.size(); i++)
                for (size_t n : al)
                {
                    hist.push_back({'r', live[i], n});
                    rec(live, next);
                    hist.pop_back();
                }
    };
    std::vector<int> live;
    rec(live, 0);
    return count;
}

static void gen_pool_case(rng &r, bool ip, size_t e, size_t cap)
{
    printf("reset %s %zu %zu\n", ip ? "ipool" : "pool", e, cap);
    const char *A = ip ? "g" : "a";
    const char *F = ip ? "p" : "f";
    // the generator mirrors the LIFO discipline of the free list to know which
    // offsets are live (the harness oracle does not rely on it)
    std::vector<size_t> freel, live;
    for (size_t i = 0; i < cap; i++) freel.push_back(i * e); // back() = list head
    if (ip) puts("sz");
    auto alloc = [&]() {
        puts(A);
        if (!freel.empty())
        {
            live.push_back(freel.back());
            freel.pop_back();
        }
    };
    auto rel = [&](size_t i) {
        printf("%s %zu\n", F, live[i]);
        freel.push_back(live[i]);
        live.erase(live.begin() + i);
    };
    auto probes = [&]() {
        if (ip)
        {
            puts("it");
            printf("ca %ld\n", (long)r.range(-2, (long)cap + 1));
            if (r.chance(30)) puts("p null");
        }
        else
            printf("in %zu\n", (size_t)r.below(cap) * e);
    };
    // exhaust: capacity allocations succeed, then null (twice)
    for (size_t i = 0; i < cap + 2; i++) alloc();
    probes();
    int order = (int)r.below(3);
    size_t keep = r.below(live.size() + 1);
    while (live.size() > keep) rel(order == 0 ? live.size() - 1 : order == 1 ? 0 : (size_t)r.below(live.size()));
    probes();
    // random interleaving
    int n = (int)r.range(5, 40);
    for (int i = 0; i < n; i++)
    {
        if (live.empty() || r.chance(55)) alloc();
        else rel((size_t)r.below(live.size()));
        if (r.chance(20)) probes();
    }
    while (!live.empty()) rel((size_t)r.below(live.size()));
    probes();
    for (size_t i = 0; i < cap + 1; i++) alloc();
    probes();
}

// one igris::pool object initialised again and again with other zones / element sizes / capacities, each time in
// a different state (exhausted, partly handed out, everything returned)
static void gen_ipool_reinit(rng &r)
{
    size_t e = 8 * (size_t)r.range(1, 8), cap = (size_t)r.range(1, 20);
    printf("reset ipool %zu %zu\n", e, cap);
    for (int round = 0; round < 4; round++)
    {
        std::vector<size_t> freel, live;
        for (size_t i = 0; i < cap; i++) freel.push_back(i * e);
        size_t want = round == 0 ? cap + 1 : (size_t)r.below(cap + 2);
        for (size_t i = 0; i < want; i++)
        {
            puts("g");
            if (!freel.empty())
            {
                live.push_back(freel.back());
                freel.pop_back();
            }
        }
        for (size_t i = 0, n = r.below(live.size() + 1); i < n; i++)
        {
            size_t j = (size_t)r.below(live.size());
            printf("p %zu\n", live[j]);
            freel.push_back(live[j]);
            live.erase(live.begin() + j);
        }
        puts("it");
        e = 8 * (size_t)r.range(1, 8);
        cap = (size_t)r.range(1, 20);
        printf("ri %zu %zu\nsz\n", e, cap);
    }
    for (size_t i = 0; i < cap + 1; i++) puts("g");
    puts("it");
}

// realloc in every neighbour configuration: blocks A B C [D]; B is reallocated with the chunk below (A) and / or
// above (C) free, with C a guard, or with B the topmost chunk; growth by less than / exactly / more than what the
// free neighbour above offers, and shrinks; then everything is released in a random order
static void gen_heap_neighbours(rng &r, int ncases)
{
    static const std::vector<size_t> szs = {0, 64, 128, 192, 256};
    for (int c = 0; c < ncases; c++)
    {
        size_t lim = c % 11 == 10 ? (size_t)r.range(900, 3000) : 0;
        printf("reset heap %zu\n", lim);
        HGen g(r, 90);
        int cfgi = c % 8; // bit 0: A free, bit 1: C free, bit 2: no guard D (C or B ends at the break)
        size_t a = r.pick(szs), b = r.pick(szs), cc = r.pick(szs);
        if (r.chance(50)) g.m(r.pick(szs)); // something below A
        int A = g.next_slot; g.m(a);
        int B = g.next_slot; g.m(b);
        int C = -1;
        bool top = (cfgi & 4) && r.chance(50); // B itself is the topmost chunk
        if (!top) { C = g.next_slot; g.m(cc); }
        if (!(cfgi & 4)) g.m(r.pick(szs)); // guard D
        auto idx = [&](int slot) -> size_t { for (size_t i = 0; i < g.live.size(); i++) if (g.live[i] == slot) return i; return 0; };
        if (cfgi & 1) g.f_at(idx(A));
        if ((cfgi & 2) && C >= 0) g.f_at(idx(C));
        size_t cur = b < 8 ? 8 : b, room = (cfgi & 2) && C >= 0 ? (cc < 8 ? 8 : cc) + 8 : 0;
        for (int i = 0, n = (int)r.range(1, 4); i < n; i++)
        {
            unsigned k = (unsigned)r.below(6);
            size_t want = k == 0 ? cur + room : k == 1 ? cur + room + 1 : k == 2 ? (cur + room >= 8 ? cur + room - 8 : 0) : k == 3 ? cur / 2 : k == 4 ? cur + 64 : (size_t)r.below(400);
            g.rr(idx(B), want);
        }
        g.free_all((int)r.below(3));
    }
}

// one pool_head, 1..4 zones of different sizes engaged at arbitrary points of the history
// (shape 0: random; 1: all zones back to back, then exhaust; 2: exhaust, engage onto the drained pool,
//  free some, engage onto a non-empty list; 3: alloc/free a little, then engage), interleaved with alloc/free.
static void gen_mpool_case(rng &r, int shape, bool mixed_elemsz)
{
    puts("reset mpool");
    size_t nz = (size_t)r.range(1, 4);
    if (shape && nz < 2) nz = 2;
    size_t e0 = 8 * (size_t)r.range(1, 8);
    std::vector<std::pair<size_t, size_t>> zs; // cells, elemsz
    for (size_t k = 0; k < nz; k++)
    {
        size_t n = r.chance(8) ? 0 : (size_t)r.range(1, r.chance(20) ? 33 : 9);
        zs.push_back({n, mixed_elemsz ? 8 * (size_t)r.range(1, 8) : e0});
    }
    // the generator mirrors the LIFO discipline of the free list to know which cells are live
    std::vector<std::pair<size_t, size_t>> freel, live;
    size_t engaged = 0, cap = 0;
    auto engage = [&]() {
        if (engaged >= nz) return;
        printf("z %zu %zu\n", zs[engaged].first, zs[engaged].second);
        for (size_t i = 0; i < zs[engaged].first; i++) freel.push_back({engaged, i * zs[engaged].second});
        cap += zs[engaged].first;
        engaged++;
    };
    auto alloc = [&]() {
        puts("a");
        if (!freel.empty())
        {
            live.push_back(freel.back());
            freel.pop_back();
        }
    };
    auto rel = [&](size_t i) {
        printf("f %zu %zu\n", live[i].first, live[i].second);
        freel.push_back(live[i]);
        live.erase(live.begin() + i);
    };
    auto probe = [&]() {
        if (!engaged) return;
        size_t k = (size_t)r.below(engaged);
        if (zs[k].first) printf("in %zu %zu\n", k, (size_t)r.below(zs[k].first) * zs[k].second);
    };
    auto exhaust = [&]() {
        size_t todo = freel.size() + 2;
        for (size_t i = 0; i < todo; i++) alloc();
    };
    auto rel_some = [&]() {
        int order = (int)r.below(3);
        size_t keep = r.below(live.size() + 1);
        while (live.size() > keep) rel(order == 0 ? live.size() - 1 : order == 1 ? 0 : (size_t)r.below(live.size()));
    };
    switch (shape)
    {
    case 1:
        while (engaged < nz) engage();
        exhaust();
        probe();
        rel_some();
        break;
    case 2:
        engage();
        exhaust();
        engage(); // onto a drained pool
        exhaust();
        rel_some();
        probe();
        while (engaged < nz)
        {
            engage(); // onto a list that holds freed cells
            if (r.chance(50)) alloc();
        }
        exhaust();
        break;
    case 3:
        engage();
        for (int i = 0, n = (int)r.range(1, 6); i < n; i++) alloc();
        if (!live.empty()) rel((size_t)r.below(live.size()));
        if (!live.empty() && r.chance(50)) rel((size_t)r.below(live.size()));
        while (engaged < nz)
        {
            engage();
            if (r.chance(60)) alloc();
            if (!live.empty() && r.chance(60)) rel((size_t)r.below(live.size()));
        }
        exhaust();
        break;
    default:
        if (r.chance(70)) engage();
        break;
    }
    int n = (int)r.range(8, 50);
    for (int i = 0; i < n; i++)
    {
        unsigned k = (unsigned)r.below(100);
        if (engaged < nz && k < 12) engage();
        else if (live.empty() || k < 60) alloc();
        else rel((size_t)r.below(live.size()));
        if (r.chance(15)) probe();
    }
    while (engaged < nz) engage();
    // everything back, then exactly the capacity (the sum over all zones) must be handed out again
    while (!live.empty()) rel((size_t)r.below(live.size()));
    for (size_t i = 0; i < cap + 1; i++) alloc();
    probe();
}

// the three twins on one history, cells named by request slots (no assumption on which cell is handed out)
static void gen_tri_case(rng &r, size_t idx)
{
    size_t cap = sop_kinds[idx].cap;
    printf("reset tri %zu\n", idx);
    std::vector<int> live;
    int next = 0;
    auto alloc = [&]() {
        printf("a %d\n", next);
        if (live.size() < cap) live.push_back(next);
        next++;
    };
    auto rel = [&](size_t i) {
        printf("f %d\n", live[i]);
        live.erase(live.begin() + i);
    };
    for (size_t i = 0; i < cap + 2; i++) alloc(); // exactly the capacity, then null twice
    printf("f %d\n", next - 1);                   // a slot that holds NULL
    int order = (int)r.below(3);
    size_t keep = r.below(live.size() + 1);
    while (live.size() > keep) rel(order == 0 ? live.size() - 1 : order == 1 ? 0 : (size_t)r.below(live.size()));
    for (int i = 0, n = (int)r.range(5, 40); i < n; i++)
    {
        if (live.empty() || r.chance(55)) alloc();
        else rel((size_t)r.below(live.size()));
    }
    while (!live.empty()) rel((size_t)r.below(live.size()));
    for (size_t i = 0; i < cap + 1; i++) alloc();
    while (!live.empty()) rel(live.size() - 1); // destroy everything: the harness deletes the pool afterwards
}

static void gen_sop_case(rng &r, const SopKind &k, bool extra_zones = false)
{
    printf("reset sop %zu %zu %zu\n", k.sz, k.al, k.cap);
    size_t al = std::max(k.al, (size_t)8);
    size_t st = (std::max(k.sz, (size_t)8) + al - 1) / al * al;
    std::vector<std::pair<size_t, size_t>> freel, live; // (zone, offset)
    for (size_t i = 0; i < k.cap; i++) freel.push_back({0, i * st});
    size_t nzones = 1, cap = k.cap;
    auto create = [&]() {
        puts("c");
        if (!freel.empty())
        {
            live.push_back(freel.back());
            freel.pop_back();
        }
    };
    auto destroy = [&](size_t i) {
        if (live[i].first) printf("d %zu %zu\n", live[i].first, live[i].second);
        else printf("d %zu\n", live[i].second);
        freel.push_back(live[i]);
        live.erase(live.begin() + i);
    };
    // a further zone handed to the pool through freelist()
    auto engage = [&]() {
        size_t n = r.chance(10) ? 0 : (size_t)r.range(1, 6);
        printf("x %zu\n", n);
        for (size_t i = 0; i < n; i++) freel.push_back({nzones, i * st});
        nzones++;
        cap += n;
    };
    if (extra_zones && r.chance(30)) engage(); // onto the full list of the fresh pool
    puts("ct"); // round 3b: a constructor that throws - on the fresh pool, ...
    for (size_t i = 0; i < cap + 1; i++)
    {
        if (i + 1 == cap) puts("ct"); // ... with one cell left, ...
        create();
    }
    puts("ct"); // ... and on the exhausted pool (nullptr before any constructor runs)
    int n = (int)r.range(5, 60);
    for (int i = 0; i < n; i++)
    {
        if (extra_zones && nzones < 4 && r.chance(8)) engage();
        else if (r.chance(12)) puts("ct");
        else if (live.empty() || r.chance(50)) create();
        else destroy((size_t)r.below(live.size()));
    }
    while (!live.empty()) destroy((size_t)r.below(live.size()));
    if (extra_zones && nzones < 4) engage();
    for (size_t i = 0; i < cap + 1; i++) create();
    // destroy everything: the harness deletes the pool afterwards
    while (!live.empty()) destroy(live.size() - 1);
}

void c10_gen(rng &r, const std::string &tier)
{
    bool th = tier == "thorough";
    puts("consts");
    puts("consts2");
    puts("early");
    puts("reset crit m\nreset crit f\nreset crit r");
    // ---- pools: element sizes 8..64, capacities 1..33
    for (size_t cap = 1; cap <= 33; cap++)
        for (size_t k = 1; k <= 8; k++)
        {
            if (!th && k != 1 + (cap + g_seed) % 8) continue;
            gen_pool_case(r, false, 8 * k, cap);
            gen_pool_case(r, true, 8 * k, cap);
        }
    for (int i = 0; i < (th ? 60 : 12); i++)
    {
        gen_pool_case(r, i % 2, 8 * (size_t)r.range(1, 8), (size_t)r.range(1, 33));
    }
    // capacities around 2^8 (igris::pool: `int _count`, iterator index `int _num`), and one pool of 2^16 + 1 cells
    for (size_t cap : {255, 256, 257})
        if (th || cap == 255 + g_seed % 3) gen_pool_case(r, true, 8, cap);
    if (th) gen_pool_case(r, false, 8, 256);
    puts("reset ipool 8 65537\nsz\ng\ng\nca 65536\nca 65535\nca 65537\nca 0\np 524288\ng\np 524288\np 524280\nsz");
    // element sizes that are not a multiple of the pointer size (the link is then stored
    // misaligned, which the host tolerates): arena and capacity clauses still apply
    for (size_t e : {12, 20, 28, 36, 44})
        for (size_t cap : {1, 3, 4, 7})
            if (th || (e / 4 + cap + g_seed) % 3 == 0)
                gen_pool_case(r, (e / 4 + cap) % 2, e, cap);
    // element sizes smaller than the link / zones that are not whole cells must be refused (asserts)
    for (size_t e : {0, 1, 2, 4, 7})
        for (size_t size : {8, 16, 28})
            if (th || (e + size + g_seed) % 3 == 0) printf("reset poolx %zu %zu\n", e, size);
    puts("reset poolx 16 40\nreset poolx 24 100\nreset poolx 8 64\nreset poolx 16 48\nreset poolx 9 27\nreset poolx 8 0");
    for (int i = 0; i < (th ? 40 : 6); i++) gen_ipool_reinit(r);
    // a default-constructed igris::pool (no zone): every query must answer "empty"
    puts("reset ipool0\ng\nsz\nca 0\nit\np null\ng\nca -1\nsz");
    for (auto &k : sop_kinds)
        for (int i = 0; i < (th ? 4 : 1); i++) gen_sop_case(r, k);
    // object pools extended by further zones through freelist()
    for (auto &k : sop_kinds)
        for (int i = 0; i < (th ? 4 : 1); i++) gen_sop_case(r, k, true);
    // ---- pool_head, igris::pool and static_object_pool on the same histories
    for (size_t idx = 0; idx < sop_kinds.size(); idx++)
        for (int i = 0; i < (th ? 6 : 1); i++) gen_tri_case(r, idx);
    // ---- one pool fed from 1..4 zones engaged at arbitrary points of the history
    for (int i = 0; i < (th ? 1200 : 160); i++) gen_mpool_case(r, i % 4, i % 5 == 4);
    // ---- heap: exhaustive short histories over a 4-size alphabet
    // (rounded to 8, 64, 128, 256 bytes; merged neighbours give 80, 136, … so
    //  that exact fit, whole-chunk fit with an 8 byte rest and splits all occur)
    const std::vector<size_t> al = {0, 64, 128, 200};
    long part = th ? (long)(g_seed % 8) : 0, nparts = th ? 8 : 1;
    // seed-derived partition in the thorough tier (8 derived seeds run in parallel)
    if (th)
    {
        gen_heap_exhaustive(al, 6, false, part, nparts);
        gen_heap_exhaustive(al, 5, true, part, nparts);
    }
    else
    {
        gen_heap_exhaustive(al, 5, false, 0, 1);
        gen_heap_exhaustive(al, 4, true, 0, 1);
        // a random 1/16 sample of the depth-6 malloc/free histories
        gen_heap_exhaustive(al, 6, false, (long)r.below(16), 16);
    }
    for (int d = 1; d <= 3; d++) gen_heap_exhaustive(al, d, true, 0, 1);
    // ---- heap: random histories, realloc chains
    gen_heap_random(r, th ? 400 : 60, th ? 300 : 150);
    gen_heap_chains(r, th ? 600 : 120);
    gen_heap_targeted(r, th ? 3000 : 360);
    gen_heap_huge(r, th ? 200 : 40);
    gen_heap_brim(r, th ? 360 : 72);
    gen_heap_neighbours(r, th ? 1600 : 240);
    gen_heap_addrwrap(r, th ? 300 : 60);
    gen_heap_maxalloc(r, th ? 400 : 60);
    gen_heap_big(r, th ? 44 : 11);
    // probes of the two recorded findings (excluded from the diff, expected to fail the oracle)
    for (int i = 0; i < 3; i++)
    {
        puts("reset heap 0");
        printf("m 0 %zu\n", (size_t)r.below(2000));
        printf("@F:C10-heap-arena-unbounded-by-default mx 1 %zu\n", STATIC_ARENA + (size_t)r.below(1u << 20));
        puts("m 2 64\nf 0\nf 2");
        puts("reset heap 0");
        puts("m 0 1");
        puts("@F:C10-heap-align-max-align-t al 0");
        puts("f 0");
    }
    // the release build (NDEBUG): histories with up to 400 live blocks
    gen_heap_random(r, th ? 40 : 8, th ? 1500 : 600, true);
}

