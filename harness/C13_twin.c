/* C13 round 3: a second compilation of igris/util/printf_impl.c that gives the harness access to what is
   `static` or a macro there: the buffer constants, the widths of the types print_f computes in, and print_f
   itself (direct calls with widths / precisions / flag words that no format string spells).  The public
   entry is renamed so that the two copies can be linked together. */
#define __printf c13_twin_printf
#include <igris/util/printf_impl.c>
#undef __printf

/* what the compiled code contains: compared with what the Lean model embeds by the op `consts` */
long c13_const(int i)
{
    switch (i)
    {
    case 0: return PRINT_F_BUFF_SZ;
    case 1: return PRINT_F_FRAC_MAX;
    case 2: return PRINT_F_EXP_MAX;
    case 3: return PRINT_F_PREC_DEFAULT;
    case 4: return (long)sizeof(DOUBLE);
    case 5: return (long)sizeof(int); /* width, precision, pc, pad_count, zero_left, sign_count, len */
    case 6: return OPS_FLAG_LEFT_ALIGN;
    case 7: return OPS_FLAG_WITH_SIGN;
    case 8: return OPS_FLAG_EXTRA_SPACE;
    case 9: return OPS_FLAG_WITH_SPEC;
    case 10: return OPS_FLAG_ZERO_PAD;
    case 11: return OPS_PREC_IS_GIVEN;
    case 12: return OPS_SPEC_UPPER_CASE;
    case 13: return OPS_LEN_LONGFP;
    case 14: return (long)sizeof(long double);
    case 15: return PRINT_I_BUFF_SZ;
    }
    return -1;
}

int c13_print_f(void (*h)(void *, int), void *d, long double r, int width, int precision, unsigned int ops,
                int base, int with_exp, int is_shortened)
{
    return print_f(h, d, r, width, precision, ops, base, with_exp, is_shortened);
}
