/* C13 round 3: a second compilation of igris/util/printf_impl.c that gives the harness access to what is
   `static` or a macro there: the buffer constants, the widths of the types print_f computes in, and print_f
   itself (direct calls with widths / precisions / flag words that no format string spells).  The public
   entry is renamed so that the two copies can be linked together.

   Round 3b (fragility sweep): the only name of the library this file may RELY on is the public entry
   `__printf` (declared in igris/util/printf_impl.h).  Everything else it mentions is internal - the macros
   PRINT_F_BUFF_SZ / PRINT_F_FRAC_MAX / PRINT_F_EXP_MAX / PRINT_F_PREC_DEFAULT / PRINT_I_BUFF_SZ / DOUBLE, the eight
   OPS_ bit names, the static function print_f and its parameter list - and is OPTIONAL:
     * a macro that does not exist (renamed, removed, turned into an enum or a static const) makes c13_const()
       return C13_UNKNOWN; the harness then uses a behavioural probe through the public entry or a neutral default
       and says so in a tag;
     * print_f is declared here first WITHOUT a prototype (`static int print_f();`): if the library still defines a
       static print_f with the parameter list below, the direct call is used; if it was renamed, removed, split or got
       another parameter list, c13_print_f() degrades to the public entry with the directive spelled as a format
       string (c13_have_print_f() tells the harness which one ran). */
#include <stdarg.h>
#include <stdio.h>
#include <string.h>

#define C13_UNKNOWN (-1000000L)

/* fallback declaration without a prototype: compatible with any later `static int print_f(<prototype>)` whose
   parameter types are their own default promotions (pointers, int, unsigned, long double: true of the list below) */
static int print_f();

#define __printf c13_twin_printf
#include <igris/util/printf_impl.c>
#undef __printf

int c13_twin_printf(void (*h)(void *, int), void *d, const char *format, va_list args);

typedef int c13_print_f_t(void (*)(void *, int), void *, long double, int, int, unsigned int, int, int, int);

/* 1 iff the library defines print_f with exactly the expected parameter list.  A declaration that still has no
   prototype (nothing in the library completed it) is "compatible" with every promotion-safe prototype, also with the
   deliberately wrong `int(int)`; a completed one is compatible only with its own list. */
#define C13_HAVE_PRINT_F                                                                                               \
    (__builtin_types_compatible_p(__typeof__(print_f), c13_print_f_t) &&                                               \
     !__builtin_types_compatible_p(__typeof__(print_f), int(int)))

int c13_have_print_f(void) { return C13_HAVE_PRINT_F; }

/* what the compiled code contains: compared with what the Lean model embeds by the op `consts` */
long c13_const(int i)
{
    switch (i)
    {
    case 0:
#ifdef PRINT_F_BUFF_SZ
        return PRINT_F_BUFF_SZ;
#else
        return C13_UNKNOWN;
#endif
    case 1:
#ifdef PRINT_F_FRAC_MAX
        return PRINT_F_FRAC_MAX;
#else
        return C13_UNKNOWN;
#endif
    case 2:
#ifdef PRINT_F_EXP_MAX
        return PRINT_F_EXP_MAX;
#else
        return C13_UNKNOWN;
#endif
    case 3:
#ifdef PRINT_F_PREC_DEFAULT
        return PRINT_F_PREC_DEFAULT;
#else
        return C13_UNKNOWN;
#endif
    case 4:
#ifdef DOUBLE
        return (long)sizeof(DOUBLE);
#else
        return C13_UNKNOWN;
#endif
    case 5: return (long)sizeof(int); /* width, precision, pc, pad_count, zero_left, sign_count, len */
    case 6:
#ifdef OPS_FLAG_LEFT_ALIGN
        return OPS_FLAG_LEFT_ALIGN;
#else
        return C13_UNKNOWN;
#endif
    case 7:
#ifdef OPS_FLAG_WITH_SIGN
        return OPS_FLAG_WITH_SIGN;
#else
        return C13_UNKNOWN;
#endif
    case 8:
#ifdef OPS_FLAG_EXTRA_SPACE
        return OPS_FLAG_EXTRA_SPACE;
#else
        return C13_UNKNOWN;
#endif
    case 9:
#ifdef OPS_FLAG_WITH_SPEC
        return OPS_FLAG_WITH_SPEC;
#else
        return C13_UNKNOWN;
#endif
    case 10:
#ifdef OPS_FLAG_ZERO_PAD
        return OPS_FLAG_ZERO_PAD;
#else
        return C13_UNKNOWN;
#endif
    case 11:
#ifdef OPS_PREC_IS_GIVEN
        return OPS_PREC_IS_GIVEN;
#else
        return C13_UNKNOWN;
#endif
    case 12:
#ifdef OPS_SPEC_UPPER_CASE
        return OPS_SPEC_UPPER_CASE;
#else
        return C13_UNKNOWN;
#endif
    case 13:
#ifdef OPS_LEN_LONGFP
        return OPS_LEN_LONGFP;
#else
        return C13_UNKNOWN;
#endif
    case 14: return (long)sizeof(long double);
    case 15:
#ifdef PRINT_I_BUFF_SZ
        return PRINT_I_BUFF_SZ;
#else
        return C13_UNKNOWN;
#endif
    }
    return C13_UNKNOWN;
}

static int c13_va_shim(void (*h)(void *, int), void *d, const char *fmt, ...)
{
    va_list ap;
    va_start(ap, fmt);
    int r = c13_twin_printf(h, d, fmt, ap);
    va_end(ap);
    return r;
}

/* `aops` is the flag word in the encoding of the OP LINE (the harness' own, fixed: 1 `-`, 2 `+`, 4 space, 8 `#`,
   16 `0`, 32 precision given, 0x4000 upper case, 0x2000 `L`); it is translated into the bit values the library
   uses today (its OPS_ macros, where they exist), so that renumbering the internal flag bits is harmless. */
int c13_print_f(void (*h)(void *, int), void *d, long double r, int width, int precision, unsigned int aops,
                int base, int with_exp, int is_shortened)
{
    static const unsigned int abstract_bit[8] = {1, 2, 4, 8, 16, 32, 0x4000, 0x2000};
    if (C13_HAVE_PRINT_F)
    {
        unsigned int ops = 0;
        int complete = 1;
        for (int i = 0; i < 8; i++)
            if (aops & abstract_bit[i])
            {
                long v = c13_const(6 + i);
                if (v == C13_UNKNOWN) complete = 0; else ops |= (unsigned int)v;
            }
        if (complete)
            return ((c13_print_f_t *)(void *)print_f)(h, d, r, width, precision, ops, base, with_exp, is_shortened);
    }
    /* behavioural fallback: the same directive through the public entry */
    {
        char f[64], *p = f;
        char conv = is_shortened ? 'g' : with_exp ? 'e' : 'f';
        (void)base;
        *p++ = '%';
        if (aops & 1) *p++ = '-';
        if (aops & 2) *p++ = '+';
        if (aops & 4) *p++ = ' ';
        if (aops & 8) *p++ = '#';
        if (aops & 16) *p++ = '0';
        if (width > 0) p += sprintf(p, "%d", width);
        if (aops & 32) p += sprintf(p, ".%d", precision);
        if (aops & 0x4000) conv = (char)(conv - 'a' + 'A');
        if (aops & 0x2000)
        {
            *p++ = 'L';
            *p++ = conv;
            *p = 0;
            return c13_va_shim(h, d, f, r);
        }
        *p++ = conv;
        *p = 0;
        return c13_va_shim(h, d, f, (double)r);
    }
}
