// C03 harness: igris/datastruct/ring.h, igris/container/ring.h,
// igris/datastruct/ring_counter.h, igris/container/cyclic_buffer.h against the
// Lean model (IgrisModel/C03).
//
// Cases (all start with a line beginning with "reset"):
//   reset ring <size> <buflen>   struct ring_head + exactly sized heap buffer
//   reset typed <n>              igris::ring<int>(n)
//   reset tchar <n>              igris::ring<char>(n)   (adds read/write)
//   reset cyc <n>                igris::cyclic_buffer<int>(n)
//   reset rc <size>              struct ring_counter
//   reset bring <size>           bytering_head + exactly sized heap block
//   reset tempty                 default-constructed igris::ring<int> (only resize may follow)
// one-line cases (round 3): reset widths | reset premain | reset hist <size> <script> |
//   reset histt <n> <script> | reset longrun <size> <n> | reset sizezero <what> | reset movedpush <n>
// Translation units: see C03_common.h.
// Result line = "<ret> <state…>" (state = every counter the API reports).
// Oracle = a std::deque / std::vector mirror maintained by the harness only
// from the operations' arguments and the documented contract.
#include "C03_common.h"

// ===================================================================== C ring
struct CRing
{
    ring_head r;
    std::unique_ptr<exact_buf> buf;
    std::deque<uint8_t> q; // reference queue
    uint8_t *p() { return buf->p; }
    char *cp() { return (char *)buf->p; }
    size_t blen() { return buf->n; }
};
static std::unique_ptr<CRing> cr;

static std::string cring_state(ring_head *r)
{
    return S(r->head) + " " + S(r->tail) + " " + S(ring_avail(r)) + " " + S(ring_room(r)) + " " +
           S(ring_empty(r) ? 1 : 0) + " " + S(ring_full(r) ? 1 : 0);
}

// contents of the ring read off the buffer by walking tail -> head (no igris code)
static void cring_resync(CRing &c)
{
    c.q.clear();
    if (c.r.size == 0 || c.r.head >= c.r.size || c.r.tail >= c.r.size)
        return;
    for (uint64_t i = c.r.tail; i != c.r.head; i = (i + 1) % c.r.size)
    {
        if (i >= c.blen())
            return;
        c.q.push_back(c.p()[i]);
    }
}

// the clauses of the property that hold in every state
static void cring_check(CRing &c, out &o, bool content = true)
{
    ring_head *r = &c.r;
    uint64_t size = r->size;
    if (!(r->head < size))
        o.fail("head " + S(r->head) + " outside [0,size)");
    if (!(r->tail < size))
        o.fail("tail " + S(r->tail) + " outside [0,size)");
    uint64_t av = ring_avail(r), rm = ring_room(r);
    if (av + rm != size - 1)
        o.fail("avail+room " + S(av) + "+" + S(rm) + " != size-1");
    if (!content)
        return;
    if (av != c.q.size())
        o.fail("avail " + S(av) + " != reference " + S(c.q.size()));
    if (rm != size - 1 - c.q.size())
        o.fail("room " + S(rm) + " != reference " + S(size - 1 - c.q.size()));
    if ((ring_empty(r) != 0) != c.q.empty())
        o.fail("ring_empty disagrees with reference");
    if ((ring_full(r) != 0) != (c.q.size() == size - 1))
        o.fail("ring_full disagrees with reference");
    // stored bytes = reference queue, in order
    uint64_t i = r->tail;
    for (size_t k = 0; k < c.q.size(); k++, i = (i + 1) % size)
        if (i >= c.blen() || c.p()[i] != c.q[k])
        {
            o.fail("stored byte " + S(k) + " differs from reference");
            break;
        }
    if (r->head < r->tail) o.tag("wrapped");
    if (c.q.empty()) o.tag("empty");
    if (c.q.size() == size - 1) o.tag("full");
    if (size & (size - 1)) o.tag("nonpow2");
}

static void run_cring(const std::vector<std::string> &w, out &o)
{
    CRing &c = *cr;
    ring_head *r = &c.r;
    const std::string &op = w[0];
    uint64_t size = r->size;
    std::string ret = "-";
    bool content = c.blen() >= size; // "huge" cases carry no data
    if (op == "putc")
    {
        uint8_t b = unhex(w[1])[0];
        ring_head before = *r;
        bytes snap = c.buf->vec();
        bool full = c.q.size() == size - 1;
        int rc = ring_putc(r, c.cp(), (char)b);
        ret = S(rc);
        if (full)
        {
            o.tag("reject-full");
            if (rc != 0) o.fail("putc on a full ring returned " + S(rc));
            if (before.head != r->head || before.tail != r->tail || snap != c.buf->vec())
                o.fail("putc on a full ring changed the state");
        }
        else
        {
            if (rc != 1) o.fail("putc on a non-full ring returned " + S(rc));
            c.q.push_back(b);
        }
        if (b == 0xff) o.tag("ff");
        else if (b >= 0x80) o.tag("hi-byte");
    }
    else if (op == "getc")
    {
        ring_head before = *r;
        bytes snap = c.buf->vec();
        int rc = ring_getc(r, c.cp());
        ret = S(rc);
        if (c.q.empty())
        {
            o.tag("reject-empty");
            if (rc != -1) o.fail("getc on an empty ring returned " + S(rc));
            if (before.head != r->head || before.tail != r->tail || snap != c.buf->vec())
                o.fail("getc on an empty ring changed the state");
        }
        else
        {
            uint8_t exp = c.q.front();
            c.q.pop_front();
            if (rc != (int)exp)
                o.fail("getc returned " + S(rc) + " for stored byte " + S(exp));
            if (exp == 0xff) o.tag("ff");
            else if (exp >= 0x80) o.tag("hi-byte");
        }
    }
    else if (op == "write")
    {
        bytes d = unhex(w[1]);
        exact_buf src(d);
        size_t room = size - 1 - c.q.size();
        size_t acc = std::min(d.size(), room);
        ring_head before = *r;
        bytes snap = c.buf->vec();
        int rc = ring_write(r, c.cp(), (const char *)src.p, (unsigned)d.size());
        ret = S(rc);
        if (content && acc == 0 && (before.head != r->head || before.tail != r->tail || snap != c.buf->vec()))
            o.fail("write that stores nothing (full ring / length 0) changed the state");
        if (rc != (int)acc)
            o.fail("write of " + S(d.size()) + " with room " + S(room) + " returned " + S(rc));
        for (size_t i = 0; i < acc; i++) c.q.push_back(d[i]);
        if (d.size() > room) o.tag("write-partial");
        if (acc > 1) o.tag("bulk");
    }
    else if (op == "read")
    {
        size_t n = strtoul(w[1].c_str(), 0, 10);
        exact_buf dst(n);
        size_t k = std::min(n, c.q.size());
        ring_head before = *r;
        bytes snap = c.buf->vec();
        int rc = ring_read(r, c.cp(), (char *)dst.p, (unsigned)n);
        size_t got = rc < 0 ? 0 : std::min((size_t)rc, n);
        if (snap != c.buf->vec()) o.fail("read wrote to the ring buffer");
        if (content && k == 0 && (before.head != r->head || before.tail != r->tail))
            o.fail("read that delivers nothing (empty ring / length 0) changed the state");
        ret = S(rc) + " " + hex(dst.p, got);
        if (rc != (int)k)
            o.fail("read of " + S(n) + " with " + S(c.q.size()) + " stored returned " + S(rc));
        for (size_t i = 0; i < k; i++)
        {
            if (i < got && dst.p[i] != c.q.front())
                o.fail("read: byte " + S(i) + " is " + S(dst.p[i]) + ", written was " + S(c.q.front()));
            if (c.q.front() == 0xff) o.tag("ff");
            c.q.pop_front();
        }
        for (size_t i = got; i < n; i++)
            if (dst.p[i] != 0xA5) o.fail("read stored past its return value");
        if (n > k) o.tag("read-partial");
        if (k > 1) o.tag("bulk");
    }
    else if (op == "mh1" || op == "mh" || op == "prod" || op == "prod1")
    {
        bytes d;
        uint64_t n = 1;
        if (op == "mh") n = strtoull(w[1].c_str(), 0, 10);
        if (op == "prod" || op == "prod1")
        {
            d = unhex(w[1]);
            n = d.size();
            // the producer fills the free slots itself (DMA style) ...
            for (size_t i = 0; i < d.size(); i++)
                c.p()[(r->head + i) % size] = d[i];
        }
        uint64_t room = size - 1 - c.q.size();
        bool valid = content && n <= room;
        if (valid)
            for (uint64_t i = 0; i < n; i++) c.q.push_back(c.p()[(r->head + i) % size]);
        // ... and publishes them with a head move
        uint64_t h0 = r->head, t0 = r->tail;
        if (op == "mh1" || op == "prod1") ring_move_head_one(r);
        else ring_move_head(r, (unsigned)n);
        if (!content)
        { // ring without data (sizes above 2^31): the index arithmetic itself, in 64 bit
            uint64_t avail0 = (h0 + size - t0) % size;
            if (n <= size - 1 - avail0)
            {
                if (r->head != (h0 + n) % size)
                    o.fail("move_head(" + S(n) + ") from head " + S(h0) + " size " + S(size) + " gives " + S(r->head) + ", not (head+n) mod size");
                if (h0 + n > 0xFFFFFFFFull) o.tag("head+bias>=2^32");
                o.tag("huge-move");
            }
        }
        if (!valid) { cring_resync(c); if (content) o.tag("overmove"); }
        else if (n > 1) o.tag("bulk-move");
    }
    else if (op == "mt1" || op == "mt" || op == "cons" || op == "cons1")
    {
        uint64_t n = (op == "mt" || op == "cons") ? strtoull(w[1].c_str(), 0, 10) : 1;
        bool valid = content && n <= c.q.size();
        if (op == "cons" || op == "cons1")
        {
            // the consumer reads the stored slots itself (DMA style) ...
            bytes got;
            for (uint64_t i = 0; i < n; i++) got.push_back(c.p()[(r->tail + i) % size]);
            ret = S(n) + " " + hex(got);
            for (uint64_t i = 0; valid && i < n; i++)
                if (got[i] != c.q[i]) o.fail("consumed byte " + S(i) + " differs from the written one");
        }
        // ... and releases them with a tail move
        if (valid)
            for (uint64_t i = 0; i < n; i++) c.q.pop_front();
        uint64_t h0 = r->head, t0 = r->tail;
        if (!content)
        {
            uint64_t avail0 = (h0 + size - t0) % size;
            uint64_t exp = (t0 + n) % size;
            bool ok = n <= avail0;
            if (op == "mt1") ring_move_tail_one(r); else ring_move_tail(r, (unsigned)n);
            if (ok)
            {
                if (r->tail != exp)
                    o.fail("move_tail(" + S(n) + ") from tail " + S(t0) + " size " + S(size) + " gives " + S(r->tail) + ", not (tail+n) mod size");
                if (t0 + n > 0xFFFFFFFFull) o.tag("tail+bias>=2^32");
                o.tag("huge-move");
            }
        }
        else
        if (op == "mt1" || op == "cons1") ring_move_tail_one(r);
        else ring_move_tail(r, (unsigned)n);
        if (!valid) { cring_resync(c); o.tag("overmove"); }
        else if (n > 1) o.tag("bulk-move");
    }
    else if (op == "clean")
    {
        ring_clean(r);
        c.q.clear();
    }
    else if (op == "set")
    {
        r->head = (unsigned)strtoull(w[1].c_str(), 0, 10);
        r->tail = (unsigned)strtoull(w[2].c_str(), 0, 10);
        cring_resync(c);
    }
    else if (op == "fix")
    {
        int i = (int)strtol(w[1].c_str(), 0, 10);
        int v = ring_fixup_index(r, i);
        ret = S(v);
        if (v != emod(i, (int64_t)size))
            o.fail("ring_fixup_index(" + S(i) + ") = " + S(v) + " for size " + S(size));
        if (i < 0) o.tag("fix-neg");
    }
    else if (op == "each")
    {
        std::vector<int64_t> got;
        ring_for_each(n, r) got.push_back(n);
        ret = "";
        for (size_t i = 0; i < got.size(); i++) ret += (i ? "," : "") + S(got[i]);
        if (got.empty()) ret = "-";
        if (got.size() != c.q.size()) o.fail("ring_for_each visits " + S(got.size()) + " slots");
        for (size_t i = 0; i < got.size() && i < c.q.size(); i++)
            if (got[i] != (int64_t)((r->tail + i) % size)) o.fail("ring_for_each order");
    }
    else if (op == "eachv")
    { // the macro with a body that reads the slot: exactly the stored bytes, oldest first, once
        bytes got;
        size_t guard = 0;
        ring_for_each(n, r)
        {
            if (n >= c.blen() || ++guard > size) { o.fail("ring_for_each leaves the ring"); break; }
            got.push_back(c.p()[n]);
        }
        ret = hex(got);
        if (got.size() != c.q.size()) o.fail("ring_for_each visits " + S(got.size()) + " elements, " + S(c.q.size()) + " stored");
        else if (!std::equal(got.begin(), got.end(), c.q.begin())) o.fail("ring_for_each does not visit the stored bytes oldest first");
        if (got.size() > 1) o.tag("foreach");
    }
    else if (op == "dump")
        ret = hex(c.p(), c.blen());
    else
    {
        o.result = "bad-op";
        return;
    }
    cring_check(c, o, content);
    o.result = ret + " " + cring_state(r);
}


// ============================================================ lifetime probes
// (second translation unit harness/C03_life.cpp)
void run_lifeprobe(const std::vector<std::string> &w, out &o);
void run_lifecount(const std::vector<std::string> &w, out &o);
void run_arr(const std::vector<std::string> &w, out &o);

// ===================================================== round 3: stateless ops
// ---- `widths`: sizeof / signedness of every index, size and counter type the model embeds
using acc::ty;
static std::string widths_line()
{
    ring_head *rp = nullptr;
    igris::ring<char> *tp = nullptr;
    std::string s;
    s += "head " + ty<decltype(ring_head::head)>() + " tail " + ty<decltype(ring_head::tail)>() + " size " + ty<decltype(ring_head::size)>();
    s += " rc.counter " + ty<decltype(ring_counter::counter)>() + " rc.size " + ty<decltype(ring_counter::size)>();
    s += " cyc._size " + acc::cyc_size_width<igris::cyclic_buffer<int>>() + " arr.m_size " + acc::arr_size_width<igris::unbounded_array<int>>();
    s += " ring_read " + ty<decltype(ring_read(rp, (const char *)0, (char *)0, 0u))>();
    s += " ring_write " + ty<decltype(ring_write(rp, (char *)0, (const char *)0, 0u))>();
    s += " ring_avail " + ty<decltype(ring_avail(rp))>() + " ring_room " + ty<decltype(ring_room(rp))>();
    s += " ring_fixup_index " + ty<decltype(ring_fixup_index(rp, 0))>();
    s += " putc " + ty<decltype(ring_putc(rp, (char *)0, 'a'))>() + " getc " + ty<decltype(ring_getc(rp, (const char *)0))>();
    s += " t.read " + ty<decltype(tp->read((char *)0, 0))>() + " t.write " + ty<decltype(tp->write((const char *)0, 0))>();
    s += " t.avail " + ty<decltype(tp->avail())>() + " t.room " + ty<decltype(tp->room())>() + " t.size " + ty<decltype(tp->size())>();
    s += " t.index_of " + ty<decltype(tp->index_of((char *)0))>() + " t.tail_index " + ty<decltype(tp->tail_index())>();
    s += " t.distance " + ty<decltype(tp->distance(0, 0))>() + " t.fixup_index " + ty<decltype(tp->fixup_index(0))>();
    s += " int_max " + S(INT_MAX) + " uint_max " + S(UINT_MAX);
    return s;
}

// ---- `premain`: the same calls made BEFORE main() (constructor with init_priority(101), i.e. before
// every other static object of this program and of libstdc++'s users) and now; local objects only
static std::string ints_csv(const std::vector<int> &v)
{
    std::string s;
    for (size_t i = 0; i < v.size(); i++) s += (i ? "," : "") + S(v[i]);
    return v.empty() ? "-" : s;
}
static std::string premain_compute()
{
    ring_head r;
    char buf[5];
    for (int i = 0; i < 5; i++) buf[i] = (char)(i * 7 + 3);
    ring_init(&r, 5);
    int rc1 = ring_putc(&r, buf, (char)0xff), rc2 = ring_putc(&r, buf, (char)0x80);
    int g1 = ring_getc(&r, buf);
    const char src[5] = {1, 2, 3, 4, 5};
    int wr = ring_write(&r, buf, src, 5);
    char dst[9];
    int rd = ring_read(&r, buf, dst, 9);
    std::string st = cring_state(&r);
    int fx = ring_fixup_index(&r, -1);
    igris::ring<int> t(3);
    t.push(1); t.push(2); t.push(3);
    int la = t.last();
    t.pop();
    int tl = t.tail();
    std::vector<int> gl = t.get_last(0, 2, true);
    unsigned av = t.avail();
    igris::cyclic_buffer<int> c(3);
    c.push(10); c.push(11); c.push(12);
    int old = c.push(13);
    int a0 = c[0], a2 = c[2];
    ring_counter k;
    ring_counter_init(&k, 7);
    ring_counter_increment(&k, 9);
    int pv = ring_counter_prev(&k, 5);
    return S(rc1) + " " + S(rc2) + " " + S(g1) + " " + S(wr) + " " + hex((const uint8_t *)dst, rd < 0 ? 0 : (size_t)rd) + " " + st + " " + S(fx) + " " +
           S(la) + " " + S(tl) + " " + ints_csv(gl) + " " + S(av) + " " + S(old) + " " + S(a0) + " " + S(a2) + " " + S(acc::cyc_counter(c, 4 % 3)) + " " +
           S(k.counter) + " " + S(pv);
}
static char PREMAIN[512]; // zero-initialised storage: usable before any constructor has run
struct PreMain
{
    PreMain()
    {
        std::string s = premain_compute();
        strncpy(PREMAIN, s.c_str(), sizeof PREMAIN - 1);
    }
};
static PreMain premain_object __attribute__((init_priority(101)));

// ---- `hist <size> <script>` / `histt <n> <script>`: a whole history on ONE object in one line
static const uint8_t HB[7] = {0xff, 0x80, 0x00, 0x7f, 0x01, 0xfe, 0x81};
static std::string hist_bytes(size_t j, size_t n)
{
    bytes d(n);
    for (size_t i = 0; i < n; i++) d[i] = HB[(j + i) % 7];
    return hex(d);
}
static std::vector<std::string> split(const std::string &s, char c)
{
    std::vector<std::string> v;
    std::string cur;
    for (char ch : s) { if (ch == c) { v.push_back(cur); cur.clear(); } else cur += ch; }
    v.push_back(cur);
    return v;
}
static void merge(out &o, const out &sub, size_t k, const std::string &tok)
{
    if (sub.oracle != "ok") o.fail("step " + S(k) + " (" + tok + "): " + sub.oracle.substr(5));
    for (const auto &t : split(sub.tags, ','))
        if (!t.empty() && ("," + o.tags + ",").find("," + t + ",") == std::string::npos) o.tag(t.c_str());
}
static void reset_cring(unsigned size, size_t blen, out &o);
static void run_hist(const std::vector<std::string> &w, out &o)
{
    unsigned size = (unsigned)strtoul(w[1].c_str(), 0, 10);
    out first;
    reset_cring(size, size, first);
    merge(o, first, 0, "reset");
    size_t j = 0, k = 0;
    std::string res;
    for (const auto &tok : split(w[2], ','))
    {
        std::vector<std::string> ww;
        size_t n = tok.size() > 1 ? strtoul(tok.c_str() + 1, 0, 10) : 0;
        if (tok == "p") { ww = {"putc", hist_bytes(j, 1)}; j++; }
        else if (tok == "g") ww = {"getc"};
        else if (tok[0] == 'w') { ww = {"write", hist_bytes(j, n)}; j += n; }
        else if (tok[0] == 'r') ww = {"read", S(n)};
        else { o.result = "bad-op"; return; }
        out sub;
        run_cring(ww, sub);
        merge(o, sub, ++k, tok);
        res += (res.empty() ? "" : ";") + sub.result;
    }
    o.tag("hist");
    o.result = res;
}
static void run_histt(const std::vector<std::string> &w, out &o)
{
    int n0 = (int)strtol(w[1].c_str(), 0, 10);
    { out none; tc_reset(n0, none, false); }
    size_t j = 0, k = 0;
    std::string res;
    for (const auto &tok : split(w[2], ','))
    {
        std::vector<std::vector<std::string>> lines;
        size_t n = tok.size() > 1 ? strtoul(tok.c_str() + 1, 0, 10) : 0;
        if (tok == "u") { lines = {{"push", S((int)(signed char)HB[j % 7])}}; j++; }
        else if (tok == "o") lines = {{"tail"}, {"pop"}};
        else if (tok[0] == 'w') { lines = {{"write", hist_bytes(j, n)}}; j += n; }
        else if (tok[0] == 'r') lines = {{"read", S(n)}};
        else { o.result = "bad-op"; return; }
        ++k;
        for (auto &ww : lines)
        {
            out sub;
            tc_run(ww, sub);
            merge(o, sub, k, tok);
            res += (res.empty() ? "" : ";") + sub.result;
        }
    }
    o.tag("hist");
    o.result = res;
}

// ---- `longrun <size> <n>`: oracle only (the model's list buffer is quadratic in n): n bytes through
// ONE ring_write and ONE ring_read on a ring of `size` slots whose head starts near the end
static void run_longrun(const std::vector<std::string> &w, out &o)
{
    unsigned size = (unsigned)strtoul(w[1].c_str(), 0, 10);
    size_t n = strtoul(w[2].c_str(), 0, 10);
    exact_buf rb(size);
    ring_head r;
    ring_init(&r, size);
    ring_move_head(&r, size - 1000);
    ring_move_tail(&r, size - 1000);
    bytes d(n);
    uint64_t x = 88172645463325252ull;
    for (auto &b : d) { x ^= x << 13; x ^= x >> 7; x ^= x << 17; b = (uint8_t)(x >> 24); }
    for (size_t i = 0; i < n; i += 4099) d[i] = 0xff;
    exact_buf src(d), dst(n + 1);
    size_t acc = std::min<size_t>(n, size - 1);
    int wr = ring_write(&r, (char *)rb.p, (const char *)src.p, (unsigned)n);
    if (wr != (int)acc) o.fail("ring_write of " + S(n) + " bytes returned " + S(wr) + ", room was " + S(size - 1));
    if (ring_avail(&r) != acc || ring_room(&r) != size - 1 - acc) o.fail("avail/room after the long write");
    int rd = ring_read(&r, (const char *)rb.p, (char *)dst.p, (unsigned)(n + 1));
    if (rd != (int)acc) o.fail("ring_read returned " + S(rd) + " of " + S(acc) + " stored bytes");
    else if (memcmp(dst.p, d.data(), acc)) o.fail("the bytes read differ from the bytes written");
    if (dst.p[n] != 0xA5 && acc == n) o.fail("ring_read stored past its return value");
    if (!ring_empty(&r) || r.head >= size || r.tail >= size) o.fail("ring not empty / index outside [0,size) after the long read");
    o.tag("long");
    if (r.head < size - 1000) o.tag("wrapped");
    o.result = "-";
}

// ---- probes of recorded findings: objects outside the property's quantifier on which the code hangs or crashes
static void run_sizezero(const std::vector<std::string> &w, out &o)
{ // ring_init(r, 0) / a default-constructed igris::ring: finding C03-ring-size-zero
    ring_head r;
    ring_init(&r, 0);
    if (w[1] == "mh") { ring_move_head(&r, 1); o.result = S(r.head); }      // while (head >= 0) head -= 0;
    else if (w[1] == "fix") o.result = S(ring_fixup_index(&r, 1));          // 1 % 0
    else if (w[1] == "tlast") { igris::ring<int> t; o.result = S(t.last()); } // fixup_index on size 0
    else if (w[1] == "tpush") { igris::ring<int> t; t.push(1); o.result = S(t.avail()); } // store through nullptr
    else o.result = "bad-op";
    o.fail("size 0: the call returned");
}
static void run_movedpush(const std::vector<std::string> &w, out &o)
{ // finding C03-moved-from-ring-use: the moved-from ring keeps r.size but owns no storage
    igris::ring<int> a((int)strtol(w[1].c_str(), 0, 10));
    a.push(1);
    igris::ring<int> b(std::move(a));
    a.push(2);
    o.result = S(a.avail());
    o.fail("push on a moved-from ring returned");
}

// ------------------------------------------------------------------------ run
static int kind = 0; // 1 ring, 2 typed int, 3 typed char, 4 cyc, 5 rc
static void reset_cring(unsigned size, size_t blen, out &o)
{
    cr.reset(new CRing);
    cr->buf.reset(new exact_buf(blen));
    for (size_t i = 0; i < blen; i++) cr->buf->p[i] = (uint8_t)(i * 7 + 3);
    ring_init(&cr->r, size);
    {
        ring_head m = RING_HEAD_INIT(size); // the static initialiser must describe the same ring
        if (m.head != cr->r.head || m.tail != cr->r.tail || m.size != cr->r.size) o.fail("RING_HEAD_INIT differs from ring_init");
    }
    kind = 1;
    cring_check(*cr, o, blen >= size);
    o.result = "- " + cring_state(&cr->r);
}
static void run_op(const std::vector<std::string> &w, const std::string &, out &o)
{
    if (w.empty()) { o.result = "bad-op"; return; }
    if (w[0] == "lifeprobe" && w.size() >= 2) { run_lifeprobe(w, o); return; }
    if ((w[0] == "lifecount" || w[0] == "lifeviol") && w.size() == 3) { run_lifecount(w, o); return; }
    if (w[0] == "arr" && w.size() == 3) { run_arr(w, o); return; }
    if (w[0] == "reset" && w.size() >= 2)
    { // one-line cases of round 3: `reset <kind> ...` (a case of its own: crash / replay granularity = the line)
        std::vector<std::string> v(w.begin() + 1, w.end());
        const std::string &k = v[0];
        if (k == "widths")
        { // struct sizes (padding, additional members) are not fixed by the property: reported as tags only
            o.result = widths_line(); o.tag("consts");
            o.tag(("sizeof-ring_head=" + S(sizeof(ring_head))).c_str()); o.tag(("sizeof-ring_counter=" + S(sizeof(ring_counter))).c_str());
            return;
        }
        if (k == "premain")
        {
            o.result = PREMAIN;
            if (o.result != premain_compute()) o.fail("the calls made before main() gave `" + o.result + "`, the same calls now give `" + premain_compute() + "`");
            o.tag("premain");
            return;
        }
        if (k == "hist" && v.size() == 3) { run_hist(v, o); return; }
        if (k == "histt" && v.size() == 3) { kind = 3; run_histt(v, o); return; }
        if (k == "longrun" && v.size() == 3) { run_longrun(v, o); return; }
        if (k == "sizezero" && v.size() == 2) { run_sizezero(v, o); return; }
        if (k == "movedpush" && v.size() == 2) { run_movedpush(v, o); return; }
    }
    if (w[0] == "reset")
    {
        if (w.size() == 4 && w[1] == "ring")
        {
            unsigned size = (unsigned)strtoull(w[2].c_str(), 0, 10);
            size_t blen = strtoull(w[3].c_str(), 0, 10);
            reset_cring(size, blen, o);
        }
        else if (w.size() == 3 && w[1] == "typed")
        {
            kind = 2; ti_reset(strtol(w[2].c_str(), 0, 10), o);
        }
        else if (w.size() == 2 && w[1] == "tempty")
        { // default-constructed ring (size 0, no storage): only resize() may follow
            kind = 2; ti_reset(-1, o);
        }
        else if (w.size() == 3 && w[1] == "tchar")
        {
            kind = 3; tc_reset(strtol(w[2].c_str(), 0, 10), o, true);
        }
        else if (w.size() == 3 && w[1] == "cyc")
        {
            kind = 4; reset_cyc(strtoul(w[2].c_str(), 0, 10), o);
        }
        else if (w.size() == 3 && w[1] == "bring")
        {
            kind = 6; reset_bring(strtoull(w[2].c_str(), 0, 10), o);
        }
        else if (w.size() == 3 && w[1] == "rc")
        {
            kind = 5; reset_rc(strtol(w[2].c_str(), 0, 10), o);
        }
        else o.result = "bad-op";
        return;
    }
    switch (kind)
    {
    case 1: run_cring(w, o); break;
    case 2: ti_run(w, o); break;
    case 3: tc_run(w, o); break;
    case 4: run_cyc(w, o); break;
    case 5: run_rc(w, o); break;
    case 6: run_bring(w, o); break;
    default: o.result = "bad-op";
    }
}

// ------------------------------------------------------------------------ gen
// (third translation unit harness/C03_gen.cpp)
void gen(rng &r, const std::string &tier);

int main(int argc, char **argv) { return main_(argc, argv, gen, run_op); }
