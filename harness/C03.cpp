// C03 harness: igris/datastruct/ring.h, igris/container/ring.h,
// igris/datastruct/ring_counter.h, igris/container/cyclic_buffer.h against the
// Lean model (IgrisModel/C03).
//
// Cases (all start with a line beginning with "reset"):
//   reset ring <size> <buflen>   struct ring_head + exactly sized heap buffer
//   reset typed <n>              igris::ring<int>(n)
//   reset tchar <n>              igris::ring<char>(n)   (adds read/write)
//   reset cyc <n>                igris::cyclic_buffer<int>(n)
//   reset rc <size>              struct ring_counter
//   reset bring <size>           bytering_head + exactly sized heap block
//   reset tempty                 default-constructed igris::ring<int> (only resize may follow)
// one-line cases (round 3): reset widths | reset premain | reset hist <size> <script> |
//   reset histt <n> <script> | reset longrun <size> <n> | reset sizezero <what> | reset movedpush <n>
// Translation units: C03.cpp (this file: run), C03_life.cpp (lifeprobe / lifecount), C03_gen.cpp (gen).
// Result line = "<ret> <state…>" (state = every counter the API reports).
// Oracle = a std::deque / std::vector mirror maintained by the harness only
// from the operations' arguments and the documented contract.
#include "common/hv.h"
#include "C03_acc.h"
#include <deque>
#include <memory>
#include <climits>
#include <cstring>
#include <map>
#include <type_traits>
#include <igris/datastruct/ring.h>
#include <igris/datastruct/ring_counter.h>
#include <igris/container/ring.h>
#include <igris/container/cyclic_buffer.h>
#include <igris/datastruct/bytering.h>
#include <igris/container/array_view.h>

using namespace hv;
typedef std::vector<uint8_t> bytes;

static_assert(sizeof(int) == 4 && sizeof(unsigned) == 4 && sizeof(size_t) == 8, "LP64");
static_assert(CHAR_MIN < 0, "char is signed on this platform");

static int64_t emod(int64_t a, int64_t m) { return ((a % m) + m) % m; }
static std::string S(int64_t v) { return std::to_string(v); }

// ===================================================================== C ring
struct CRing
{
    ring_head r;
    std::unique_ptr<exact_buf> buf;
    std::deque<uint8_t> q; // reference queue
    uint8_t *p() { return buf->p; }
    char *cp() { return (char *)buf->p; }
    size_t blen() { return buf->n; }
};
static std::unique_ptr<CRing> cr;

static std::string cring_state(ring_head *r)
{
    return S(r->head) + " " + S(r->tail) + " " + S(ring_avail(r)) + " " + S(ring_room(r)) + " " +
           S(ring_empty(r) ? 1 : 0) + " " + S(ring_full(r) ? 1 : 0);
}

// contents of the ring read off the buffer by walking tail -> head (no igris code)
static void cring_resync(CRing &c)
{
    c.q.clear();
    if (c.r.size == 0 || c.r.head >= c.r.size || c.r.tail >= c.r.size)
        return;
    for (uint64_t i = c.r.tail; i != c.r.head; i = (i + 1) % c.r.size)
    {
        if (i >= c.blen())
            return;
        c.q.push_back(c.p()[i]);
    }
}

// the clauses of the property that hold in every state
static void cring_check(CRing &c, out &o, bool content = true)
{
    ring_head *r = &c.r;
    uint64_t size = r->size;
    if (!(r->head < size))
        o.fail("head " + S(r->head) + " outside [0,size)");
    if (!(r->tail < size))
        o.fail("tail " + S(r->tail) + " outside [0,size)");
    uint64_t av = ring_avail(r), rm = ring_room(r);
    if (av + rm != size - 1)
        o.fail("avail+room " + S(av) + "+" + S(rm) + " != size-1");
    if (!content)
        return;
    if (av != c.q.size())
        o.fail("avail " + S(av) + " != reference " + S(c.q.size()));
    if (rm != size - 1 - c.q.size())
        o.fail("room " + S(rm) + " != reference " + S(size - 1 - c.q.size()));
    if ((ring_empty(r) != 0) != c.q.empty())
        o.fail("ring_empty disagrees with reference");
    if ((ring_full(r) != 0) != (c.q.size() == size - 1))
        o.fail("ring_full disagrees with reference");
    // stored bytes = reference queue, in order
    uint64_t i = r->tail;
    for (size_t k = 0; k < c.q.size(); k++, i = (i + 1) % size)
        if (i >= c.blen() || c.p()[i] != c.q[k])
        {
            o.fail("stored byte " + S(k) + " differs from reference");
            break;
        }
    if (r->head < r->tail) o.tag("wrapped");
    if (c.q.empty()) o.tag("empty");
    if (c.q.size() == size - 1) o.tag("full");
    if (size & (size - 1)) o.tag("nonpow2");
}

static void run_cring(const std::vector<std::string> &w, out &o)
{
    CRing &c = *cr;
    ring_head *r = &c.r;
    const std::string &op = w[0];
    uint64_t size = r->size;
    std::string ret = "-";
    bool content = c.blen() >= size; // "huge" cases carry no data
    if (op == "putc")
    {
        uint8_t b = unhex(w[1])[0];
        ring_head before = *r;
        bytes snap = c.buf->vec();
        bool full = c.q.size() == size - 1;
        int rc = ring_putc(r, c.cp(), (char)b);
        ret = S(rc);
        if (full)
        {
            o.tag("reject-full");
            if (rc != 0) o.fail("putc on a full ring returned " + S(rc));
            if (before.head != r->head || before.tail != r->tail || snap != c.buf->vec())
                o.fail("putc on a full ring changed the state");
        }
        else
        {
            if (rc != 1) o.fail("putc on a non-full ring returned " + S(rc));
            c.q.push_back(b);
        }
        if (b == 0xff) o.tag("ff");
        else if (b >= 0x80) o.tag("hi-byte");
    }
    else if (op == "getc")
    {
        ring_head before = *r;
        bytes snap = c.buf->vec();
        int rc = ring_getc(r, c.cp());
        ret = S(rc);
        if (c.q.empty())
        {
            o.tag("reject-empty");
            if (rc != -1) o.fail("getc on an empty ring returned " + S(rc));
            if (before.head != r->head || before.tail != r->tail || snap != c.buf->vec())
                o.fail("getc on an empty ring changed the state");
        }
        else
        {
            uint8_t exp = c.q.front();
            c.q.pop_front();
            if (rc != (int)exp)
                o.fail("getc returned " + S(rc) + " for stored byte " + S(exp));
            if (exp == 0xff) o.tag("ff");
            else if (exp >= 0x80) o.tag("hi-byte");
        }
    }
    else if (op == "write")
    {
        bytes d = unhex(w[1]);
        exact_buf src(d);
        size_t room = size - 1 - c.q.size();
        size_t acc = std::min(d.size(), room);
        ring_head before = *r;
        bytes snap = c.buf->vec();
        int rc = ring_write(r, c.cp(), (const char *)src.p, (unsigned)d.size());
        ret = S(rc);
        if (content && acc == 0 && (before.head != r->head || before.tail != r->tail || snap != c.buf->vec()))
            o.fail("write that stores nothing (full ring / length 0) changed the state");
        if (rc != (int)acc)
            o.fail("write of " + S(d.size()) + " with room " + S(room) + " returned " + S(rc));
        for (size_t i = 0; i < acc; i++) c.q.push_back(d[i]);
        if (d.size() > room) o.tag("write-partial");
        if (acc > 1) o.tag("bulk");
    }
    else if (op == "read")
    {
        size_t n = strtoul(w[1].c_str(), 0, 10);
        exact_buf dst(n);
        size_t k = std::min(n, c.q.size());
        ring_head before = *r;
        bytes snap = c.buf->vec();
        int rc = ring_read(r, c.cp(), (char *)dst.p, (unsigned)n);
        size_t got = rc < 0 ? 0 : std::min((size_t)rc, n);
        if (snap != c.buf->vec()) o.fail("read wrote to the ring buffer");
        if (content && k == 0 && (before.head != r->head || before.tail != r->tail))
            o.fail("read that delivers nothing (empty ring / length 0) changed the state");
        ret = S(rc) + " " + hex(dst.p, got);
        if (rc != (int)k)
            o.fail("read of " + S(n) + " with " + S(c.q.size()) + " stored returned " + S(rc));
        for (size_t i = 0; i < k; i++)
        {
            if (i < got && dst.p[i] != c.q.front())
                o.fail("read: byte " + S(i) + " is " + S(dst.p[i]) + ", written was " + S(c.q.front()));
            if (c.q.front() == 0xff) o.tag("ff");
            c.q.pop_front();
        }
        for (size_t i = got; i < n; i++)
            if (dst.p[i] != 0xA5) o.fail("read stored past its return value");
        if (n > k) o.tag("read-partial");
        if (k > 1) o.tag("bulk");
    }
    else if (op == "mh1" || op == "mh" || op == "prod" || op == "prod1")
    {
        bytes d;
        uint64_t n = 1;
        if (op == "mh") n = strtoull(w[1].c_str(), 0, 10);
        if (op == "prod" || op == "prod1")
        {
            d = unhex(w[1]);
            n = d.size();
            // the producer fills the free slots itself (DMA style) ...
            for (size_t i = 0; i < d.size(); i++)
                c.p()[(r->head + i) % size] = d[i];
        }
        uint64_t room = size - 1 - c.q.size();
        bool valid = content && n <= room;
        if (valid)
            for (uint64_t i = 0; i < n; i++) c.q.push_back(c.p()[(r->head + i) % size]);
        // ... and publishes them with a head move
        uint64_t h0 = r->head, t0 = r->tail;
        if (op == "mh1" || op == "prod1") ring_move_head_one(r);
        else ring_move_head(r, (unsigned)n);
        if (!content)
        { // ring without data (sizes above 2^31): the index arithmetic itself, in 64 bit
            uint64_t avail0 = (h0 + size - t0) % size;
            if (n <= size - 1 - avail0)
            {
                if (r->head != (h0 + n) % size)
                    o.fail("move_head(" + S(n) + ") from head " + S(h0) + " size " + S(size) + " gives " + S(r->head) + ", not (head+n) mod size");
                if (h0 + n > 0xFFFFFFFFull) o.tag("head+bias>=2^32");
                o.tag("huge-move");
            }
        }
        if (!valid) { cring_resync(c); if (content) o.tag("overmove"); }
        else if (n > 1) o.tag("bulk-move");
    }
    else if (op == "mt1" || op == "mt" || op == "cons" || op == "cons1")
    {
        uint64_t n = (op == "mt" || op == "cons") ? strtoull(w[1].c_str(), 0, 10) : 1;
        bool valid = content && n <= c.q.size();
        if (op == "cons" || op == "cons1")
        {
            // the consumer reads the stored slots itself (DMA style) ...
            bytes got;
            for (uint64_t i = 0; i < n; i++) got.push_back(c.p()[(r->tail + i) % size]);
            ret = S(n) + " " + hex(got);
            for (uint64_t i = 0; valid && i < n; i++)
                if (got[i] != c.q[i]) o.fail("consumed byte " + S(i) + " differs from the written one");
        }
        // ... and releases them with a tail move
        if (valid)
            for (uint64_t i = 0; i < n; i++) c.q.pop_front();
        uint64_t h0 = r->head, t0 = r->tail;
        if (!content)
        {
            uint64_t avail0 = (h0 + size - t0) % size;
            uint64_t exp = (t0 + n) % size;
            bool ok = n <= avail0;
            if (op == "mt1") ring_move_tail_one(r); else ring_move_tail(r, (unsigned)n);
            if (ok)
            {
                if (r->tail != exp)
                    o.fail("move_tail(" + S(n) + ") from tail " + S(t0) + " size " + S(size) + " gives " + S(r->tail) + ", not (tail+n) mod size");
                if (t0 + n > 0xFFFFFFFFull) o.tag("tail+bias>=2^32");
                o.tag("huge-move");
            }
        }
        else
        if (op == "mt1" || op == "cons1") ring_move_tail_one(r);
        else ring_move_tail(r, (unsigned)n);
        if (!valid) { cring_resync(c); o.tag("overmove"); }
        else if (n > 1) o.tag("bulk-move");
    }
    else if (op == "clean")
    {
        ring_clean(r);
        c.q.clear();
    }
    else if (op == "set")
    {
        r->head = (unsigned)strtoull(w[1].c_str(), 0, 10);
        r->tail = (unsigned)strtoull(w[2].c_str(), 0, 10);
        cring_resync(c);
    }
    else if (op == "fix")
    {
        int i = (int)strtol(w[1].c_str(), 0, 10);
        int v = ring_fixup_index(r, i);
        ret = S(v);
        if (v != emod(i, (int64_t)size))
            o.fail("ring_fixup_index(" + S(i) + ") = " + S(v) + " for size " + S(size));
        if (i < 0) o.tag("fix-neg");
    }
    else if (op == "each")
    {
        std::vector<int64_t> got;
        ring_for_each(n, r) got.push_back(n);
        ret = "";
        for (size_t i = 0; i < got.size(); i++) ret += (i ? "," : "") + S(got[i]);
        if (got.empty()) ret = "-";
        if (got.size() != c.q.size()) o.fail("ring_for_each visits " + S(got.size()) + " slots");
        for (size_t i = 0; i < got.size() && i < c.q.size(); i++)
            if (got[i] != (int64_t)((r->tail + i) % size)) o.fail("ring_for_each order");
    }
    else if (op == "eachv")
    { // the macro with a body that reads the slot: exactly the stored bytes, oldest first, once
        bytes got;
        size_t guard = 0;
        ring_for_each(n, r)
        {
            if (n >= c.blen() || ++guard > size) { o.fail("ring_for_each leaves the ring"); break; }
            got.push_back(c.p()[n]);
        }
        ret = hex(got);
        if (got.size() != c.q.size()) o.fail("ring_for_each visits " + S(got.size()) + " elements, " + S(c.q.size()) + " stored");
        else if (!std::equal(got.begin(), got.end(), c.q.begin())) o.fail("ring_for_each does not visit the stored bytes oldest first");
        if (got.size() > 1) o.tag("foreach");
    }
    else if (op == "dump")
        ret = hex(c.p(), c.blen());
    else
    {
        o.result = "bad-op";
        return;
    }
    cring_check(c, o, content);
    o.result = ret + " " + cring_state(r);
}

// ================================================================== typed ring
template <class T> struct TR
{
    std::unique_ptr<igris::ring<T>> t;
    std::deque<T> q;
    static constexpr bool is_char = sizeof(T) == 1;

    std::string state()
    {
        auto &x = *t;
        return S(x.head_index()) + " " + S(x.tail_index()) + " " + S(x.avail()) + " " + S(x.room()) + " " +
               S(x.size()) + " " + S(x.empty() ? 1 : 0) + " " + S(std::min<uint64_t>(acc::bufsize(x), acc::rsize(x)));
    }
    void resync()
    {
        auto &x = *t;
        q.clear();
        uint64_t size = acc::rsize(x);
        if (!size || acc::rhead(x) >= size || acc::rtail(x) >= size || acc::bufsize(x) < size) return;
        for (uint64_t i = acc::rtail(x); i != acc::rhead(x); i = (i + 1) % size) q.push_back(acc::slot(x, i));
    }
    void check(out &o)
    {
        auto &x = *t;
        uint64_t size = acc::rsize(x);
        if (acc::bufsize(x) < size)
            o.fail("ring size " + S(size) + " exceeds its buffer of " + S(acc::bufsize(x)) + " elements");
        if (!(acc::rhead(x) < size)) o.fail("head outside [0,size)");
        if (!(acc::rtail(x) < size)) o.fail("tail outside [0,size)");
        if ((uint64_t)x.avail() + x.room() != size - 1) o.fail("avail+room != size-1");
        if (x.avail() != q.size()) o.fail("avail " + S(x.avail()) + " != reference " + S(q.size()));
        if (x.empty() != q.empty()) o.fail("empty() disagrees with reference");
        if (acc::rhead(x) < acc::rtail(x)) o.tag("wrapped");
        if (size & (size - 1)) o.tag("nonpow2");
        if (acc::rhead(x) == 0) o.tag("head0");
        // stored elements = reference queue, in order
        if (acc::bufsize(x) >= size && acc::rtail(x) < size && x.avail() == q.size())
        {
            uint64_t i = acc::rtail(x);
            for (size_t k = 0; k < q.size(); k++, i = (i + 1) % size)
                if (acc::slot(x, i) != q[k]) { o.fail("stored element " + S(k) + " differs from reference"); break; }
        }
    }
    void run(const std::vector<std::string> &w, out &o)
    {
        auto &x = *t;
        const std::string &op = w[0];
        int64_t size = acc::rsize(x);
        std::string ret = "-";
        if (op == "push" || op == "emplace")
        {
            T v = (T)strtol(w[1].c_str(), 0, 10);
            bool full = (int64_t)q.size() == size - 1;
            if (op == "push") x.push(v); else x.emplace(v);
            if (full) { resync(); o.tag("overmove"); } else q.push_back(v);
        }
        else if (op == "pop")
        {
            bool empty = q.empty();
            x.pop();
            if (empty) { resync(); o.tag("overmove"); } else q.pop_front();
        }
        else if (op == "pushfull" || op == "popempty")
        { // the property's clause "a full ring rejects writes / an empty ring rejects reads without
          // changing state", judged on push()/pop() of the typed ring (recorded finding: they do not test)
            unsigned h0 = acc::rhead(x), t0 = acc::rtail(x), a0 = x.avail();
            if (op == "pushfull") x.push((T)strtol(w[1].c_str(), 0, 10)); else x.pop();
            bool applies = op == "pushfull" ? (int64_t)q.size() == size - 1 : q.empty();
            if (applies && (acc::rhead(x) != h0 || acc::rtail(x) != t0 || x.avail() != a0))
                o.fail(op == "pushfull" ? "push on a full ring was not rejected: " + S(a0) + " stored elements became " + S(x.avail())
                                        : "pop on an empty ring was not rejected: avail became " + S(x.avail()));
            else if (!applies) { if (op == "pushfull") q.push_back((T)strtol(w[1].c_str(), 0, 10)); else q.pop_front(); }
            if (applies) { resync(); o.tag("overmove"); }
        }
        else if (op == "pushalias")
        { // the argument aliases the slot that push() constructs into
            bool full = (int64_t)q.size() == size - 1;
            T v = x.head_place();
            x.push(x.head_place());
            if (full) { resync(); o.tag("overmove"); } else q.push_back(v);
            o.tag("alias");
        }
        else if (op == "clear") { x.clear(); q.clear(); if (!x.empty()) o.fail("not empty after clear"); }
        else if (op == "mh1") { x.move_head_one(); resync(); }
        else if (op == "mt1") { x.move_tail_one(); resync(); }
        else if (op == "rst")
        {
            x.reset(); q.clear();
            if (x.size() != acc::bufsize(x)) o.fail("reset: ring size != buffer size");
        }
        else if (op == "resize")
        {
            size_t n = strtoul(w[1].c_str(), 0, 10);
            x.resize(n); q.clear();
            if (x.room() != n) o.fail("resize(" + S(n) + "): room " + S(x.room()));
        }
        else if (op == "tail")
        {
            T &e = x.tail();
            ret = S((int)e) + "@" + S(x.index_of(&e));
            if (x.index_of(&e) != (int)acc::rtail(x)) o.fail("tail() addresses slot " + S(x.index_of(&e)));
            if (!q.empty() && e != q.front()) o.fail("tail() is not the oldest element");
        }
        else if (op == "last")
        {
            T &e = x.last();
            int idx = x.index_of(&e);
            ret = S((int)e) + "@" + S(idx);
            if (idx != emod((int64_t)acc::rhead(x) - 1, size))
                o.fail("last() addresses slot " + S(idx) + " at head " + S(acc::rhead(x)) + " size " + S(size));
            else if (!q.empty() && e != q.back()) o.fail("last() is not the newest element");
        }
        else if (op == "headplace") ret = S((int)x.head_place());
        else if (op == "get") ret = S((int)x.get((int)strtol(w[1].c_str(), 0, 10)));
        else if (op == "getlast")
        {
            int off = (int)strtol(w[1].c_str(), 0, 10), cnt = (int)strtol(w[2].c_str(), 0, 10);
            bool fe = w[3] == "1";
            std::vector<T> v = x.get_last(off, cnt, fe);
            ret = "";
            for (int i = 0; i < cnt; i++) ret += (i ? "," : "") + S((int)v[i]);
            if (cnt == 0) ret = "-";
            for (int i = 0; i < cnt; i++)
            {
                int64_t back = fe ? (int64_t)off + i : (int64_t)off + cnt - 1 - i; // 0 = newest
                int64_t slot = emod((int64_t)acc::rhead(x) - 1 - back, size);
                if (v[i] != acc::slot(x, slot))
                    o.fail("get_last element " + S(i) + " is not slot " + S(slot));
                else if (back >= 0 && back < (int64_t)q.size() && v[i] != q[q.size() - 1 - back])
                    o.fail("get_last element " + S(i) + " is not the " + S(back) + "-th previous element");
            }
            if (off + cnt > (int64_t)acc::rhead(x)) o.tag("getlast-wrap");
        }
        else if (op == "fixup")
        {
            int i = (int)strtol(w[1].c_str(), 0, 10);
            int v = x.fixup_index(i);
            ret = S(v);
            if (v != emod(i, size)) o.fail("fixup_index(" + S(i) + ") = " + S(v) + " for size " + S(size));
            if (i < 0) o.tag("fix-neg");
        }
        else if (op == "distance")
        {
            int a = (int)strtol(w[1].c_str(), 0, 10), b = (int)strtol(w[2].c_str(), 0, 10);
            int v = x.distance(a, b);
            ret = S(v);
            if (v != emod((int64_t)a - b, size)) o.fail("distance(" + S(a) + "," + S(b) + ") = " + S(v));
            if (a < b) o.tag("distance-wrap");
        }
        else if (op == "setlast")
        {
            int i = (int)strtol(w[1].c_str(), 0, 10);
            x.set_last_index(i);
            if ((int64_t)acc::rhead(x) != emod((int64_t)i + 1, size)) o.fail("set_last_index: head " + S(acc::rhead(x)));
            resync();
        }
        else if (op == "settail")
        { // `r` is a public member ("direct control"): place the tail, e.g. next to an index-width boundary
            acc::set_tail(x, (unsigned)strtoul(w[1].c_str(), 0, 10));
            resync();
        }
        else if (op == "fillbuf")
        { // the buffer is public too: slot i := i + 1, so that a store to a wrong slot is visible
            for (size_t i = 0; i < acc::bufsize(x); i++) acc::slot(x, i) = (T)(i + 1);
            resync();
        }
        else if (op == "copy")
        { // implicit copy constructor; the original is destroyed, the copy carries on
            std::unique_ptr<igris::ring<T>> c(new igris::ring<T>(x));
            if (acc::storage(*c) == acc::storage(x)) o.fail("copy shares the storage");
            t = std::move(c);
            o.tag("copy");
        }
        else if (op == "assign")
        { // implicit copy assignment into a ring of another size
            std::unique_ptr<igris::ring<T>> c(new igris::ring<T>(3));
            c->push((T)9);
            *c = x;
            if (acc::storage(*c) == acc::storage(x)) o.fail("assignment shares the storage");
            t = std::move(c);
            o.tag("copy");
        }
        else if (op == "move")
        { // implicit move constructor; what is left in the moved-from object is printed
            std::unique_ptr<igris::ring<T>> c(new igris::ring<T>(std::move(x)));
            ret = S(acc::bufsize(x, 0)) + " " + S(acc::rsize(x)); // (without the member: a moved-from ring is predicted to own nothing)
            t = std::move(c);
            o.tag("move");
        }
        else if (op == "moveback")
        { // the moved-from ring is brought back to life by resize(); the moved-to object is dropped
            size_t n = strtoul(w[1].c_str(), 0, 10);
            { igris::ring<T> c(std::move(x)); }
            x.resize(n); q.clear();
            if (x.room() != n || acc::bufsize(x) != n + 1) o.fail("resize of a moved-from ring: room " + S(x.room()));
            o.tag("move");
        }
        else if (op == "writebig" || op == "readbig")
        { // round 3b: a request of 2^32 + k elements (the parameter is a size_t).  No ring can take / deliver more
          // than size - 1 elements, so a source / destination of size + 1 elements is all such a call may touch.
            if constexpr (is_char)
            {
                size_t k = strtoul(w[1].c_str(), 0, 10), req = ((size_t)1 << 32) + k;
                if (op == "writebig")
                {
                    bytes d = unhex(w[2]);
                    if (d.size() < (size_t)size + 1) { o.result = "bad-op"; return; }
                    exact_buf src(d);
                    size_t acc = (size_t)(size - 1) - q.size();
                    size_t rc = x.write((const char *)src.p, req);
                    ret = S(rc);
                    if (rc != acc) o.fail("write of 2^32+" + S(k) + " elements returned " + S(rc) + ", room was " + S(acc));
                    for (size_t i = 0; i < acc; i++) q.push_back((char)d[i]);
                }
                else
                {
                    exact_buf dst((size_t)size + 1);
                    size_t n = q.size();
                    size_t rc = x.read((char *)dst.p, req);
                    ret = S(rc) + " " + hex(dst.p, std::min(rc, (size_t)size + 1));
                    if (rc != n) o.fail("read of 2^32+" + S(k) + " elements returned " + S(rc) + " with " + S(n) + " stored");
                    for (size_t i = 0; i < n; i++)
                    {
                        if (i < rc && (char)dst.p[i] != q.front()) o.fail("read: byte " + S(i) + " altered");
                        q.pop_front();
                    }
                }
                o.tag("size_t-request");
            }
            else { o.result = "bad-op"; return; }
        }
        else if (op == "write" || op == "read")
        {
            if constexpr (is_char)
            {
                if (op == "write")
                {
                    bytes d = unhex(w[1]);
                    exact_buf src(d);
                    size_t acc = std::min(d.size(), (size_t)(size - 1) - q.size());
                    size_t rc = x.write((const char *)src.p, d.size());
                    ret = S(rc);
                    if (rc != acc) o.fail("write returned " + S(rc) + ", room was " + S(acc));
                    for (size_t i = 0; i < acc; i++) q.push_back((char)d[i]);
                }
                else
                {
                    size_t n = strtoul(w[1].c_str(), 0, 10);
                    exact_buf dst(n);
                    size_t k = std::min(n, q.size());
                    size_t rc = x.read((char *)dst.p, n);
                    ret = S(rc) + " " + hex(dst.p, std::min(rc, n));
                    if (rc != k) o.fail("read returned " + S(rc) + " with " + S(q.size()) + " stored");
                    for (size_t i = 0; i < k; i++)
                    {
                        if (i < rc && (char)dst.p[i] != q.front()) o.fail("read: byte " + S(i) + " altered");
                        if ((uint8_t)q.front() == 0xff) o.tag("ff");
                        q.pop_front();
                    }
                }
            }
            else { o.result = "bad-op"; return; }
        }
        else { o.result = "bad-op"; return; }
        check(o);
        o.result = ret + " " + state();
    }
};
static TR<int> ti;
static TR<char> tc;

// =============================================================== cyclic buffer
struct Cyc
{
    std::unique_ptr<igris::cyclic_buffer<int>> c;
    std::vector<int> log; // every sample pushed since construction / resize
    size_t cap = 0;
};
static Cyc cy;

static void run_cyc(const std::vector<std::string> &w, out &o)
{
    auto &x = *cy.c;
    const std::string &op = w[0];
    std::string ret = "-";
    size_t n = cy.log.size();
    if (op == "push")
    {
        int v = (int)strtol(w[1].c_str(), 0, 10);
        int old = x.push(v);
        ret = S(old);
        int exp = n >= cy.cap ? cy.log[n - cy.cap] : 0;
        if (old != exp) o.fail("push returned " + S(old) + ", the overwritten sample is " + S(exp));
        cy.log.push_back(v);
        if (n >= cy.cap) o.tag("overwrite");
    }
    else if (op == "at")
    {
        int i = (int)strtol(w[1].c_str(), 0, 10);
        int v = x[i];
        ret = S(v);
        {
            const igris::cyclic_buffer<int> &cx = x; // the const overload has its own body
            if (cx[i] != v) o.fail("const operator[] disagrees with operator[]");
        }
        size_t k = (size_t)emod(i, (int64_t)cy.cap); // slots repeat with period cap (negative i: counter - i < size)
        int exp = k < n ? cy.log[n - 1 - k] : 0;
        if (i < 0) o.tag("nth-neg");
        if (v != exp) o.fail("cb[" + S(i) + "] = " + S(v) + ", the " + S(k) + "-th previous sample is " + S(exp));
        if (i >= 0 && (size_t)i < std::min(n, cy.cap)) o.tag("nth");
        if (i >= 0 && n > cy.cap && n % cy.cap < (size_t)i % cy.cap + 1) o.tag("nth-wrap");
    }
    else if (op == "resize")
    {
        cy.cap = strtoul(w[1].c_str(), 0, 10);
        x.resize(cy.cap);
        cy.log.clear();
    }
    else { o.result = "bad-op"; return; }
    // `counter` / `data` are data members the property does not name: read when they exist, else the reference's value
    long cnt = acc::cyc_counter(x, cy.cap ? (long)(cy.log.size() % cy.cap) : 0), csz = acc::cyc_counter_size(x, (long)cy.cap);
    if (cnt < 0 || cnt >= csz) o.fail("counter outside [0,size)");
    if ((size_t)csz != acc::cyc_data_size(x, cy.cap)) o.fail("counter size != data size");
    if (x.size() != std::min(cy.log.size(), cy.cap))
        o.fail("size() " + S(x.size()) + " != " + S(std::min(cy.log.size(), cy.cap)));
    if (cy.cap & (cy.cap - 1)) o.tag("nonpow2");
    o.result = ret + " " + S(cnt) + " " + S(x.size());
}

static ring_counter rcs;
static void run_rc(const std::vector<std::string> &w, out &o)
{
    const std::string &op = w[0];
    std::string ret = "-";
    int64_t a = w.size() > 1 ? strtol(w[1].c_str(), 0, 10) : 0;
    int64_t size = rcs.size, before = rcs.counter;
    if (op == "inc")
    {
        ring_counter_increment(&rcs, (int)a);
        if (before + a >= 0 && rcs.counter != emod(before + a, size)) o.fail("increment: counter " + S(rcs.counter));
        if (before + a < 0) o.tag("inc-neg");
        if (before + a >= 2147483000) o.tag("int-edge");
    }
    else if (op == "set")
    {
        ring_counter_set(&rcs, (int)a);
        if (a >= 0 && rcs.counter != emod(a, size)) o.fail("set: counter " + S(rcs.counter));
    }
    else if (op == "prev")
    {
        int v = ring_counter_prev(&rcs, (int)a);
        ret = S(v);
        // contract of ring_counter_prev: counter - i < size (every i >= 0 for a counter in range, and
        // the negative i > counter - size); beyond it the result is >= size and only compared with the model
        if (before - a < size && v != emod(before - a, size)) o.fail("prev(" + S(a) + ") = " + S(v));
        if (a > before) o.tag("prev-wrap");
        if (a < 0) o.tag(before - a < size ? "prev-neg" : "prev-beyond");
    }
    else if (op == "last")
    {
        int v = ring_counter_last(&rcs, (int)a);
        ret = S(v);
        if (v != emod(before - a, size)) o.fail("last(" + S(a) + ") = " + S(v));
        if (a > before) o.tag("prev-wrap");
    }
    else if (op == "fixpos")
    {
        int v = ring_counter_fixup_pos(&rcs, (int)a);
        ret = S(v);
        if (v != emod(a, size)) o.fail("fixup_pos(" + S(a) + ") = " + S(v));
        if (a < 0) o.tag("fix-neg");
    }
    else if (op == "get") ret = S(ring_counter_get(&rcs));
    else { o.result = "bad-op"; return; }
    if (size & (size - 1)) o.tag("nonpow2");
    o.result = ret + " " + S(rcs.counter);
}

// ============================================================ lifetime probes
// (second translation unit harness/C03_life.cpp)
void run_lifeprobe(const std::vector<std::string> &w, out &o);
void run_lifecount(const std::vector<std::string> &w, out &o);
void run_arr(const std::vector<std::string> &w, out &o);

// ================================================================== bytering
// igris/datastruct/bytering.h: the pointer version of the byte ring
// (`reset bring <size>`).  Result = "<ret> <head-start> <tail-start> <empty> <full>".
struct BRing
{
    bytering_head r;
    std::unique_ptr<exact_buf> buf;
    std::deque<uint8_t> q;
    size_t npush = 0, npop = 0; // accepted pushes / pops (positions predicted by the reference, see acc::bring_view)
    acc::bview view() { return acc::bring_view(r, buf->p, buf->n, npop, npush); }
};
static std::unique_ptr<BRing> br;
static std::string bring_state(BRing &b)
{
    acc::bview v = b.view();
    return S(v.head) + " " + S(v.tail) + " " + S(bytering_empty(&b.r) ? 1 : 0) + " " +
           S(bytering_full(&b.r) ? 1 : 0);
}
static void bring_check(BRing &b, out &o)
{
    bytering_head *r = &b.r;
    size_t size = b.buf->n;
    acc::bview v = b.view();
    if (!v.block_ok) o.fail("start/end moved");
    if (!v.in_range) o.fail("head or tail outside [start,end)");
    if ((bytering_empty(r) != 0) != b.q.empty()) o.fail("bytering_empty disagrees with reference (" + S(b.q.size()) + " stored)");
    if ((bytering_full(r) != 0) != (b.q.size() == size - 1)) o.fail("bytering_full disagrees with reference (" + S(b.q.size()) + " stored of " + S(size - 1) + ")");
    if (b.q.empty()) o.tag("empty");
    if (b.q.size() == size - 1) o.tag("full");
    if (size & (size - 1)) o.tag("nonpow2");
    if (v.tail < v.head) o.tag("wrapped");
}
static void run_bring(const std::vector<std::string> &w, out &o)
{
    BRing &b = *br;
    bytering_head *r = &b.r;
    const std::string &op = w[0];
    size_t size = b.buf->n;
    std::string ret = "-";
    if (op == "push" || op == "pushn")
    {
        uint8_t c = unhex(w[1])[0];
        acc::bview before = b.view();
        bytes snap = b.buf->vec();
        bool full = b.q.size() == size - 1;
        if (op == "pushn")
        { // unchecked variant: the caller has tested bytering_full itself
            if (full) { o.result = "bad-op"; return; }
            bytering_push_nocheck(r, c);
            b.q.push_back(c); b.npush++;
        }
        else
        {
            int rc = bytering_push(r, c);
            ret = S(rc);
            if (full)
            {
                o.tag("reject-full");
                if (rc != -1) o.fail("push on a full ring returned " + S(rc));
                if (before.head != b.view().head || before.tail != b.view().tail || snap != b.buf->vec())
                    o.fail("push on a full ring changed the state");
            }
            else
            {
                if (rc != 0) o.fail("push with " + S(b.q.size()) + " of " + S(size - 1) + " stored returned " + S(rc));
                b.q.push_back(c); b.npush++;
            }
        }
        if (c == 0xff) o.tag("ff"); else if (c >= 0x80) o.tag("hi-byte");
    }
    else if (op == "pop" || op == "popn")
    {
        acc::bview before = b.view();
        bytes snap = b.buf->vec();
        bool empty = b.q.empty();
        if (op == "popn" && empty) { o.result = "bad-op"; return; }
        int rc = op == "pop" ? bytering_pop(r) : bytering_pop_nocheck(r);
        ret = S(rc);
        if (snap != b.buf->vec()) o.fail("pop wrote to the buffer");
        if (empty)
        {
            o.tag("reject-empty");
            if (rc != -1) o.fail("pop on an empty ring returned " + S(rc));
            if (before.head != b.view().head || before.tail != b.view().tail) o.fail("pop on an empty ring changed the state");
        }
        else
        {
            uint8_t exp = b.q.front();
            b.q.pop_front(); b.npop++;
            if (rc != (int)exp) o.fail("pop returned " + S(rc) + " for stored byte " + S(exp));
            if (exp == 0xff) o.tag("ff"); else if (exp >= 0x80) o.tag("hi-byte");
        }
    }
    else if (op == "dump") ret = hex(b.buf->p, size);
    else { o.result = "bad-op"; return; }
    bring_check(b, o);
    o.result = ret + " " + bring_state(b);
}


// ===================================================== round 3: stateless ops
// ---- `widths`: sizeof / signedness of every index, size and counter type the model embeds
using acc::ty;
static std::string widths_line()
{
    ring_head *rp = nullptr;
    igris::ring<char> *tp = nullptr;
    std::string s;
    s += "head " + ty<decltype(ring_head::head)>() + " tail " + ty<decltype(ring_head::tail)>() + " size " + ty<decltype(ring_head::size)>();
    s += " rc.counter " + ty<decltype(ring_counter::counter)>() + " rc.size " + ty<decltype(ring_counter::size)>();
    s += " cyc._size " + acc::cyc_size_width<igris::cyclic_buffer<int>>() + " arr.m_size " + acc::arr_size_width<igris::unbounded_array<int>>();
    s += " ring_read " + ty<decltype(ring_read(rp, (const char *)0, (char *)0, 0u))>();
    s += " ring_write " + ty<decltype(ring_write(rp, (char *)0, (const char *)0, 0u))>();
    s += " ring_avail " + ty<decltype(ring_avail(rp))>() + " ring_room " + ty<decltype(ring_room(rp))>();
    s += " ring_fixup_index " + ty<decltype(ring_fixup_index(rp, 0))>();
    s += " putc " + ty<decltype(ring_putc(rp, (char *)0, 'a'))>() + " getc " + ty<decltype(ring_getc(rp, (const char *)0))>();
    s += " t.read " + ty<decltype(tp->read((char *)0, 0))>() + " t.write " + ty<decltype(tp->write((const char *)0, 0))>();
    s += " t.avail " + ty<decltype(tp->avail())>() + " t.room " + ty<decltype(tp->room())>() + " t.size " + ty<decltype(tp->size())>();
    s += " t.index_of " + ty<decltype(tp->index_of((char *)0))>() + " t.tail_index " + ty<decltype(tp->tail_index())>();
    s += " t.distance " + ty<decltype(tp->distance(0, 0))>() + " t.fixup_index " + ty<decltype(tp->fixup_index(0))>();
    s += " int_max " + S(INT_MAX) + " uint_max " + S(UINT_MAX);
    return s;
}

// ---- `premain`: the same calls made BEFORE main() (constructor with init_priority(101), i.e. before
// every other static object of this program and of libstdc++'s users) and now; local objects only
static std::string ints_csv(const std::vector<int> &v)
{
    std::string s;
    for (size_t i = 0; i < v.size(); i++) s += (i ? "," : "") + S(v[i]);
    return v.empty() ? "-" : s;
}
static std::string premain_compute()
{
    ring_head r;
    char buf[5];
    for (int i = 0; i < 5; i++) buf[i] = (char)(i * 7 + 3);
    ring_init(&r, 5);
    int rc1 = ring_putc(&r, buf, (char)0xff), rc2 = ring_putc(&r, buf, (char)0x80);
    int g1 = ring_getc(&r, buf);
    const char src[5] = {1, 2, 3, 4, 5};
    int wr = ring_write(&r, buf, src, 5);
    char dst[9];
    int rd = ring_read(&r, buf, dst, 9);
    std::string st = cring_state(&r);
    int fx = ring_fixup_index(&r, -1);
    igris::ring<int> t(3);
    t.push(1); t.push(2); t.push(3);
    int la = t.last();
    t.pop();
    int tl = t.tail();
    std::vector<int> gl = t.get_last(0, 2, true);
    unsigned av = t.avail();
    igris::cyclic_buffer<int> c(3);
    c.push(10); c.push(11); c.push(12);
    int old = c.push(13);
    int a0 = c[0], a2 = c[2];
    ring_counter k;
    ring_counter_init(&k, 7);
    ring_counter_increment(&k, 9);
    int pv = ring_counter_prev(&k, 5);
    return S(rc1) + " " + S(rc2) + " " + S(g1) + " " + S(wr) + " " + hex((const uint8_t *)dst, rd < 0 ? 0 : (size_t)rd) + " " + st + " " + S(fx) + " " +
           S(la) + " " + S(tl) + " " + ints_csv(gl) + " " + S(av) + " " + S(old) + " " + S(a0) + " " + S(a2) + " " + S(acc::cyc_counter(c, 4 % 3)) + " " +
           S(k.counter) + " " + S(pv);
}
static char PREMAIN[512]; // zero-initialised storage: usable before any constructor has run
struct PreMain
{
    PreMain()
    {
        std::string s = premain_compute();
        strncpy(PREMAIN, s.c_str(), sizeof PREMAIN - 1);
    }
};
static PreMain premain_object __attribute__((init_priority(101)));

// ---- `hist <size> <script>` / `histt <n> <script>`: a whole history on ONE object in one line
static const uint8_t HB[7] = {0xff, 0x80, 0x00, 0x7f, 0x01, 0xfe, 0x81};
static std::string hist_bytes(size_t j, size_t n)
{
    bytes d(n);
    for (size_t i = 0; i < n; i++) d[i] = HB[(j + i) % 7];
    return hex(d);
}
static std::vector<std::string> split(const std::string &s, char c)
{
    std::vector<std::string> v;
    std::string cur;
    for (char ch : s) { if (ch == c) { v.push_back(cur); cur.clear(); } else cur += ch; }
    v.push_back(cur);
    return v;
}
static void merge(out &o, const out &sub, size_t k, const std::string &tok)
{
    if (sub.oracle != "ok") o.fail("step " + S(k) + " (" + tok + "): " + sub.oracle.substr(5));
    for (const auto &t : split(sub.tags, ','))
        if (!t.empty() && ("," + o.tags + ",").find("," + t + ",") == std::string::npos) o.tag(t.c_str());
}
static void reset_cring(unsigned size, size_t blen, out &o);
static void run_hist(const std::vector<std::string> &w, out &o)
{
    unsigned size = (unsigned)strtoul(w[1].c_str(), 0, 10);
    out first;
    reset_cring(size, size, first);
    merge(o, first, 0, "reset");
    size_t j = 0, k = 0;
    std::string res;
    for (const auto &tok : split(w[2], ','))
    {
        std::vector<std::string> ww;
        size_t n = tok.size() > 1 ? strtoul(tok.c_str() + 1, 0, 10) : 0;
        if (tok == "p") { ww = {"putc", hist_bytes(j, 1)}; j++; }
        else if (tok == "g") ww = {"getc"};
        else if (tok[0] == 'w') { ww = {"write", hist_bytes(j, n)}; j += n; }
        else if (tok[0] == 'r') ww = {"read", S(n)};
        else { o.result = "bad-op"; return; }
        out sub;
        run_cring(ww, sub);
        merge(o, sub, ++k, tok);
        res += (res.empty() ? "" : ";") + sub.result;
    }
    o.tag("hist");
    o.result = res;
}
static void run_histt(const std::vector<std::string> &w, out &o)
{
    int n0 = (int)strtol(w[1].c_str(), 0, 10);
    tc.t.reset(new igris::ring<char>(n0));
    tc.q.clear();
    size_t j = 0, k = 0;
    std::string res;
    for (const auto &tok : split(w[2], ','))
    {
        std::vector<std::vector<std::string>> lines;
        size_t n = tok.size() > 1 ? strtoul(tok.c_str() + 1, 0, 10) : 0;
        if (tok == "u") { lines = {{"push", S((int)(signed char)HB[j % 7])}}; j++; }
        else if (tok == "o") lines = {{"tail"}, {"pop"}};
        else if (tok[0] == 'w') { lines = {{"write", hist_bytes(j, n)}}; j += n; }
        else if (tok[0] == 'r') lines = {{"read", S(n)}};
        else { o.result = "bad-op"; return; }
        ++k;
        for (auto &ww : lines)
        {
            out sub;
            tc.run(ww, sub);
            merge(o, sub, k, tok);
            res += (res.empty() ? "" : ";") + sub.result;
        }
    }
    o.tag("hist");
    o.result = res;
}

// ---- `longrun <size> <n>`: oracle only (the model's list buffer is quadratic in n): n bytes through
// ONE ring_write and ONE ring_read on a ring of `size` slots whose head starts near the end
static void run_longrun(const std::vector<std::string> &w, out &o)
{
    unsigned size = (unsigned)strtoul(w[1].c_str(), 0, 10);
    size_t n = strtoul(w[2].c_str(), 0, 10);
    exact_buf rb(size);
    ring_head r;
    ring_init(&r, size);
    ring_move_head(&r, size - 1000);
    ring_move_tail(&r, size - 1000);
    bytes d(n);
    uint64_t x = 88172645463325252ull;
    for (auto &b : d) { x ^= x << 13; x ^= x >> 7; x ^= x << 17; b = (uint8_t)(x >> 24); }
    for (size_t i = 0; i < n; i += 4099) d[i] = 0xff;
    exact_buf src(d), dst(n + 1);
    size_t acc = std::min<size_t>(n, size - 1);
    int wr = ring_write(&r, (char *)rb.p, (const char *)src.p, (unsigned)n);
    if (wr != (int)acc) o.fail("ring_write of " + S(n) + " bytes returned " + S(wr) + ", room was " + S(size - 1));
    if (ring_avail(&r) != acc || ring_room(&r) != size - 1 - acc) o.fail("avail/room after the long write");
    int rd = ring_read(&r, (const char *)rb.p, (char *)dst.p, (unsigned)(n + 1));
    if (rd != (int)acc) o.fail("ring_read returned " + S(rd) + " of " + S(acc) + " stored bytes");
    else if (memcmp(dst.p, d.data(), acc)) o.fail("the bytes read differ from the bytes written");
    if (dst.p[n] != 0xA5 && acc == n) o.fail("ring_read stored past its return value");
    if (!ring_empty(&r) || r.head >= size || r.tail >= size) o.fail("ring not empty / index outside [0,size) after the long read");
    o.tag("long");
    if (r.head < size - 1000) o.tag("wrapped");
    o.result = "-";
}

// ---- probes of recorded findings: objects outside the property's quantifier on which the code hangs or crashes
static void run_sizezero(const std::vector<std::string> &w, out &o)
{ // ring_init(r, 0) / a default-constructed igris::ring: finding C03-ring-size-zero
    ring_head r;
    ring_init(&r, 0);
    if (w[1] == "mh") { ring_move_head(&r, 1); o.result = S(r.head); }      // while (head >= 0) head -= 0;
    else if (w[1] == "fix") o.result = S(ring_fixup_index(&r, 1));          // 1 % 0
    else if (w[1] == "tlast") { igris::ring<int> t; o.result = S(t.last()); } // fixup_index on size 0
    else if (w[1] == "tpush") { igris::ring<int> t; t.push(1); o.result = S(t.avail()); } // store through nullptr
    else o.result = "bad-op";
    o.fail("size 0: the call returned");
}
static void run_movedpush(const std::vector<std::string> &w, out &o)
{ // finding C03-moved-from-ring-use: the moved-from ring keeps r.size but owns no storage
    igris::ring<int> a((int)strtol(w[1].c_str(), 0, 10));
    a.push(1);
    igris::ring<int> b(std::move(a));
    a.push(2);
    o.result = S(a.avail());
    o.fail("push on a moved-from ring returned");
}

// ------------------------------------------------------------------------ run
static int kind = 0; // 1 ring, 2 typed int, 3 typed char, 4 cyc, 5 rc
static void reset_cring(unsigned size, size_t blen, out &o)
{
    cr.reset(new CRing);
    cr->buf.reset(new exact_buf(blen));
    for (size_t i = 0; i < blen; i++) cr->buf->p[i] = (uint8_t)(i * 7 + 3);
    ring_init(&cr->r, size);
    {
        ring_head m = RING_HEAD_INIT(size); // the static initialiser must describe the same ring
        if (m.head != cr->r.head || m.tail != cr->r.tail || m.size != cr->r.size) o.fail("RING_HEAD_INIT differs from ring_init");
    }
    kind = 1;
    cring_check(*cr, o, blen >= size);
    o.result = "- " + cring_state(&cr->r);
}
static void run_op(const std::vector<std::string> &w, const std::string &, out &o)
{
    if (w.empty()) { o.result = "bad-op"; return; }
    if (w[0] == "lifeprobe" && w.size() >= 2) { run_lifeprobe(w, o); return; }
    if ((w[0] == "lifecount" || w[0] == "lifeviol") && w.size() == 3) { run_lifecount(w, o); return; }
    if (w[0] == "arr" && w.size() == 3) { run_arr(w, o); return; }
    if (w[0] == "reset" && w.size() >= 2)
    { // one-line cases of round 3: `reset <kind> ...` (a case of its own: crash / replay granularity = the line)
        std::vector<std::string> v(w.begin() + 1, w.end());
        const std::string &k = v[0];
        if (k == "widths")
        { // struct sizes (padding, additional members) are not fixed by the property: reported as tags only
            o.result = widths_line(); o.tag("consts");
            o.tag(("sizeof-ring_head=" + S(sizeof(ring_head))).c_str()); o.tag(("sizeof-ring_counter=" + S(sizeof(ring_counter))).c_str());
            return;
        }
        if (k == "premain")
        {
            o.result = PREMAIN;
            if (o.result != premain_compute()) o.fail("the calls made before main() gave `" + o.result + "`, the same calls now give `" + premain_compute() + "`");
            o.tag("premain");
            return;
        }
        if (k == "hist" && v.size() == 3) { run_hist(v, o); return; }
        if (k == "histt" && v.size() == 3) { kind = 3; run_histt(v, o); return; }
        if (k == "longrun" && v.size() == 3) { run_longrun(v, o); return; }
        if (k == "sizezero" && v.size() == 2) { run_sizezero(v, o); return; }
        if (k == "movedpush" && v.size() == 2) { run_movedpush(v, o); return; }
    }
    if (w[0] == "reset")
    {
        if (w.size() == 4 && w[1] == "ring")
        {
            unsigned size = (unsigned)strtoull(w[2].c_str(), 0, 10);
            size_t blen = strtoull(w[3].c_str(), 0, 10);
            reset_cring(size, blen, o);
        }
        else if (w.size() == 3 && w[1] == "typed")
        {
            ti.t.reset(new igris::ring<int>((int)strtol(w[2].c_str(), 0, 10)));
            ti.q.clear(); kind = 2; ti.check(o);
            o.result = "- " + ti.state();
        }
        else if (w.size() == 2 && w[1] == "tempty")
        { // default-constructed ring (size 0, no storage): only resize() may follow
            ti.t.reset(new igris::ring<int>());
            ti.q.clear(); kind = 2;
            o.tag("default-ctor");
            o.result = "- " + ti.state();
        }
        else if (w.size() == 3 && w[1] == "tchar")
        {
            tc.t.reset(new igris::ring<char>((int)strtol(w[2].c_str(), 0, 10)));
            tc.q.clear(); kind = 3; tc.check(o);
            o.result = "- " + tc.state();
        }
        else if (w.size() == 3 && w[1] == "cyc")
        {
            cy.cap = strtoul(w[2].c_str(), 0, 10);
            cy.c.reset(new igris::cyclic_buffer<int>(cy.cap));
            cy.log.clear(); kind = 4;
            o.result = "- " + S(acc::cyc_counter(*cy.c, 0)) + " " + S(cy.c->size());
        }
        else if (w.size() == 3 && w[1] == "bring")
        {
            br.reset(new BRing);
            size_t size = strtoull(w[2].c_str(), 0, 10);
            br->buf.reset(new exact_buf(size));
            for (size_t i = 0; i < size; i++) br->buf->p[i] = (uint8_t)(i * 7 + 3);
            bytering_init(&br->r, br->buf->p, (unsigned)size);
            kind = 6;
            bring_check(*br, o);
            o.result = "- " + bring_state(*br);
        }
        else if (w.size() == 3 && w[1] == "rc")
        {
            ring_counter_init(&rcs, (int)strtol(w[2].c_str(), 0, 10));
            kind = 5;
            o.result = "- " + S(rcs.counter);
        }
        else o.result = "bad-op";
        return;
    }
    switch (kind)
    {
    case 1: run_cring(w, o); break;
    case 2: ti.run(w, o); break;
    case 3: tc.run(w, o); break;
    case 4: run_cyc(w, o); break;
    case 5: run_rc(w, o); break;
    case 6: run_bring(w, o); break;
    default: o.result = "bad-op";
    }
}

// ------------------------------------------------------------------------ gen
// (third translation unit harness/C03_gen.cpp)
void gen(rng &r, const std::string &tier);

int main(int argc, char **argv) { return main_(argc, argv, gen, run_op); }
