// C03 harness: igris/datastruct/ring.h, igris/container/ring.h,
// igris/datastruct/ring_counter.h, igris/container/cyclic_buffer.h against the
// Lean model (IgrisModel/C03).
//
// Cases (all start with a line beginning with "reset"):
//   reset ring <size> <buflen>   struct ring_head + exactly sized heap buffer
//   reset typed <n>              igris::ring<int>(n)
//   reset tchar <n>              igris::ring<char>(n)   (adds read/write)
//   reset cyc <n>                igris::cyclic_buffer<int>(n)
//   reset rc <size>              struct ring_counter
// Result line = "<ret> <state…>" (state = every counter the API reports).
// Oracle = a std::deque / std::vector mirror maintained by the harness only
// from the operations' arguments and the documented contract.
#include "common/hv.h"
#include <deque>
#include <memory>
#include <climits>
#include <cstring>
#include <map>
#include <type_traits>
#include <igris/datastruct/ring.h>
#include <igris/datastruct/ring_counter.h>
#include <igris/container/ring.h>
#include <igris/container/cyclic_buffer.h>
#include <igris/datastruct/bytering.h>

using namespace hv;
typedef std::vector<uint8_t> bytes;

static_assert(sizeof(int) == 4 && sizeof(unsigned) == 4 && sizeof(size_t) == 8, "LP64");
static_assert(CHAR_MIN < 0, "char is signed on this platform");

static int64_t emod(int64_t a, int64_t m) { return ((a % m) + m) % m; }
static std::string S(int64_t v) { return std::to_string(v); }

// ===================================================================== C ring
struct CRing
{
    ring_head r;
    std::unique_ptr<exact_buf> buf;
    std::deque<uint8_t> q; // reference queue
    uint8_t *p() { return buf->p; }
    char *cp() { return (char *)buf->p; }
    size_t blen() { return buf->n; }
};
static std::unique_ptr<CRing> cr;

static std::string cring_state(ring_head *r)
{
    return S(r->head) + " " + S(r->tail) + " " + S(ring_avail(r)) + " " + S(ring_room(r)) + " " +
           S(ring_empty(r) ? 1 : 0) + " " + S(ring_full(r) ? 1 : 0);
}

// contents of the ring read off the buffer by walking tail -> head (no igris code)
static void cring_resync(CRing &c)
{
    c.q.clear();
    if (c.r.size == 0 || c.r.head >= c.r.size || c.r.tail >= c.r.size)
        return;
    for (uint64_t i = c.r.tail; i != c.r.head; i = (i + 1) % c.r.size)
    {
        if (i >= c.blen())
            return;
        c.q.push_back(c.p()[i]);
    }
}

// the clauses of the property that hold in every state
static void cring_check(CRing &c, out &o, bool content = true)
{
    ring_head *r = &c.r;
    uint64_t size = r->size;
    if (!(r->head < size))
        o.fail("head " + S(r->head) + " outside [0,size)");
    if (!(r->tail < size))
        o.fail("tail " + S(r->tail) + " outside [0,size)");
    uint64_t av = ring_avail(r), rm = ring_room(r);
    if (av + rm != size - 1)
        o.fail("avail+room " + S(av) + "+" + S(rm) + " != size-1");
    if (!content)
        return;
    if (av != c.q.size())
        o.fail("avail " + S(av) + " != reference " + S(c.q.size()));
    if (rm != size - 1 - c.q.size())
        o.fail("room " + S(rm) + " != reference " + S(size - 1 - c.q.size()));
    if ((ring_empty(r) != 0) != c.q.empty())
        o.fail("ring_empty disagrees with reference");
    if ((ring_full(r) != 0) != (c.q.size() == size - 1))
        o.fail("ring_full disagrees with reference");
    // stored bytes = reference queue, in order
    uint64_t i = r->tail;
    for (size_t k = 0; k < c.q.size(); k++, i = (i + 1) % size)
        if (i >= c.blen() || c.p()[i] != c.q[k])
        {
            o.fail("stored byte " + S(k) + " differs from reference");
            break;
        }
    if (r->head < r->tail) o.tag("wrapped");
    if (c.q.empty()) o.tag("empty");
    if (c.q.size() == size - 1) o.tag("full");
    if (size & (size - 1)) o.tag("nonpow2");
}

static void run_cring(const std::vector<std::string> &w, out &o)
{
    CRing &c = *cr;
    ring_head *r = &c.r;
    const std::string &op = w[0];
    uint64_t size = r->size;
    std::string ret = "-";
    bool content = c.blen() >= size; // "huge" cases carry no data
    if (op == "putc")
    {
        uint8_t b = unhex(w[1])[0];
        ring_head before = *r;
        bytes snap = c.buf->vec();
        bool full = c.q.size() == size - 1;
        int rc = ring_putc(r, c.cp(), (char)b);
        ret = S(rc);
        if (full)
        {
            o.tag("reject-full");
            if (rc != 0) o.fail("putc on a full ring returned " + S(rc));
            if (before.head != r->head || before.tail != r->tail || snap != c.buf->vec())
                o.fail("putc on a full ring changed the state");
        }
        else
        {
            if (rc != 1) o.fail("putc on a non-full ring returned " + S(rc));
            c.q.push_back(b);
        }
        if (b == 0xff) o.tag("ff");
        else if (b >= 0x80) o.tag("hi-byte");
    }
    else if (op == "getc")
    {
        ring_head before = *r;
        bytes snap = c.buf->vec();
        int rc = ring_getc(r, c.cp());
        ret = S(rc);
        if (c.q.empty())
        {
            o.tag("reject-empty");
            if (rc != -1) o.fail("getc on an empty ring returned " + S(rc));
            if (before.head != r->head || before.tail != r->tail || snap != c.buf->vec())
                o.fail("getc on an empty ring changed the state");
        }
        else
        {
            uint8_t exp = c.q.front();
            c.q.pop_front();
            if (rc != (int)exp)
                o.fail("getc returned " + S(rc) + " for stored byte " + S(exp));
            if (exp == 0xff) o.tag("ff");
            else if (exp >= 0x80) o.tag("hi-byte");
        }
    }
    else if (op == "write")
    {
        bytes d = unhex(w[1]);
        exact_buf src(d);
        size_t room = size - 1 - c.q.size();
        size_t acc = std::min(d.size(), room);
        int rc = ring_write(r, c.cp(), (const char *)src.p, (unsigned)d.size());
        ret = S(rc);
        if (rc != (int)acc)
            o.fail("write of " + S(d.size()) + " with room " + S(room) + " returned " + S(rc));
        for (size_t i = 0; i < acc; i++) c.q.push_back(d[i]);
        if (d.size() > room) o.tag("write-partial");
        if (acc > 1) o.tag("bulk");
    }
    else if (op == "read")
    {
        size_t n = strtoul(w[1].c_str(), 0, 10);
        exact_buf dst(n);
        size_t k = std::min(n, c.q.size());
        int rc = ring_read(r, c.cp(), (char *)dst.p, (unsigned)n);
        size_t got = rc < 0 ? 0 : std::min((size_t)rc, n);
        ret = S(rc) + " " + hex(dst.p, got);
        if (rc != (int)k)
            o.fail("read of " + S(n) + " with " + S(c.q.size()) + " stored returned " + S(rc));
        for (size_t i = 0; i < k; i++)
        {
            if (i < got && dst.p[i] != c.q.front())
                o.fail("read: byte " + S(i) + " is " + S(dst.p[i]) + ", written was " + S(c.q.front()));
            if (c.q.front() == 0xff) o.tag("ff");
            c.q.pop_front();
        }
        for (size_t i = got; i < n; i++)
            if (dst.p[i] != 0xA5) o.fail("read stored past its return value");
        if (n > k) o.tag("read-partial");
        if (k > 1) o.tag("bulk");
    }
    else if (op == "mh1" || op == "mh" || op == "prod" || op == "prod1")
    {
        bytes d;
        uint64_t n = 1;
        if (op == "mh") n = strtoull(w[1].c_str(), 0, 10);
        if (op == "prod" || op == "prod1")
        {
            d = unhex(w[1]);
            n = d.size();
            // the producer fills the free slots itself (DMA style) ...
            for (size_t i = 0; i < d.size(); i++)
                c.p()[(r->head + i) % size] = d[i];
        }
        uint64_t room = size - 1 - c.q.size();
        bool valid = content && n <= room;
        if (valid)
            for (uint64_t i = 0; i < n; i++) c.q.push_back(c.p()[(r->head + i) % size]);
        // ... and publishes them with a head move
        uint64_t h0 = r->head, t0 = r->tail;
        if (op == "mh1" || op == "prod1") ring_move_head_one(r);
        else ring_move_head(r, (unsigned)n);
        if (!content)
        { // ring without data (sizes above 2^31): the index arithmetic itself, in 64 bit
            uint64_t avail0 = (h0 + size - t0) % size;
            if (n <= size - 1 - avail0)
            {
                if (r->head != (h0 + n) % size)
                    o.fail("move_head(" + S(n) + ") from head " + S(h0) + " size " + S(size) + " gives " + S(r->head) + ", not (head+n) mod size");
                if (h0 + n > 0xFFFFFFFFull) o.tag("head+bias>=2^32");
                o.tag("huge-move");
            }
        }
        if (!valid) { cring_resync(c); if (content) o.tag("overmove"); }
        else if (n > 1) o.tag("bulk-move");
    }
    else if (op == "mt1" || op == "mt" || op == "cons" || op == "cons1")
    {
        uint64_t n = (op == "mt" || op == "cons") ? strtoull(w[1].c_str(), 0, 10) : 1;
        bool valid = content && n <= c.q.size();
        if (op == "cons" || op == "cons1")
        {
            // the consumer reads the stored slots itself (DMA style) ...
            bytes got;
            for (uint64_t i = 0; i < n; i++) got.push_back(c.p()[(r->tail + i) % size]);
            ret = S(n) + " " + hex(got);
            for (uint64_t i = 0; valid && i < n; i++)
                if (got[i] != c.q[i]) o.fail("consumed byte " + S(i) + " differs from the written one");
        }
        // ... and releases them with a tail move
        if (valid)
            for (uint64_t i = 0; i < n; i++) c.q.pop_front();
        uint64_t h0 = r->head, t0 = r->tail;
        if (!content)
        {
            uint64_t avail0 = (h0 + size - t0) % size;
            uint64_t exp = (t0 + n) % size;
            bool ok = n <= avail0;
            if (op == "mt1") ring_move_tail_one(r); else ring_move_tail(r, (unsigned)n);
            if (ok)
            {
                if (r->tail != exp)
                    o.fail("move_tail(" + S(n) + ") from tail " + S(t0) + " size " + S(size) + " gives " + S(r->tail) + ", not (tail+n) mod size");
                if (t0 + n > 0xFFFFFFFFull) o.tag("tail+bias>=2^32");
                o.tag("huge-move");
            }
        }
        else
        if (op == "mt1" || op == "cons1") ring_move_tail_one(r);
        else ring_move_tail(r, (unsigned)n);
        if (!valid) { cring_resync(c); o.tag("overmove"); }
        else if (n > 1) o.tag("bulk-move");
    }
    else if (op == "clean")
    {
        ring_clean(r);
        c.q.clear();
    }
    else if (op == "set")
    {
        r->head = (unsigned)strtoull(w[1].c_str(), 0, 10);
        r->tail = (unsigned)strtoull(w[2].c_str(), 0, 10);
        cring_resync(c);
    }
    else if (op == "fix")
    {
        int i = (int)strtol(w[1].c_str(), 0, 10);
        int v = ring_fixup_index(r, i);
        ret = S(v);
        if (v != emod(i, (int64_t)size))
            o.fail("ring_fixup_index(" + S(i) + ") = " + S(v) + " for size " + S(size));
        if (i < 0) o.tag("fix-neg");
    }
    else if (op == "each")
    {
        std::vector<int64_t> got;
        ring_for_each(n, r) got.push_back(n);
        ret = "";
        for (size_t i = 0; i < got.size(); i++) ret += (i ? "," : "") + S(got[i]);
        if (got.empty()) ret = "-";
        if (got.size() != c.q.size()) o.fail("ring_for_each visits " + S(got.size()) + " slots");
        for (size_t i = 0; i < got.size() && i < c.q.size(); i++)
            if (got[i] != (int64_t)((r->tail + i) % size)) o.fail("ring_for_each order");
    }
    else if (op == "eachv")
    { // the macro with a body that reads the slot: exactly the stored bytes, oldest first, once
        bytes got;
        size_t guard = 0;
        ring_for_each(n, r)
        {
            if (n >= c.blen() || ++guard > size) { o.fail("ring_for_each leaves the ring"); break; }
            got.push_back(c.p()[n]);
        }
        ret = hex(got);
        if (got.size() != c.q.size()) o.fail("ring_for_each visits " + S(got.size()) + " elements, " + S(c.q.size()) + " stored");
        else if (!std::equal(got.begin(), got.end(), c.q.begin())) o.fail("ring_for_each does not visit the stored bytes oldest first");
        if (got.size() > 1) o.tag("foreach");
    }
    else if (op == "dump")
        ret = hex(c.p(), c.blen());
    else
    {
        o.result = "bad-op";
        return;
    }
    cring_check(c, o, content);
    o.result = ret + " " + cring_state(r);
}

// ================================================================== typed ring
template <class T> struct TR
{
    std::unique_ptr<igris::ring<T>> t;
    std::deque<T> q;
    static constexpr bool is_char = sizeof(T) == 1;

    std::string state()
    {
        auto &x = *t;
        return S(x.head_index()) + " " + S(x.tail_index()) + " " + S(x.avail()) + " " + S(x.room()) + " " +
               S(x.size()) + " " + S(x.empty() ? 1 : 0) + " " + S(x.buffer.size());
    }
    void resync()
    {
        auto &x = *t;
        q.clear();
        uint64_t size = x.r.size;
        if (!size || x.r.head >= size || x.r.tail >= size || x.buffer.size() < size) return;
        for (uint64_t i = x.r.tail; i != x.r.head; i = (i + 1) % size) q.push_back(x.buffer[i]);
    }
    void check(out &o)
    {
        auto &x = *t;
        uint64_t size = x.r.size;
        if (x.buffer.size() < size)
            o.fail("ring size " + S(size) + " exceeds its buffer of " + S(x.buffer.size()) + " elements");
        if (!(x.r.head < size)) o.fail("head outside [0,size)");
        if (!(x.r.tail < size)) o.fail("tail outside [0,size)");
        if ((uint64_t)x.avail() + x.room() != size - 1) o.fail("avail+room != size-1");
        if (x.avail() != q.size()) o.fail("avail " + S(x.avail()) + " != reference " + S(q.size()));
        if (x.empty() != q.empty()) o.fail("empty() disagrees with reference");
        if (x.r.head < x.r.tail) o.tag("wrapped");
        if (size & (size - 1)) o.tag("nonpow2");
        if (x.r.head == 0) o.tag("head0");
        // stored elements = reference queue, in order
        if (x.buffer.size() >= size && x.r.tail < size && x.avail() == q.size())
        {
            uint64_t i = x.r.tail;
            for (size_t k = 0; k < q.size(); k++, i = (i + 1) % size)
                if (x.buffer[i] != q[k]) { o.fail("stored element " + S(k) + " differs from reference"); break; }
        }
    }
    void run(const std::vector<std::string> &w, out &o)
    {
        auto &x = *t;
        const std::string &op = w[0];
        int64_t size = x.r.size;
        std::string ret = "-";
        if (op == "push" || op == "emplace")
        {
            T v = (T)strtol(w[1].c_str(), 0, 10);
            bool full = (int64_t)q.size() == size - 1;
            if (op == "push") x.push(v); else x.emplace(v);
            if (full) { resync(); o.tag("overmove"); } else q.push_back(v);
        }
        else if (op == "pop")
        {
            bool empty = q.empty();
            x.pop();
            if (empty) { resync(); o.tag("overmove"); } else q.pop_front();
        }
        else if (op == "pushfull" || op == "popempty")
        { // the property's clause "a full ring rejects writes / an empty ring rejects reads without
          // changing state", judged on push()/pop() of the typed ring (recorded finding: they do not test)
            unsigned h0 = x.r.head, t0 = x.r.tail, a0 = x.avail();
            if (op == "pushfull") x.push((T)strtol(w[1].c_str(), 0, 10)); else x.pop();
            bool applies = op == "pushfull" ? (int64_t)q.size() == size - 1 : q.empty();
            if (applies && (x.r.head != h0 || x.r.tail != t0 || x.avail() != a0))
                o.fail(op == "pushfull" ? "push on a full ring was not rejected: " + S(a0) + " stored elements became " + S(x.avail())
                                        : "pop on an empty ring was not rejected: avail became " + S(x.avail()));
            else if (!applies) { if (op == "pushfull") q.push_back((T)strtol(w[1].c_str(), 0, 10)); else q.pop_front(); }
            if (applies) { resync(); o.tag("overmove"); }
        }
        else if (op == "pushalias")
        { // the argument aliases the slot that push() constructs into
            bool full = (int64_t)q.size() == size - 1;
            T v = x.head_place();
            x.push(x.head_place());
            if (full) { resync(); o.tag("overmove"); } else q.push_back(v);
            o.tag("alias");
        }
        else if (op == "clear") { x.clear(); q.clear(); if (!x.empty()) o.fail("not empty after clear"); }
        else if (op == "mh1") { x.move_head_one(); resync(); }
        else if (op == "mt1") { x.move_tail_one(); resync(); }
        else if (op == "rst")
        {
            x.reset(); q.clear();
            if (x.size() != x.buffer.size()) o.fail("reset: ring size != buffer size");
        }
        else if (op == "resize")
        {
            size_t n = strtoul(w[1].c_str(), 0, 10);
            x.resize(n); q.clear();
            if (x.room() != n) o.fail("resize(" + S(n) + "): room " + S(x.room()));
        }
        else if (op == "tail")
        {
            T &e = x.tail();
            ret = S((int)e) + "@" + S(x.index_of(&e));
            if (x.index_of(&e) != (int)x.r.tail) o.fail("tail() addresses slot " + S(x.index_of(&e)));
            if (!q.empty() && e != q.front()) o.fail("tail() is not the oldest element");
        }
        else if (op == "last")
        {
            T &e = x.last();
            int idx = x.index_of(&e);
            ret = S((int)e) + "@" + S(idx);
            if (idx != emod((int64_t)x.r.head - 1, size))
                o.fail("last() addresses slot " + S(idx) + " at head " + S(x.r.head) + " size " + S(size));
            else if (!q.empty() && e != q.back()) o.fail("last() is not the newest element");
        }
        else if (op == "headplace") ret = S((int)x.head_place());
        else if (op == "get") ret = S((int)x.get((int)strtol(w[1].c_str(), 0, 10)));
        else if (op == "getlast")
        {
            int off = (int)strtol(w[1].c_str(), 0, 10), cnt = (int)strtol(w[2].c_str(), 0, 10);
            bool fe = w[3] == "1";
            std::vector<T> v = x.get_last(off, cnt, fe);
            ret = "";
            for (int i = 0; i < cnt; i++) ret += (i ? "," : "") + S((int)v[i]);
            if (cnt == 0) ret = "-";
            for (int i = 0; i < cnt; i++)
            {
                int64_t back = fe ? (int64_t)off + i : (int64_t)off + cnt - 1 - i; // 0 = newest
                int64_t slot = emod((int64_t)x.r.head - 1 - back, size);
                if (v[i] != x.buffer[slot])
                    o.fail("get_last element " + S(i) + " is not slot " + S(slot));
                else if (back >= 0 && back < (int64_t)q.size() && v[i] != q[q.size() - 1 - back])
                    o.fail("get_last element " + S(i) + " is not the " + S(back) + "-th previous element");
            }
            if (off + cnt > (int64_t)x.r.head) o.tag("getlast-wrap");
        }
        else if (op == "fixup")
        {
            int i = (int)strtol(w[1].c_str(), 0, 10);
            int v = x.fixup_index(i);
            ret = S(v);
            if (v != emod(i, size)) o.fail("fixup_index(" + S(i) + ") = " + S(v) + " for size " + S(size));
            if (i < 0) o.tag("fix-neg");
        }
        else if (op == "distance")
        {
            int a = (int)strtol(w[1].c_str(), 0, 10), b = (int)strtol(w[2].c_str(), 0, 10);
            int v = x.distance(a, b);
            ret = S(v);
            if (v != emod((int64_t)a - b, size)) o.fail("distance(" + S(a) + "," + S(b) + ") = " + S(v));
            if (a < b) o.tag("distance-wrap");
        }
        else if (op == "setlast")
        {
            int i = (int)strtol(w[1].c_str(), 0, 10);
            x.set_last_index(i);
            if ((int64_t)x.r.head != emod((int64_t)i + 1, size)) o.fail("set_last_index: head " + S(x.r.head));
            resync();
        }
        else if (op == "copy")
        { // implicit copy constructor; the original is destroyed, the copy carries on
            std::unique_ptr<igris::ring<T>> c(new igris::ring<T>(x));
            if (c->buffer.data() == x.buffer.data()) o.fail("copy shares the storage");
            t = std::move(c);
            o.tag("copy");
        }
        else if (op == "assign")
        { // implicit copy assignment into a ring of another size
            std::unique_ptr<igris::ring<T>> c(new igris::ring<T>(3));
            c->push((T)9);
            *c = x;
            if (c->buffer.data() == x.buffer.data()) o.fail("assignment shares the storage");
            t = std::move(c);
            o.tag("copy");
        }
        else if (op == "move")
        { // implicit move constructor; what is left in the moved-from object is printed
            std::unique_ptr<igris::ring<T>> c(new igris::ring<T>(std::move(x)));
            ret = S(x.buffer.size()) + " " + S(x.r.size);
            t = std::move(c);
            o.tag("move");
        }
        else if (op == "write" || op == "read")
        {
            if constexpr (is_char)
            {
                if (op == "write")
                {
                    bytes d = unhex(w[1]);
                    exact_buf src(d);
                    size_t acc = std::min(d.size(), (size_t)(size - 1) - q.size());
                    size_t rc = x.write((const char *)src.p, d.size());
                    ret = S(rc);
                    if (rc != acc) o.fail("write returned " + S(rc) + ", room was " + S(acc));
                    for (size_t i = 0; i < acc; i++) q.push_back((char)d[i]);
                }
                else
                {
                    size_t n = strtoul(w[1].c_str(), 0, 10);
                    exact_buf dst(n);
                    size_t k = std::min(n, q.size());
                    size_t rc = x.read((char *)dst.p, n);
                    ret = S(rc) + " " + hex(dst.p, std::min(rc, n));
                    if (rc != k) o.fail("read returned " + S(rc) + " with " + S(q.size()) + " stored");
                    for (size_t i = 0; i < k; i++)
                    {
                        if (i < rc && (char)dst.p[i] != q.front()) o.fail("read: byte " + S(i) + " altered");
                        if ((uint8_t)q.front() == 0xff) o.tag("ff");
                        q.pop_front();
                    }
                }
            }
            else { o.result = "bad-op"; return; }
        }
        else { o.result = "bad-op"; return; }
        check(o);
        o.result = ret + " " + state();
    }
};
static TR<int> ti;
static TR<char> tc;

// =============================================================== cyclic buffer
struct Cyc
{
    std::unique_ptr<igris::cyclic_buffer<int>> c;
    std::vector<int> log; // every sample pushed since construction / resize
    size_t cap = 0;
};
static Cyc cy;

static void run_cyc(const std::vector<std::string> &w, out &o)
{
    auto &x = *cy.c;
    const std::string &op = w[0];
    std::string ret = "-";
    size_t n = cy.log.size();
    if (op == "push")
    {
        int v = (int)strtol(w[1].c_str(), 0, 10);
        int old = x.push(v);
        ret = S(old);
        int exp = n >= cy.cap ? cy.log[n - cy.cap] : 0;
        if (old != exp) o.fail("push returned " + S(old) + ", the overwritten sample is " + S(exp));
        cy.log.push_back(v);
        if (n >= cy.cap) o.tag("overwrite");
    }
    else if (op == "at")
    {
        int i = (int)strtol(w[1].c_str(), 0, 10);
        int v = x[i];
        ret = S(v);
        size_t k = (size_t)emod(i, (int64_t)cy.cap); // slots repeat with period cap (negative i: counter - i < size)
        int exp = k < n ? cy.log[n - 1 - k] : 0;
        if (i < 0) o.tag("nth-neg");
        if (v != exp) o.fail("cb[" + S(i) + "] = " + S(v) + ", the " + S(k) + "-th previous sample is " + S(exp));
        if (i >= 0 && (size_t)i < std::min(n, cy.cap)) o.tag("nth");
        if (i >= 0 && n > cy.cap && n % cy.cap < (size_t)i % cy.cap + 1) o.tag("nth-wrap");
    }
    else if (op == "resize")
    {
        cy.cap = strtoul(w[1].c_str(), 0, 10);
        x.resize(cy.cap);
        cy.log.clear();
    }
    else { o.result = "bad-op"; return; }
    if (x.counter.counter < 0 || x.counter.counter >= x.counter.size) o.fail("counter outside [0,size)");
    if ((size_t)x.counter.size != x.data.size()) o.fail("counter size != data size");
    if (x.size() != std::min(cy.log.size(), cy.cap))
        o.fail("size() " + S(x.size()) + " != " + S(std::min(cy.log.size(), cy.cap)));
    if (cy.cap & (cy.cap - 1)) o.tag("nonpow2");
    o.result = ret + " " + S(x.counter.counter) + " " + S(x.size());
}

static ring_counter rcs;
static void run_rc(const std::vector<std::string> &w, out &o)
{
    const std::string &op = w[0];
    std::string ret = "-";
    int64_t a = w.size() > 1 ? strtol(w[1].c_str(), 0, 10) : 0;
    int64_t size = rcs.size, before = rcs.counter;
    if (op == "inc")
    {
        ring_counter_increment(&rcs, (int)a);
        if (before + a >= 0 && rcs.counter != emod(before + a, size)) o.fail("increment: counter " + S(rcs.counter));
        if (before + a < 0) o.tag("inc-neg");
        if (before + a >= 2147483000) o.tag("int-edge");
    }
    else if (op == "set")
    {
        ring_counter_set(&rcs, (int)a);
        if (a >= 0 && rcs.counter != emod(a, size)) o.fail("set: counter " + S(rcs.counter));
    }
    else if (op == "prev")
    {
        int v = ring_counter_prev(&rcs, (int)a);
        ret = S(v);
        // contract of ring_counter_prev: counter - i < size (every i >= 0 for a counter in range, and
        // the negative i > counter - size); beyond it the result is >= size and only compared with the model
        if (before - a < size && v != emod(before - a, size)) o.fail("prev(" + S(a) + ") = " + S(v));
        if (a > before) o.tag("prev-wrap");
        if (a < 0) o.tag(before - a < size ? "prev-neg" : "prev-beyond");
    }
    else if (op == "last")
    {
        int v = ring_counter_last(&rcs, (int)a);
        ret = S(v);
        if (v != emod(before - a, size)) o.fail("last(" + S(a) + ") = " + S(v));
        if (a > before) o.tag("prev-wrap");
    }
    else if (op == "fixpos")
    {
        int v = ring_counter_fixup_pos(&rcs, (int)a);
        ret = S(v);
        if (v != emod(a, size)) o.fail("fixup_pos(" + S(a) + ") = " + S(v));
        if (a < 0) o.tag("fix-neg");
    }
    else if (op == "get") ret = S(ring_counter_get(&rcs));
    else { o.result = "bad-op"; return; }
    if (size & (size - 1)) o.tag("nonpow2");
    o.result = ret + " " + S(rcs.counter);
}

// ============================================================ lifetime probes
// Oracle-only operations (the Lean model has no notion of object lifetime and
// answers "-"): a ledger of live objects / live allocations observes what the
// containers do to their elements.
#include <set>
struct Ledger
{
    std::set<const void *> live;
    std::set<void *> blocks;
    long allocs = 0;
    long over_live = 0, dead_dtor = 0, dead_read = 0;
    long ctor = 0, dtor = 0;                 // constructor / destructor calls on slots of allocated arrays
    std::map<const char *, size_t> ranges;   // arrays handed out by the counting allocator
    bool in_array(const void *p) const
    {
        auto it = ranges.upper_bound((const char *)p);
        if (it == ranges.begin()) return false;
        --it;
        return (const char *)p < it->first + it->second;
    }
    std::vector<std::string> errs;
    void err(const std::string &e) { if (errs.size() < 4) errs.push_back(e); }
};
static Ledger LG;
struct Tracked
{
    int v;
    void born()
    {
        if (!LG.live.insert(this).second) { LG.over_live++; LG.err("object constructed over a live object (the old one is never destroyed)"); }
        if (LG.in_array(this)) LG.ctor++;
    }
    Tracked() : v(0) { born(); }
    Tracked(int x) : v(x) { born(); }
    Tracked(const Tracked &o) : v(o.v) { if (!LG.live.count(&o)) LG.dead_read++; born(); }
    Tracked &operator=(const Tracked &o)
    {
        if (!LG.live.count(this)) LG.err("assignment to an object that is not alive");
        if (!LG.live.count(&o)) LG.dead_read++;
        v = o.v;
        return *this;
    }
    ~Tracked()
    {
        if (!LG.live.erase(this)) { LG.dead_dtor++; LG.err("destructor run on an object that is not alive (destroyed twice or never constructed)"); }
        if (LG.in_array(this)) LG.dtor++;
    }
};
template <class T> struct CountingAlloc
{
    typedef T value_type;
    CountingAlloc() = default;
    template <class U> CountingAlloc(const CountingAlloc<U> &) {}
    T *allocate(size_t n)
    {
        LG.allocs++;
        T *p = (T *)malloc(n ? n * sizeof(T) : 1);
        LG.blocks.insert(p);
        LG.ranges[(const char *)p] = n * sizeof(T);
        return p;
    }
    void deallocate(T *p, size_t n)
    {
        if (!p) return;
        LG.allocs--;
        auto it = LG.live.lower_bound(p);
        if (it != LG.live.end() && (const char *)*it < (const char *)(p + n)) LG.err("storage released while it holds live objects");
        LG.blocks.erase(p);
        LG.ranges.erase((const char *)p);
        free(p);
    }
};
typedef igris::unbounded_array<Tracked, CountingAlloc<Tracked>> TArr;
typedef igris::ring<Tracked, CountingAlloc<Tracked>> TRng;
typedef igris::cyclic_buffer<Tracked, CountingAlloc<Tracked>> TCyc;

static void run_lifeprobe(const std::vector<std::string> &w, out &o)
{
    LG = Ledger();
    const std::string &k = w[1];
    long a = w.size() > 2 ? strtol(w[2].c_str(), 0, 10) : 0, b = w.size() > 3 ? strtol(w[3].c_str(), 0, 10) : 0;
    if (k == "array") { TArr x(a); }
    else if (k == "resize") { TArr x(a); x.resize(b); for (auto &e : x) e = Tracked(1); }
    else if (k == "copy") { TArr x(a); TArr y(x); }
    else if (k == "assign") { TArr x(a), y(b); x = y; }
    else if (k == "selfassign") { TArr x(a); TArr &y = x; x = y; }
    else if (k == "arrmisc")
    { // initializer-list constructor, fill, begin/end, clear
        TArr x{Tracked(1), Tracked(2), Tracked(3)};
        if (x.size() != 3 || x[0].v != 1 || x[2].v != 3) LG.err("initializer_list constructor: wrong content");
        x.fill(Tracked((int)a));
        for (auto &e : x) if (e.v != (int)a) LG.err("fill: element not set");
        if (x.end() - x.begin() != 3) LG.err("begin/end do not span size()");
        x.clear();
        if (x.size() != 0 || x.data() != nullptr) LG.err("clear: array not empty");
    }
    else if (k == "ringctor") { TRng r((int)a); TRng e; e.resize(b); }
    else if (k == "push") { TRng r((int)a); for (long i = 0; i < b; i++) r.push(Tracked((int)i)); }
    else if (k == "pushpop") { TRng r((int)a); for (long i = 0; i < b; i++) { r.push(Tracked((int)i)); r.pop(); } }
    else if (k == "cyc") { TCyc c(a); for (long i = 0; i < b; i++) c.push(Tracked((int)i)); c.resize(a + 1); c.push(Tracked(7)); (void)c[0]; }
    else { o.result = "bad-op"; return; }
    if (!LG.live.empty()) LG.err(S(LG.live.size()) + " objects never destroyed");
    if (LG.allocs != 0) LG.err(S(LG.allocs) + " allocations never released");
    for (auto &e : LG.errs) o.fail(k + ": " + e);
    for (void *p : LG.blocks) free(p); // keep LeakSanitizer out of it: the ledger has reported
    LG = Ledger();
    o.tag("lifetime");
    o.result = "-";
}



// `lifecount <n> <script>`: igris::ring<Tracked>(n) runs the script (u push, o pop,
// c clear, z resize(n), y copy-construct + carry on with the copy, m move-construct
// + carry on with the new object) and is destroyed.  Result = the ledger's counts
// "constructed-over-live  destructor-on-dead  read-of-dead" (compared with the
// slot-lifetime model of the Lean side); the oracle judges what C03 states: the
// values come out FIFO for this non-trivial T too.
static void run_lifecount(const std::vector<std::string> &w, out &o)
{
    LG = Ledger();
    size_t n = strtoul(w[1].c_str(), 0, 10);
    const std::string sc = w[2] == "-" ? "" : w[2];
    std::deque<int> q;
    int k = 0;
    {
        std::unique_ptr<TRng> r(new TRng((int)n));
        for (char ch : sc)
        {
            if (ch == 'u')
            {
                if (q.size() == n) { o.result = "bad-op"; return; }
                r->push(Tracked(k)); q.push_back(k); k++;
            }
            else if (ch == 'o')
            {
                if (q.empty()) { o.result = "bad-op"; return; }
                if (r->tail().v != q.front()) o.fail("tail() is " + S(r->tail().v) + ", the oldest pushed is " + S(q.front()));
                r->pop(); q.pop_front();
            }
            else if (ch == 'U' || ch == 'O' || ch == 'a')
            { // outside the FIFO contract (push although full, pop although empty) or aliasing push:
              // the lifetime clauses still apply; the reference queue is re-read from the ring
                if (ch == 'U') { r->push(Tracked(k)); k++; }
                else if (ch == 'O') r->pop();
                else r->push(r->head_place());
                q.clear();
                for (unsigned i = r->r.tail; i != r->r.head; i = (i + 1) % r->r.size) q.push_back(r->buffer[i].v);
            }
            else if (ch == 'c') { r->clear(); q.clear(); }
            else if (ch == 'z') { r->resize(n); q.clear(); }
            else if (ch == 'y') { std::unique_ptr<TRng> c(new TRng(*r)); r = std::move(c); }
            else if (ch == 'm') { std::unique_ptr<TRng> c(new TRng(std::move(*r))); r = std::move(c); }
            else { o.result = "bad-op"; return; }
            if (r->avail() != q.size()) o.fail("avail " + S(r->avail()) + " != reference " + S(q.size()));
            if (!q.empty() && r->last().v != q.back()) o.fail("last() is not the newest");
        }
        // drain: everything stored comes out in order
        while (!q.empty())
        {
            if (r->empty()) { o.fail("ring empty with " + S(q.size()) + " elements outstanding"); break; }
            if (r->tail().v != q.front()) { o.fail("drain: tail() is not the oldest"); break; }
            q.pop_front();
            r->move_tail_one(); // releases the slot without touching the object
        }
    }
    if (LG.allocs != 0) o.fail(S(LG.allocs) + " allocations never released");
    // the lifetime clause (repaired in round 3): every constructed element is destroyed exactly once
    if (LG.over_live) o.fail(S(LG.over_live) + " objects constructed over a living object (never destroyed)");
    if (LG.dead_dtor) o.fail(S(LG.dead_dtor) + " destructor calls on a slot without a living object");
    if (LG.dead_read) o.fail(S(LG.dead_read) + " copies from a slot without a living object");
    if (!LG.live.empty()) o.fail(S(LG.live.size()) + " objects never destroyed");
    if (LG.ctor != LG.dtor) o.fail(S(LG.ctor) + " constructor calls on ring slots, " + S(LG.dtor) + " destructor calls");
    o.result = S(LG.over_live) + " " + S(LG.dead_dtor) + " " + S(LG.dead_read) + " " + S(LG.ctor) + " " + S(LG.dtor);
    if (LG.over_live) o.tag("over-live");
    if (LG.dead_dtor) o.tag("dead-dtor");
    if (LG.dead_read) o.tag("dead-read");
    for (void *p : LG.blocks) free(p);
    LG = Ledger();
    o.tag("lifetime");
}

// ================================================================== bytering
// igris/datastruct/bytering.h: the pointer version of the byte ring
// (`reset bring <size>`).  Result = "<ret> <head-start> <tail-start> <empty> <full>".
struct BRing
{
    bytering_head r;
    std::unique_ptr<exact_buf> buf;
    std::deque<uint8_t> q;
};
static std::unique_ptr<BRing> br;
static std::string bring_state(BRing &b)
{
    return S(b.r.head - b.r.start) + " " + S(b.r.tail - b.r.start) + " " + S(bytering_empty(&b.r) ? 1 : 0) + " " +
           S(bytering_full(&b.r) ? 1 : 0);
}
static void bring_check(BRing &b, out &o)
{
    bytering_head *r = &b.r;
    size_t size = b.buf->n;
    if (r->start != b.buf->p || r->end != b.buf->p + size) o.fail("start/end moved");
    if (!(r->head >= r->start && r->head < r->end)) o.fail("head outside [start,end)");
    if (!(r->tail >= r->start && r->tail < r->end)) o.fail("tail outside [start,end)");
    if ((bytering_empty(r) != 0) != b.q.empty()) o.fail("bytering_empty disagrees with reference (" + S(b.q.size()) + " stored)");
    if ((bytering_full(r) != 0) != (b.q.size() == size - 1)) o.fail("bytering_full disagrees with reference (" + S(b.q.size()) + " stored of " + S(size - 1) + ")");
    if (b.q.empty()) o.tag("empty");
    if (b.q.size() == size - 1) o.tag("full");
    if (size & (size - 1)) o.tag("nonpow2");
    if (r->tail < r->head) o.tag("wrapped");
}
static void run_bring(const std::vector<std::string> &w, out &o)
{
    BRing &b = *br;
    bytering_head *r = &b.r;
    const std::string &op = w[0];
    size_t size = b.buf->n;
    std::string ret = "-";
    if (op == "push" || op == "pushn")
    {
        uint8_t c = unhex(w[1])[0];
        bytering_head before = *r;
        bytes snap = b.buf->vec();
        bool full = b.q.size() == size - 1;
        if (op == "pushn")
        { // unchecked variant: the caller has tested bytering_full itself
            if (full) { o.result = "bad-op"; return; }
            bytering_push_nocheck(r, c);
            b.q.push_back(c);
        }
        else
        {
            int rc = bytering_push(r, c);
            ret = S(rc);
            if (full)
            {
                o.tag("reject-full");
                if (rc != -1) o.fail("push on a full ring returned " + S(rc));
                if (before.head != r->head || before.tail != r->tail || snap != b.buf->vec())
                    o.fail("push on a full ring changed the state");
            }
            else
            {
                if (rc != 0) o.fail("push with " + S(b.q.size()) + " of " + S(size - 1) + " stored returned " + S(rc));
                b.q.push_back(c);
            }
        }
        if (c == 0xff) o.tag("ff"); else if (c >= 0x80) o.tag("hi-byte");
    }
    else if (op == "pop" || op == "popn")
    {
        bytering_head before = *r;
        bytes snap = b.buf->vec();
        bool empty = b.q.empty();
        if (op == "popn" && empty) { o.result = "bad-op"; return; }
        int rc = op == "pop" ? bytering_pop(r) : bytering_pop_nocheck(r);
        ret = S(rc);
        if (snap != b.buf->vec()) o.fail("pop wrote to the buffer");
        if (empty)
        {
            o.tag("reject-empty");
            if (rc != -1) o.fail("pop on an empty ring returned " + S(rc));
            if (before.head != r->head || before.tail != r->tail) o.fail("pop on an empty ring changed the state");
        }
        else
        {
            uint8_t exp = b.q.front();
            b.q.pop_front();
            if (rc != (int)exp) o.fail("pop returned " + S(rc) + " for stored byte " + S(exp));
            if (exp == 0xff) o.tag("ff"); else if (exp >= 0x80) o.tag("hi-byte");
        }
    }
    else if (op == "dump") ret = hex(b.buf->p, size);
    else { o.result = "bad-op"; return; }
    bring_check(b, o);
    o.result = ret + " " + bring_state(b);
}


// ===================================================== round 3: stateless ops
// ---- `widths`: sizeof / signedness of every index, size and counter type the model embeds
template <class T> static std::string ty() { return std::string(std::is_signed<T>::value ? "i" : "u") + S(sizeof(T)); }
static std::string widths_line()
{
    ring_head *rp = nullptr;
    igris::ring<char> *tp = nullptr;
    std::string s;
    s += "head " + ty<decltype(ring_head::head)>() + " tail " + ty<decltype(ring_head::tail)>() + " size " + ty<decltype(ring_head::size)>();
    s += " rc.counter " + ty<decltype(ring_counter::counter)>() + " rc.size " + ty<decltype(ring_counter::size)>();
    s += " cyc._size " + ty<decltype(igris::cyclic_buffer<int>::_size)>() + " arr.m_size " + ty<decltype(igris::unbounded_array<int>::m_size)>();
    s += " ring_read " + ty<decltype(ring_read(rp, (const char *)0, (char *)0, 0u))>();
    s += " ring_write " + ty<decltype(ring_write(rp, (char *)0, (const char *)0, 0u))>();
    s += " ring_avail " + ty<decltype(ring_avail(rp))>() + " ring_room " + ty<decltype(ring_room(rp))>();
    s += " ring_fixup_index " + ty<decltype(ring_fixup_index(rp, 0))>();
    s += " putc " + ty<decltype(ring_putc(rp, (char *)0, 'a'))>() + " getc " + ty<decltype(ring_getc(rp, (const char *)0))>();
    s += " t.read " + ty<decltype(tp->read((char *)0, 0))>() + " t.write " + ty<decltype(tp->write((const char *)0, 0))>();
    s += " t.avail " + ty<decltype(tp->avail())>() + " t.room " + ty<decltype(tp->room())>() + " t.size " + ty<decltype(tp->size())>();
    s += " t.index_of " + ty<decltype(tp->index_of((char *)0))>() + " t.tail_index " + ty<decltype(tp->tail_index())>();
    s += " t.distance " + ty<decltype(tp->distance(0, 0))>() + " t.fixup_index " + ty<decltype(tp->fixup_index(0))>();
    s += " ring_head " + S(sizeof(ring_head)) + " ring_counter " + S(sizeof(ring_counter));
    s += " int_max " + S(INT_MAX) + " uint_max " + S(UINT_MAX);
    return s;
}

// ---- `premain`: the same calls made BEFORE main() (constructor with init_priority(101), i.e. before
// every other static object of this program and of libstdc++'s users) and now; local objects only
static std::string ints_csv(const std::vector<int> &v)
{
    std::string s;
    for (size_t i = 0; i < v.size(); i++) s += (i ? "," : "") + S(v[i]);
    return v.empty() ? "-" : s;
}
static std::string premain_compute()
{
    ring_head r;
    char buf[5];
    for (int i = 0; i < 5; i++) buf[i] = (char)(i * 7 + 3);
    ring_init(&r, 5);
    int rc1 = ring_putc(&r, buf, (char)0xff), rc2 = ring_putc(&r, buf, (char)0x80);
    int g1 = ring_getc(&r, buf);
    const char src[5] = {1, 2, 3, 4, 5};
    int wr = ring_write(&r, buf, src, 5);
    char dst[9];
    int rd = ring_read(&r, buf, dst, 9);
    std::string st = cring_state(&r);
    int fx = ring_fixup_index(&r, -1);
    igris::ring<int> t(3);
    t.push(1); t.push(2); t.push(3);
    int la = t.last();
    t.pop();
    int tl = t.tail();
    std::vector<int> gl = t.get_last(0, 2, true);
    unsigned av = t.avail();
    igris::cyclic_buffer<int> c(3);
    c.push(10); c.push(11); c.push(12);
    int old = c.push(13);
    int a0 = c[0], a2 = c[2];
    ring_counter k;
    ring_counter_init(&k, 7);
    ring_counter_increment(&k, 9);
    int pv = ring_counter_prev(&k, 5);
    return S(rc1) + " " + S(rc2) + " " + S(g1) + " " + S(wr) + " " + hex((const uint8_t *)dst, rd < 0 ? 0 : (size_t)rd) + " " + st + " " + S(fx) + " " +
           S(la) + " " + S(tl) + " " + ints_csv(gl) + " " + S(av) + " " + S(old) + " " + S(a0) + " " + S(a2) + " " + S(c.counter.counter) + " " +
           S(k.counter) + " " + S(pv);
}
static char PREMAIN[512]; // zero-initialised storage: usable before any constructor has run
struct PreMain
{
    PreMain()
    {
        std::string s = premain_compute();
        strncpy(PREMAIN, s.c_str(), sizeof PREMAIN - 1);
    }
};
static PreMain premain_object __attribute__((init_priority(101)));

// ---- `hist <size> <script>` / `histt <n> <script>`: a whole history on ONE object in one line
static const uint8_t HB[7] = {0xff, 0x80, 0x00, 0x7f, 0x01, 0xfe, 0x81};
static std::string hist_bytes(size_t j, size_t n)
{
    bytes d(n);
    for (size_t i = 0; i < n; i++) d[i] = HB[(j + i) % 7];
    return hex(d);
}
static std::vector<std::string> split(const std::string &s, char c)
{
    std::vector<std::string> v;
    std::string cur;
    for (char ch : s) { if (ch == c) { v.push_back(cur); cur.clear(); } else cur += ch; }
    v.push_back(cur);
    return v;
}
static void merge(out &o, const out &sub, size_t k, const std::string &tok)
{
    if (sub.oracle != "ok") o.fail("step " + S(k) + " (" + tok + "): " + sub.oracle.substr(5));
    for (const auto &t : split(sub.tags, ','))
        if (!t.empty() && ("," + o.tags + ",").find("," + t + ",") == std::string::npos) o.tag(t.c_str());
}
static void reset_cring(unsigned size, size_t blen, out &o);
static void run_hist(const std::vector<std::string> &w, out &o)
{
    unsigned size = (unsigned)strtoul(w[1].c_str(), 0, 10);
    out first;
    reset_cring(size, size, first);
    merge(o, first, 0, "reset");
    size_t j = 0, k = 0;
    std::string res;
    for (const auto &tok : split(w[2], ','))
    {
        std::vector<std::string> ww;
        size_t n = tok.size() > 1 ? strtoul(tok.c_str() + 1, 0, 10) : 0;
        if (tok == "p") { ww = {"putc", hist_bytes(j, 1)}; j++; }
        else if (tok == "g") ww = {"getc"};
        else if (tok[0] == 'w') { ww = {"write", hist_bytes(j, n)}; j += n; }
        else if (tok[0] == 'r') ww = {"read", S(n)};
        else { o.result = "bad-op"; return; }
        out sub;
        run_cring(ww, sub);
        merge(o, sub, ++k, tok);
        res += (res.empty() ? "" : ";") + sub.result;
    }
    o.tag("hist");
    o.result = res;
}
static void run_histt(const std::vector<std::string> &w, out &o)
{
    int n0 = (int)strtol(w[1].c_str(), 0, 10);
    tc.t.reset(new igris::ring<char>(n0));
    tc.q.clear();
    size_t j = 0, k = 0;
    std::string res;
    for (const auto &tok : split(w[2], ','))
    {
        std::vector<std::vector<std::string>> lines;
        size_t n = tok.size() > 1 ? strtoul(tok.c_str() + 1, 0, 10) : 0;
        if (tok == "u") { lines = {{"push", S((int)(signed char)HB[j % 7])}}; j++; }
        else if (tok == "o") lines = {{"tail"}, {"pop"}};
        else if (tok[0] == 'w') { lines = {{"write", hist_bytes(j, n)}}; j += n; }
        else if (tok[0] == 'r') lines = {{"read", S(n)}};
        else { o.result = "bad-op"; return; }
        ++k;
        for (auto &ww : lines)
        {
            out sub;
            tc.run(ww, sub);
            merge(o, sub, k, tok);
            res += (res.empty() ? "" : ";") + sub.result;
        }
    }
    o.tag("hist");
    o.result = res;
}

// ---- `longrun <size> <n>`: oracle only (the model's list buffer is quadratic in n): n bytes through
// ONE ring_write and ONE ring_read on a ring of `size` slots whose head starts near the end
static void run_longrun(const std::vector<std::string> &w, out &o)
{
    unsigned size = (unsigned)strtoul(w[1].c_str(), 0, 10);
    size_t n = strtoul(w[2].c_str(), 0, 10);
    exact_buf rb(size);
    ring_head r;
    ring_init(&r, size);
    ring_move_head(&r, size - 1000);
    ring_move_tail(&r, size - 1000);
    bytes d(n);
    uint64_t x = 88172645463325252ull;
    for (auto &b : d) { x ^= x << 13; x ^= x >> 7; x ^= x << 17; b = (uint8_t)(x >> 24); }
    for (size_t i = 0; i < n; i += 4099) d[i] = 0xff;
    exact_buf src(d), dst(n + 1);
    size_t acc = std::min<size_t>(n, size - 1);
    int wr = ring_write(&r, (char *)rb.p, (const char *)src.p, (unsigned)n);
    if (wr != (int)acc) o.fail("ring_write of " + S(n) + " bytes returned " + S(wr) + ", room was " + S(size - 1));
    if (ring_avail(&r) != acc || ring_room(&r) != size - 1 - acc) o.fail("avail/room after the long write");
    int rd = ring_read(&r, (const char *)rb.p, (char *)dst.p, (unsigned)(n + 1));
    if (rd != (int)acc) o.fail("ring_read returned " + S(rd) + " of " + S(acc) + " stored bytes");
    else if (memcmp(dst.p, d.data(), acc)) o.fail("the bytes read differ from the bytes written");
    if (dst.p[n] != 0xA5 && acc == n) o.fail("ring_read stored past its return value");
    if (!ring_empty(&r) || r.head >= size || r.tail >= size) o.fail("ring not empty / index outside [0,size) after the long read");
    o.tag("long");
    if (r.head < size - 1000) o.tag("wrapped");
    o.result = "-";
}

// ---- probes of recorded findings: objects outside the property's quantifier on which the code hangs or crashes
static void run_sizezero(const std::vector<std::string> &w, out &o)
{ // ring_init(r, 0) / a default-constructed igris::ring: finding C03-ring-size-zero
    ring_head r;
    ring_init(&r, 0);
    if (w[1] == "mh") { ring_move_head(&r, 1); o.result = S(r.head); }      // while (head >= 0) head -= 0;
    else if (w[1] == "fix") o.result = S(ring_fixup_index(&r, 1));          // 1 % 0
    else if (w[1] == "tlast") { igris::ring<int> t; o.result = S(t.last()); } // fixup_index on size 0
    else if (w[1] == "tpush") { igris::ring<int> t; t.push(1); o.result = S(t.avail()); } // store through nullptr
    else o.result = "bad-op";
    o.fail("size 0: the call returned");
}
static void run_movedpush(const std::vector<std::string> &w, out &o)
{ // finding C03-moved-from-ring-use: the moved-from ring keeps r.size but owns no storage
    igris::ring<int> a((int)strtol(w[1].c_str(), 0, 10));
    a.push(1);
    igris::ring<int> b(std::move(a));
    a.push(2);
    o.result = S(a.avail());
    o.fail("push on a moved-from ring returned");
}

// ------------------------------------------------------------------------ run
static int kind = 0; // 1 ring, 2 typed int, 3 typed char, 4 cyc, 5 rc
static void reset_cring(unsigned size, size_t blen, out &o)
{
    cr.reset(new CRing);
    cr->buf.reset(new exact_buf(blen));
    for (size_t i = 0; i < blen; i++) cr->buf->p[i] = (uint8_t)(i * 7 + 3);
    ring_init(&cr->r, size);
    {
        ring_head m = RING_HEAD_INIT(size); // the static initialiser must describe the same ring
        if (m.head != cr->r.head || m.tail != cr->r.tail || m.size != cr->r.size) o.fail("RING_HEAD_INIT differs from ring_init");
    }
    kind = 1;
    cring_check(*cr, o, blen >= size);
    o.result = "- " + cring_state(&cr->r);
}
static void run_op(const std::vector<std::string> &w, const std::string &, out &o)
{
    if (w.empty()) { o.result = "bad-op"; return; }
    if (w[0] == "lifeprobe" && w.size() >= 2) { run_lifeprobe(w, o); return; }
    if (w[0] == "lifecount" && w.size() == 3) { run_lifecount(w, o); return; }
    if (w[0] == "reset" && w.size() >= 2)
    { // one-line cases of round 3: `reset <kind> ...` (a case of its own: crash / replay granularity = the line)
        std::vector<std::string> v(w.begin() + 1, w.end());
        const std::string &k = v[0];
        if (k == "widths") { o.result = widths_line(); o.tag("consts"); return; }
        if (k == "premain")
        {
            o.result = PREMAIN;
            if (o.result != premain_compute()) o.fail("the calls made before main() gave `" + o.result + "`, the same calls now give `" + premain_compute() + "`");
            o.tag("premain");
            return;
        }
        if (k == "hist" && v.size() == 3) { run_hist(v, o); return; }
        if (k == "histt" && v.size() == 3) { kind = 3; run_histt(v, o); return; }
        if (k == "longrun" && v.size() == 3) { run_longrun(v, o); return; }
        if (k == "sizezero" && v.size() == 2) { run_sizezero(v, o); return; }
        if (k == "movedpush" && v.size() == 2) { run_movedpush(v, o); return; }
    }
    if (w[0] == "reset")
    {
        if (w.size() == 4 && w[1] == "ring")
        {
            unsigned size = (unsigned)strtoull(w[2].c_str(), 0, 10);
            size_t blen = strtoull(w[3].c_str(), 0, 10);
            reset_cring(size, blen, o);
        }
        else if (w.size() == 3 && w[1] == "typed")
        {
            ti.t.reset(new igris::ring<int>((int)strtol(w[2].c_str(), 0, 10)));
            ti.q.clear(); kind = 2; ti.check(o);
            o.result = "- " + ti.state();
        }
        else if (w.size() == 3 && w[1] == "tchar")
        {
            tc.t.reset(new igris::ring<char>((int)strtol(w[2].c_str(), 0, 10)));
            tc.q.clear(); kind = 3; tc.check(o);
            o.result = "- " + tc.state();
        }
        else if (w.size() == 3 && w[1] == "cyc")
        {
            cy.cap = strtoul(w[2].c_str(), 0, 10);
            cy.c.reset(new igris::cyclic_buffer<int>(cy.cap));
            cy.log.clear(); kind = 4;
            o.result = "- " + S(cy.c->counter.counter) + " " + S(cy.c->size());
        }
        else if (w.size() == 3 && w[1] == "bring")
        {
            br.reset(new BRing);
            size_t size = strtoull(w[2].c_str(), 0, 10);
            br->buf.reset(new exact_buf(size));
            for (size_t i = 0; i < size; i++) br->buf->p[i] = (uint8_t)(i * 7 + 3);
            bytering_init(&br->r, br->buf->p, (unsigned)size);
            kind = 6;
            bring_check(*br, o);
            o.result = "- " + bring_state(*br);
        }
        else if (w.size() == 3 && w[1] == "rc")
        {
            ring_counter_init(&rcs, (int)strtol(w[2].c_str(), 0, 10));
            kind = 5;
            o.result = "- " + S(rcs.counter);
        }
        else o.result = "bad-op";
        return;
    }
    switch (kind)
    {
    case 1: run_cring(w, o); break;
    case 2: ti.run(w, o); break;
    case 3: tc.run(w, o); break;
    case 4: run_cyc(w, o); break;
    case 5: run_rc(w, o); break;
    case 6: run_bring(w, o); break;
    default: o.result = "bad-op";
    }
}

// ------------------------------------------------------------------------ gen
static const std::vector<uint8_t> SPECIAL = {0xff, 0x80, 0x00, 0x7f, 0x01, 0xfe, 0x81, 0xff, 0xff};
static uint8_t rbyte(rng &r, int mode) { return mode == 0 ? r.pick(SPECIAL) : (uint8_t)r.next(); }
static std::string rhex(rng &r, size_t n)
{
    bytes m(n);
    int mode = (int)r.below(3);
    for (auto &x : m) x = rbyte(r, mode);
    return hex(m);
}
static void P(const std::string &s) { puts(s.c_str()); }

// reach (head, tail) through the API only, with `fill` chosen bytes stored
static void reach(unsigned size, unsigned h, unsigned t, unsigned salt)
{
    P("reset ring " + S(size) + " " + S(size));
    if (t) { P("mh " + S(t)); P("mt " + S(t)); }
    unsigned k = (h + size - t) % size;
    if (k)
    {
        bytes d(k);
        for (unsigned i = 0; i < k; i++) d[i] = SPECIAL[(i + salt) % 7];
        P("write " + hex(d));
    }
}

static void gen_exhaustive_ring(unsigned maxsize)
{
    unsigned salt = 0;
    for (unsigned size = 2; size <= maxsize; size++)
        for (unsigned h = 0; h < size; h++)
            for (unsigned t = 0; t < size; t++)
            {
                std::vector<std::string> ops = {"putc ff", "putc 00", "putc 80", "getc", "mh1", "mt1", "clean", "each",
                                                "prod1 ff", "dump"};
                for (unsigned n = 0; n <= size + 1; n++)
                {
                    ops.push_back("mh " + S(n));
                    ops.push_back("mt " + S(n));
                    ops.push_back("read " + S(n));
                    bytes d(n);
                    for (unsigned i = 0; i < n; i++) d[i] = SPECIAL[(i + n) % 7];
                    ops.push_back("write " + hex(d));
                    unsigned room = size - 1 - (h + size - t) % size;
                    if (n >= 1 && n <= room) ops.push_back("prod " + hex(d));
                    if (n <= size - 1 - room) ops.push_back("cons " + S(n));
                    if (n == 1 && n <= size - 1 - room) ops.push_back("cons1");
                }
                for (const auto &op : ops)
                {
                    reach(size, h, t, salt++);
                    P(op);
                    // everything that is left must still come out in order
                    P("read " + S(size));
                    P("getc");
                }
                if (h == 0 && t == 0)
                {
                    reach(size, h, t, salt++);
                    for (int i = -3 * (int)size - 1; i <= 3 * (int)size + 1; i++) P("fix " + S(i));
                    for (int i : {INT_MIN, INT_MIN + 1, INT_MAX, INT_MAX - 1, -65536, 65536}) P("fix " + S(i));
                }
            }
}

static const std::vector<unsigned> SIZES = {2, 3, 4, 5, 6, 7, 8, 9, 10, 11, 13, 15, 16, 17, 31, 32, 33, 61, 63,
                                            64, 65, 97, 127, 128, 129, 251, 255, 256, 257, 293, 300};

static void gen_random_ring(rng &r, unsigned size, int nops)
{
    P("reset ring " + S(size) + " " + S(size));
    unsigned cnt = 0, cap = size - 1;
    int phase = 0, left = 0;
    for (int k = 0; k < nops; k++)
    {
        if (left-- <= 0) { phase = (int)r.below(3); left = (int)r.range(5, 40); } // 0 balanced 1 fill 2 drain
        unsigned x = (unsigned)r.below(100);
        bool prodside = phase == 1 ? x < 70 : phase == 2 ? x < 30 : x < 50;
        unsigned y = (unsigned)r.below(100);
        unsigned room = cap - cnt;
        if (y < 6)
        {
            int i = r.chance(50) ? (int)r.range(-3 * (int64_t)size, 3 * (int64_t)size) : r.chance(50) ? -(int)r.below(4) - 1 : (int)r.next();
            P("fix " + S(i));
        }
        else if (y < 8) P("each");
        else if (y < 9 && size <= 64) P("dump");
        else if (y < 10)
        {
            if (r.chance(30)) { P("clean"); cnt = 0; }
            else { unsigned h = (unsigned)r.below(size), t = (unsigned)r.below(size); P("set " + S(h) + " " + S(t)); cnt = (h + size - t) % size; }
        }
        else if (y < 13)
        { // moves that break the producer/consumer contract: only the index clauses apply
            unsigned n = (unsigned)r.range(0, 2 * size + 1);
            if (r.chance(50)) { P("mh " + S(n)); cnt = (cnt + n) % size; }
            else { P("mt " + S(n)); cnt = (cnt + 2 * size * 2 - n % size) % size; }
        }
        else if (prodside)
        {
            unsigned z = (unsigned)r.below(100);
            if (z < 45) { P("putc " + rhex(r, 1)); if (cnt < cap) cnt++; }
            else if (z < 65)
            {
                unsigned n = r.chance(20) ? room + (unsigned)r.below(3) : (unsigned)r.range(0, room + 1);
                P("write " + rhex(r, n)); cnt += std::min(n, room);
            }
            else if (z < 80 && room) { unsigned n = (unsigned)r.range(1, room); P("prod " + rhex(r, n)); cnt += n; }
            else if (z < 88 && room) { P("prod1 " + rhex(r, 1)); cnt++; }
            else if (z < 95 && room) { unsigned n = (unsigned)r.range(0, room); P("mh " + S(n)); cnt += n; }
            else if (room) { P("mh1"); cnt++; }
            else { P("putc " + rhex(r, 1)); }
        }
        else
        {
            unsigned z = (unsigned)r.below(100);
            if (z < 50) { P("getc"); if (cnt) cnt--; }
            else if (z < 75)
            {
                unsigned n = r.chance(20) ? cnt + (unsigned)r.below(3) : (unsigned)r.range(0, cnt + 1);
                P("read " + S(n)); cnt -= std::min(n, cnt);
            }
            else if (z < 84 && cnt) { unsigned n = (unsigned)r.range(0, cnt); P("cons " + S(n)); cnt -= n; }
            else if (z < 90 && cnt) { P("cons1"); cnt--; }
            else if (z < 96 && cnt) { unsigned n = (unsigned)r.range(0, cnt); P("mt " + S(n)); cnt -= n; }
            else if (cnt) { P("mt1"); cnt--; }
            else P("getc");
        }
    }
    P("read " + S(size));
}

// every byte value through every slot alignment of a small ring
static void gen_all_bytes()
{
    for (unsigned size : {2u, 3u, 5u, 8u})
    {
        P("reset ring " + S(size) + " " + S(size));
        for (unsigned b = 0; b < 256; b++)
        {
            P("putc " + hexn(b, 2));
            P("getc");
        }
        for (unsigned b = 0; b < 256; b += size - 1)
        {
            bytes d;
            for (unsigned i = 0; i < size - 1; i++) d.push_back((uint8_t)(255 - (b + i) % 256));
            P("write " + hex(d));
            P("read " + S(size - 1));
        }
    }
}

// sizes above 2^31: the unsigned wrap-around in ring_avail/ring_room and in
// head + bias; no data operations (the buffer is 16 bytes)
static void gen_huge(rng &r)
{
    const std::string F = "@F:C03-bulk-move-size-above-2^31 ";
    for (uint64_t size : {4294967295ull, 2147483648ull, 2147483649ull, 4294967294ull, 3000000000ull})
    {
        P("reset ring " + S(size) + " 16");
        for (int k = 0; k < 60; k++)
        {
            uint64_t h = r.chance(50) ? size - 1 - r.below(4) : r.below(size);
            uint64_t t = r.chance(50) ? r.below(4) : r.chance(50) ? size - 1 - r.below(4) : r.below(size);
            P("set " + S(h) + " " + S(t));
            uint64_t avail = (h + size - t) % size, room = size - 1 - avail;
            switch (r.below(5))
            {
            case 0: P("mh1"); break;
            case 1: P("mt1"); break;
            case 2:
            {
                // a move within the contract (n <= room); when head + n passes 2^32 the
                // unsigned addition wraps before the fix-up: recorded finding
                uint64_t n = r.chance(50) ? std::min<uint64_t>(r.below(8), room) : r.below(room + 1);
                P(std::string(h + n > 0xFFFFFFFFull ? F : "") + "mh " + S(n));
                break;
            }
            case 3:
            {
                uint64_t n = r.chance(50) ? std::min<uint64_t>(r.below(8), avail) : r.below(avail + 1);
                P(std::string(t + n > 0xFFFFFFFFull ? F : "") + "mt " + S(n));
                break;
            }
            default: break;
            }
        }
        // the witness of the finding, always present for the sizes that admit it
        if (size > 2147483648ull && 4294967296ull - (size - 2) + 1 <= size - 1)
        {
            P("set " + S(size - 2) + " " + S(size - 2));
            P(F + "mh " + S(4294967296ull - (size - 2) + 1));
            P("set " + S(size - 3) + " " + S(size - 2));
            P(F + "mt " + S(4294967296ull - (size - 2) + 1));
        }
    }
}

static void gen_typed(rng &r, bool th)
{
    // (a) every head position of small rings: relative accessors
    for (int n = 1; n <= (th ? 12 : 9); n++)
    {
        int size = n + 1;
        for (int h = 0; h < size; h++)
            for (int fill = 0; fill <= n; fill += (fill < 2 || th ? 1 : n - 2 > 0 ? n - 2 : 1))
            {
                // tail = h - fill (mod size): advance both, then push `fill`
                int t = ((h - fill) % size + size) % size;
                P("reset typed " + S(n));
                for (int i = 0; i < t; i++) { P("push " + S(-i - 1)); P("pop"); }
                for (int i = 0; i < fill; i++) P("push " + S(100 + i));
                P("last");
                P("tail");
                P("headplace");
                for (int off = 0; off <= fill; off++)
                    for (int c = 0; off + c <= fill; c++)
                    {
                        if (!th && c > 2 && off + c != fill) continue;
                        P("getlast " + S(off) + " " + S(c) + " 1");
                        P("getlast " + S(off) + " " + S(c) + " 0");
                    }
                if (fill == 0)
                {
                    for (int i = -2 * size - 1; i <= 2 * size + 1; i++) P("fixup " + S(i));
                    for (int a = 0; a < size; a++)
                        for (int b = 0; b < size; b++) P("distance " + S(a) + " " + S(b));
                    for (int i = -1; i < size; i++) { P("setlast " + S(i)); P("last"); }
                }
            }
    }
    // (b) random histories
    std::vector<int> ns = {1, 2, 3, 4, 6, 7, 8, 9, 10, 11, 12, 15, 16, 17, 30, 31, 32, 100, 255, 256, 299};
    int reps = th ? 6 : 1;
    for (int rep = 0; rep < reps; rep++)
        for (int n0 : ns)
        {
            int n = n0;
            P("reset typed " + S(n));
            int cnt = 0, v = 1;
            int nops = th ? 400 : 150;
            for (int k = 0; k < nops; k++)
            {
                int size = n + 1;
                unsigned y = (unsigned)r.below(100);
                if (y < 30) { if (cnt < n || r.chance(3)) { P(std::string(r.chance(50) ? "push " : "emplace ") + S(r.chance(10) ? (int)r.next() : v++)); cnt = cnt < n ? cnt + 1 : 0; } }
                else if (y < 50) { if (cnt > 0 || r.chance(3)) { P("pop"); cnt = cnt > 0 ? cnt - 1 : n; } }
                else if (y < 58) P("last");
                else if (y < 63) P("tail");
                else if (y < 73)
                {
                    int off = (int)r.range(0, cnt), c = (int)r.range(0, cnt - off);
                    if (r.chance(10)) { off = (int)r.range(0, size); c = (int)r.range(0, 2 * size); }
                    P("getlast " + S(off) + " " + S(c) + " " + S((int)r.below(2)));
                }
                else if (y < 80)
                {
                    int i = r.chance(60) ? (int)r.range(-3 * size, 3 * size) : r.chance(50) ? -(int)r.below(3) - 1 : (int)r.next();
                    P("fixup " + S(i));
                }
                else if (y < 86) P("distance " + S(r.below(size)) + " " + S(r.below(size)));
                else if (y < 88) { int i = (int)r.range(-1, size - 1); P("setlast " + S(i)); cnt = -1; }
                else if (y < 90) P("get " + S(r.below(size)));
                else if (y < 92) P("headplace");
                else if (y < 93) { P("clear"); cnt = 0; }
                else if (y < 94) { P("rst"); cnt = 0; }
                else if (y < 96) { n = (int)r.range(1, 40); P("resize " + S(n)); cnt = 0; }
                else if (y < 98) { P("mh1"); cnt = -1; }
                else { P("mt1"); cnt = -1; }
                if (cnt < 0)
                { // counts after an arbitrary move: let the generator re-derive them by draining
                    P("clear"); cnt = 0;
                }
            }
        }
    // (c) ring<char>: read/write through the typed wrapper, all byte values
    for (int n : {1, 2, 3, 7, 8, 10, 255, 256})
    {
        P("reset tchar " + S(n));
        int cnt = 0;
        for (int k = 0; k < (th ? 300 : 80); k++)
        {
            if (r.chance(50)) { int m = (int)r.range(0, n - cnt + 1); P("write " + rhex(r, m)); cnt += std::min(m, n - cnt); }
            else { int m = (int)r.range(0, cnt + 1); P("read " + S(m)); cnt -= std::min(m, cnt); }
            if (r.chance(10)) P("last");
            if (r.chance(10)) P("tail");
        }
        P("read " + S(n + 1));
    }
}

static void gen_cyc(rng &r, bool th)
{
    for (int n = 1; n <= (th ? 12 : 9); n++)
    {
        P("reset cyc " + S(n));
        for (int k = 0; k < 3 * n + 2; k++)
        {
            for (int i = 0; i <= 2 * n + 1; i++) P("at " + S(i));
            P("push " + S(1000 + k));
        }
        for (int i = 0; i <= 3 * n; i++) P("at " + S(i));
    }
    for (int n0 : {10, 15, 16, 17, 100, 255, 256, 257})
    {
        int n = n0;
        P("reset cyc " + S(n));
        for (int k = 0; k < (th ? 1500 : 600); k++)
        {
            unsigned y = (unsigned)r.below(100);
            if (y < 55) P("push " + S(r.chance(10) ? (int)r.next() : k + 1));
            else if (y < 99) P("at " + S(r.chance(70) ? r.below(n) : r.below(3 * n)));
            else { n = (int)r.range(1, 40); P("resize " + S(n)); }
        }
    }
    for (int n = 1; n <= 9; n++)
    {
        P("reset rc " + S(n));
        for (int k = 0; k < 3 * n; k++)
        {
            for (int i = -3 * n - 1; i <= 3 * n + 1; i++)
            {
                if (i >= 0) P("prev " + S(i));
                P("last " + S(i));
                if (k == 0) P("fixpos " + S(i));
            }
            P("inc " + S(k % (2 * n + 1)));
            P("get");
        }
        for (int v = 0; v <= 3 * n; v++) P("set " + S(v));
    }
    for (int n : {10, 17, 100, 256, 1000})
    {
        P("reset rc " + S(n));
        for (int k = 0; k < 200; k++)
        {
            switch (r.below(5))
            {
            case 0: P("inc " + S(r.below(3 * n))); break;
            case 1: P("set " + S(r.below(5 * n))); break;
            case 2: P("prev " + S(r.below(4 * n))); break;
            case 3: P("last " + S(r.range(-4 * n, 4 * n))); break;
            default: P("fixpos " + S(r.range(-4 * n, 4 * n)));
            }
        }
    }
}


// bytering.h: every (head, tail) state of small rings x every operation, all
// byte values, random histories
static void gen_bring(rng &r, bool th)
{
    for (unsigned size = 1; size <= (th ? 12u : 9u); size++)
        for (unsigned rot = 0; rot < size; rot++)
            for (unsigned fill = 0; fill + 1 <= size; fill++)
                for (const char *op : {"push ff", "push 00", "pop", "pushn 80", "popn", "dump"})
                {
                    if (!strcmp(op, "pushn 80") && fill == size - 1) continue;
                    if (!strcmp(op, "popn") && fill == 0) continue;
                    if (size == 1 && rot) continue;
                    P("reset bring " + S(size));
                    for (unsigned i = 0; i < rot && size > 1; i++) { P("push " + hexn(0x10 + i, 2)); P("pop"); }
                    for (unsigned i = 0; i < fill; i++) P("push " + hexn(SPECIAL[(i + rot) % 7], 2));
                    P(op);
                    for (unsigned i = 0; i <= size; i++) P("pop"); // everything left comes out in order
                    P("push 5a");
                    P("pop");
                }
    for (unsigned size : {2u, 3u, 5u, 8u})
    {
        P("reset bring " + S(size));
        for (unsigned b = 0; b < 256; b++) { P("push " + hexn(b, 2)); P("pop"); }
        for (unsigned b = 0; b < 256; b += size - 1)
        {
            for (unsigned i = 0; i < size - 1; i++) P("push " + hexn(255 - (b + i) % 256, 2));
            P("push 77"); // full: rejected
            for (unsigned i = 0; i < size; i++) P("pop");
        }
    }
    for (int rep = 0; rep < (th ? 6 : 1); rep++)
        for (unsigned size : {1u, 2u, 3u, 4u, 5u, 7u, 8u, 9u, 16u, 17u, 31u, 64u, 100u, 255u, 256u, 257u})
        {
            P("reset bring " + S(size));
            unsigned cnt = 0, cap = size - 1;
            int phase = 0, left = 0;
            for (int k = 0; k < (th ? 500 : 200); k++)
            {
                if (left-- <= 0) { phase = (int)r.below(3); left = (int)r.range(5, 2 * size + 5); }
                unsigned x = (unsigned)r.below(100);
                bool prod = phase == 1 ? x < 75 : phase == 2 ? x < 25 : x < 50;
                if (prod)
                {
                    if (cnt < cap && r.chance(20)) { P("pushn " + rhex(r, 1)); cnt++; }
                    else { P("push " + rhex(r, 1)); if (cnt < cap) cnt++; }
                }
                else
                {
                    if (cnt && r.chance(20)) { P("popn"); cnt--; }
                    else { P("pop"); if (cnt) cnt--; }
                }
                if (size <= 16 && r.chance(3)) P("dump");
            }
            for (unsigned i = 0; i <= cnt; i++) P("pop");
        }
}


// ---- extension: ring_for_each with a body, size 1, copy/move of the typed ring,
// the slot-lifetime counters, ring_counter at the edges of int
static void gen_ext(rng &r, bool th)
{
    // (a) ring_for_each reading the slots: every (size, head, tail) state
    unsigned salt = 0;
    for (unsigned size = 2; size <= (th ? 12u : 9u); size++)
        for (unsigned h = 0; h < size; h++)
            for (unsigned t = 0; t < size; t++)
            {
                reach(size, h, t, salt++);
                P("eachv");
                P("each");
                P("read " + S(size));
                P("eachv");
            }
    // (b) a ring of size 1 (capacity 0: always empty and full)
    P("reset ring 1 1");
    for (const char *op : {"putc ff", "getc", "write 0102", "read 3", "each", "eachv", "mh 0", "mt 0", "mh 1", "mt 1", "mh1", "mt1",
                           "mh 5", "clean", "fix 0", "fix -1", "fix 7", "putc 00", "getc", "dump"})
        P(op);
    // (c) random histories with for_each after every few operations; bulk writes that exactly fill
    for (int rep = 0; rep < (th ? 6 : 1); rep++)
        for (unsigned size : {2u, 3u, 4u, 5u, 7u, 8u, 9u, 16u, 17u, 33u, 64u, 100u})
        {
            P("reset ring " + S(size) + " " + S(size));
            unsigned cnt = 0, cap = size - 1;
            for (int k = 0; k < (th ? 300 : 120); k++)
            {
                unsigned y = (unsigned)r.below(100);
                unsigned room = cap - cnt;
                if (y < 20) { P("putc " + rhex(r, 1)); if (cnt < cap) cnt++; }
                else if (y < 30) { P("write " + rhex(r, room)); cnt = cap; }                  // exactly fills
                else if (y < 40) { unsigned n = (unsigned)r.range(0, room + 2); P("write " + rhex(r, n)); cnt += std::min(n, room); }
                else if (y < 55) { P("getc"); if (cnt) cnt--; }
                else if (y < 65) { P("read " + S(cnt)); cnt = 0; }                            // exactly drains
                else if (y < 75) { unsigned n = (unsigned)r.range(0, cnt + 2); P("read " + S(n)); cnt -= std::min(n, cnt); }
                else if (y < 80 && room) { unsigned n = (unsigned)r.range(1, room); P("prod " + rhex(r, n)); cnt += n; }
                else if (y < 85 && cnt) { unsigned n = (unsigned)r.range(1, cnt); P("cons " + S(n)); cnt -= n; }
                else P("eachv");
            }
            P("eachv");
            P("read " + S(size));
        }
    // (d) igris::ring<int>: copy construction / assignment / move at every (head, fill)
    for (int n = 1; n <= (th ? 8 : 5); n++)
    {
        int size = n + 1;
        for (int h = 0; h < size; h++)
            for (int fill = 0; fill <= n; fill++)
                for (const char *op : {"copy", "assign", "move"})
                {
                    int t = ((h - fill) % size + size) % size;
                    P("reset typed " + S(n));
                    for (int i = 0; i < t; i++) { P("push " + S(-i - 1)); P("pop"); }
                    for (int i = 0; i < fill; i++) P("push " + S(100 + i));
                    P(op);
                    if (fill) { P("last"); P("tail"); P("getlast 0 " + S(fill) + " 0"); }
                    if (fill < n) P("push 777");
                    for (int i = 0; i < fill + (fill < n ? 1 : 0); i++) { P("tail"); P("pop"); }
                    // resize drops the content: the ring is empty with the new capacity
                    P("push 5");
                    P("resize " + S(n + 2));
                    P("push 6");
                    P("tail");
                    P("last");
                }
    }
    for (int rep = 0; rep < (th ? 6 : 1); rep++)
        for (int n : {1, 2, 3, 5, 8, 16, 17, 100})
        {
            P("reset typed " + S(n));
            int cnt = 0, v = 1;
            for (int k = 0; k < (th ? 300 : 120); k++)
            {
                unsigned y = (unsigned)r.below(100);
                if (y < 40) { if (cnt < n) { P("push " + S(v++)); cnt++; } }
                else if (y < 65) { if (cnt) { P("pop"); cnt--; } }
                else if (y < 72) P("copy");
                else if (y < 79) P("assign");
                else if (y < 86) P("move");
                else if (y < 92) { if (cnt) P("last"); }
                else if (y < 98) { if (cnt) P("tail"); }
                else { P("resize " + S(n)); cnt = 0; }
            }
            P("clear");
        }
    // (e) slot lifetime of ring<Tracked>: every contract-respecting push/pop script up to a
    // length on rings of 1..3 elements, then random scripts with clear/resize/copy/move
    for (int n = 1; n <= 3; n++)
    {
        int maxlen = th ? 9 : 7;
        std::vector<std::pair<std::string, int>> cur = {{"", 0}};
        P("lifecount " + S(n) + " -");
        for (int len = 1; len <= maxlen; len++)
        {
            std::vector<std::pair<std::string, int>> nxt;
            for (auto &p : cur)
            {
                if (p.second < n) nxt.push_back({p.first + "u", p.second + 1});
                if (p.second > 0) nxt.push_back({p.first + "o", p.second - 1});
            }
            for (auto &p : nxt) P("lifecount " + S(n) + " " + p.first);
            cur = nxt;
        }
    }
    for (int n : {1, 2, 3, 4, 5, 8, 16})
        for (int rep = 0; rep < (th ? 40 : 8); rep++)
        {
            std::string sc;
            int cnt = 0, len = (int)r.range(1, 4 * n + 10);
            for (int k = 0; k < len; k++)
            {
                unsigned y = (unsigned)r.below(100);
                if (y < 45) { if (cnt < n) { sc += 'u'; cnt++; } }
                else if (y < 80) { if (cnt) { sc += 'o'; cnt--; } }
                else if (y < 85) { sc += 'c'; cnt = 0; }
                else if (y < 89) { sc += 'z'; cnt = 0; }
                else if (y < 95) sc += 'y';
                else sc += 'm';
            }
            P("lifecount " + S(n) + " " + (sc.empty() ? "-" : sc));
        }
    // (f) ring_counter: negative i, results below 0, the edges of int (all inside the
    // precondition "counter +- argument fits an int")
    for (int n : {1, 2, 3, 7, 8})
    {
        P("reset rc " + S(n));
        for (int c = 0; c < n; c++)
        {
            P("set " + S(c));
            for (int i = -2 * n - 1; i < 0; i++) { P("prev " + S(i)); P("last " + S(i)); }
        }
        P("set 0");
        P("inc -1");
        P("get");
        P("prev 0");
        P("last 0");
        P("inc 1");
        P("inc -" + S(n + 2));
        P("last 1");
        P("set 0");
    }
    for (long long n : {2147483647ll, 2147483646ll, 1073741824ll, 65536ll})
    {
        P("reset rc " + S(n));
        P("set " + S(n - 1));
        P("prev 0");
        P("prev " + S(n - 1));
        P("last -1");
        P("inc " + S(2147483647ll - (n - 1))); // counter + arg == INT_MAX exactly
        P("get");
        P("set 2147483647");
        P("get");
        P("set 5");
        P("prev 2147483647");
        P("last 2147483647");
        P("last -2147483642"); // counter - no == INT_MAX
        P("fixpos -2147483648");
        P("fixpos 2147483647");
        P("inc -2147483648");
        P("get");
        P("set 0");
    }
}

// element lifetime in unbounded_array / ring / cyclic_buffer (oracle-only)
static void gen_lifetime()
{
    P("reset rc 1");
    for (int a : {0, 1, 3, 8})
    {
        P("lifeprobe array " + S(a));
        P("lifeprobe arrmisc " + S(a));
        P("lifeprobe copy " + S(a));
        P("lifeprobe selfassign " + S(a));
        for (int b : {0, 1, 5})
        {
            P("lifeprobe resize " + S(a) + " " + S(b));
            P("lifeprobe assign " + S(a) + " " + S(b));
            P("lifeprobe ringctor " + S(a) + " " + S(b));
            if (a) P("lifeprobe cyc " + S(a) + " " + S(b));
        }
    }
    // repaired in round 3 (5bfd4f6, fcfbb44; was finding C03-ring-element-lifetime): igris::ring<T>
    // placement-constructed over the live element the array constructed and pop() destroyed an element
    // the array destroyed again
    for (int n : {1, 3, 8})
    {
        P("lifeprobe push " + S(n) + " " + S(n));
        P("lifeprobe pushpop " + S(n) + " " + S(2 * n + 1));
    }
}


// ---- round 3 ---------------------------------------------------------------
// every history of depth `depth` on ONE ring of `size` slots over the alphabet putc, getc,
// ring_write of 0..room+1 bytes, ring_read of 0..avail+1 bytes (lengths beyond room+1 / avail+1 take the
// same path as room+1 / avail+1); typed: push / tail+pop inside the contract, write, read
static void gen_hist_rec(const std::string &head, unsigned cap, int depth, unsigned cnt, const std::string &sc, bool typed)
{
    if (depth == 0) { P(head + " " + sc); return; }
    std::string pre = sc.empty() ? "" : sc + ",";
    unsigned room = cap - cnt;
    if (!typed || cnt < cap) gen_hist_rec(head, cap, depth - 1, cnt < cap ? cnt + 1 : cnt, pre + (typed ? "u" : "p"), typed);
    if (!typed || cnt > 0) gen_hist_rec(head, cap, depth - 1, cnt ? cnt - 1 : 0, pre + (typed ? "o" : "g"), typed);
    for (unsigned n = 0; n <= room + 1; n++) gen_hist_rec(head, cap, depth - 1, cnt + std::min(n, room), pre + "w" + S(n), typed);
    for (unsigned n = 0; n <= cnt + 1; n++) gen_hist_rec(head, cap, depth - 1, cnt - std::min(n, cnt), pre + "r" + S(n), typed);
}

static void gen_round3(rng &r, bool th)
{
    // (a) constants of the build, calls before main()
    P("reset widths");
    P("reset premain");
    // (b) interleavings of bulk and single operations on one object, exhaustive
    for (unsigned size = 1; size <= 4; size++) gen_hist_rec("reset hist " + S(size), size - 1, 5, 0, "", false);
    for (unsigned n = 1; n <= 3; n++) gen_hist_rec("reset histt " + S(n), n, th ? 5 : 4, 0, "", true);
    // (c) long inputs (oracle only): > 300 KiB through one ring_write / ring_read, wrapping; more than the room
    P("reset longrun 400003 307200");
    P("reset longrun 65536 307200");
    P("reset longrun 307201 307200");
    // (d) boundary sizes 65535 / 65536 / 65537 with the head next to the wrap point
    for (unsigned size : {65535u, 65536u, 65537u})
    {
        P("reset ring " + S(size) + " " + S(size));
        P("mh " + S(size - 3)); P("mt " + S(size - 3));
        P("write " + rhex(r, 7)); P("putc ff"); P("read 3"); P("getc"); P("fix -1"); P("fix " + S(size));
        P("prod " + rhex(r, 5)); P("cons 4"); P("mh " + S(size - 20)); P("putc 00"); P("mt " + S(size - 9)); P("read 9"); P("getc");
    }
    for (int n : {65534, 65535, 65536})
    {
        P("reset typed " + S(n));
        for (int i = 0; i < 4; i++) { P("push " + S(i + 1)); P("last"); }
        P("setlast " + S(n - 1)); P("mt1"); P("mt1"); P("mt1"); P("mt1"); P("push 7"); P("push 8"); P("last"); P("getlast 0 2 1");
        P("fixup -1"); P("fixup " + S(n + 1)); P("distance 0 " + S(n)); P("pop"); P("tail");
    }
    // (e) the argument of push() aliasing the head slot, at every (head, fill < n) of rings 1..4
    for (int n = 1; n <= 4; n++)
        for (int h = 0; h <= n; h++)
            for (int fill = 0; fill < n; fill++)
            {
                int size = n + 1, t = ((h - fill) % size + size) % size;
                P("reset typed " + S(n));
                for (int i = 0; i < t; i++) { P("push " + S(-i - 1)); P("pop"); }
                for (int i = 0; i < fill; i++) P("push " + S(100 + i));
                P("pushalias");
                P("last");
                for (int i = 0; i <= fill; i++) { P("tail"); P("pop"); }
            }
    // (f) lifetime of ring<Tracked> under ANY push/pop sequence (contract or not) and the aliasing push
    for (int n = 1; n <= 2; n++)
    {
        int maxlen = th ? 7 : 6;
        std::vector<std::pair<std::string, int>> cur = {{"", 0}};
        for (int len = 1; len <= maxlen; len++)
        {
            std::vector<std::pair<std::string, int>> nxt;
            for (auto &p : cur)
            {
                nxt.push_back({p.first + (p.second < n ? "u" : "U"), p.second < n ? p.second + 1 : 0});
                nxt.push_back({p.first + (p.second > 0 ? "o" : "O"), p.second > 0 ? p.second - 1 : n});
                nxt.push_back({p.first + "a", p.second < n ? p.second + 1 : 0});
            }
            if (len == maxlen) for (auto &p : nxt) P("lifecount " + S(n) + " " + p.first);
            cur = nxt;
        }
    }
    for (int n : {1, 2, 3, 5, 8})
        for (int rep = 0; rep < (th ? 40 : 8); rep++)
        {
            std::string sc;
            int len = (int)r.range(1, 4 * n + 10);
            int cnt = 0;
            for (int k = 0; k < len; k++)
            {
                unsigned y = (unsigned)r.below(100);
                if (y < 35) { sc += cnt < n ? 'u' : 'U'; cnt = cnt < n ? cnt + 1 : 0; }
                else if (y < 65) { sc += cnt > 0 ? 'o' : 'O'; cnt = cnt > 0 ? cnt - 1 : n; }
                else if (y < 75) { sc += 'a'; cnt = cnt < n ? cnt + 1 : 0; }
                else if (y < 80) { sc += 'c'; cnt = 0; }
                else if (y < 86) { sc += 'z'; cnt = 0; }
                else if (y < 94) sc += 'y';
                else sc += 'm';
            }
            P("lifecount " + S(n) + " " + sc);
        }
    // (g) cyclic_buffer[i] for negative i down to the boundary counter - size + 1 (admissible: counter - i < size)
    for (int n = 1; n <= 6; n++)
    {
        P("reset cyc " + S(n));
        for (int k = 0; k <= 2 * n; k++)
        {
            int counter = k % n;
            for (int i = counter - n + 1; i < 0; i++) P("at " + S(i));
            P("at 0");
            P("push " + S(500 + k));
        }
    }
    // ---- probes of recorded findings (objects / arguments outside the property's quantifier) ----
    // igris::ring<T>::push / pop do not reject on full / empty
    for (int n : {1, 3, 8})
    {
        P("reset typed " + S(n));
        for (int i = 0; i < n; i++) P("push " + S(i + 1));
        P("@F:C03-typed-ring-no-reject pushfull 99");
        P("reset typed " + S(n));
        P("push 1"); P("pop");
        P("@F:C03-typed-ring-no-reject popempty");
    }
    // cyclic_buffer[i] at i == counter - size: ring_counter_prev returns size, data[size] is outside
    P("reset cyc 3");
    P("@F:C03-cyclic-index-below-range at -3");
    P("reset cyc 4");
    P("push 1");
    P("@F:C03-cyclic-index-below-range at -3");
    // size 0 (ring_init(r, 0), default-constructed igris::ring): division by zero, null store, endless loop
    P("@F:C03-ring-size-zero reset sizezero fix");
    P("@F:C03-ring-size-zero reset sizezero tlast");
    P("@F:C03-ring-size-zero reset sizezero tpush");
    if (th) P("@F:C03-ring-size-zero reset sizezero mh");
    // a moved-from igris::ring keeps r.size and has no storage
    P("@F:C03-moved-from-ring-use reset movedpush 3");
    P("reset rc 1");
}

static void gen(rng &r, const std::string &tier)
{
    bool th = tier == "thorough";
    gen_lifetime();
    gen_exhaustive_ring(th ? 12 : 9);
    gen_all_bytes();
    gen_huge(r);
    int reps = th ? 8 : 2;
    for (int rep = 0; rep < reps; rep++)
        for (unsigned size : SIZES)
            gen_random_ring(r, size, th ? 600 : 250);
    gen_typed(r, th);
    gen_cyc(r, th);
    gen_bring(r, th);
    gen_ext(r, th);
    gen_round3(r, th);
}

int main(int argc, char **argv) { return main_(argc, argv, gen, run_op); }
