// C02 harness: the oracle of the flat containers = the same operation on real std::map / std::set with the same
// comparator type (hosted and compat build)
#include "C02/common.h"
#include <map>
#include <set>
#include "C02/flat_ops.h"
// oracle: the same operation on real std::map / std::set, printed the same way
struct MirrorBase
{
    virtual ~MirrorBase() {}
    virtual void reset() = 0;
    virtual std::string step(const std::vector<std::string> &w, out &o) = 0;
};
// the same comparator type is handed to std::map / std::set
template <class K, class Cmp> struct FlatMirror : MirrorBase
{
    std::map<K, int, Cmp> mm;
    std::set<K, Cmp> ms;
    void reset() override
    {
        mm = std::map<K, int, Cmp>();
        ms = make_set((Cmp *)nullptr);
    }
    template <class C> static std::set<K, C> make_set(C *) { return std::set<K, C>(); }
    static std::set<K, Dir> make_set(Dir *) { return std::set<K, Dir>(Dir(true)); }
    std::string step(const std::vector<std::string> &w, out &o) override
    {
        auto I = [&](size_t k) { return MkKey<K>::of(k < w.size() ? atoi(w[k].c_str()) : 0); };
        auto V = [&](size_t k) { return k < w.size() ? atoi(w[k].c_str()) : 0; };
        const std::string &op = w[0];
        std::string exp = "-";
        if (op == "mset")
            mm[I(1)] = V(2);
        else if (op == "mget")
            exp = std::to_string(mm[I(1)]);
        else if (op == "mins")
        {
            auto p = mm.insert({I(1), V(2)});
            exp = std::to_string(unbox(p.first->first)) + ">" + std::to_string(p.first->second);
            o.tag(p.second ? "ins-new" : "ins-dup");
        }
        else if (op == "mempl")
        {
            auto p = mm.emplace(I(1), V(2));
            exp = std::to_string(p.second) + "," + std::to_string(p.first->second);
        }
        else if (op == "mfind")
        {
            auto it = mm.find(I(1));
            exp = it == mm.end() ? "end" : std::to_string(it->second);
        }
        else if (op == "mcount")
            exp = std::to_string(mm.count(I(1)));
        else if (op == "mat")
        {
            auto it = mm.find(I(1));
            exp = it == mm.end() ? "throw" : std::to_string(it->second);
            if (it == mm.end())
                o.tag("at-throw");
        }
        else if (op == "mclear")
            mm.clear();
        else if (op == "minit")
        {
            mm.clear();
            size_t n = std::min<size_t>((w.size() - 1) / 2, 4);
            for (size_t k = 0; k < n; k++)
                mm.insert({I(1 + 2 * k), V(2 + 2 * k)});
            o.tag(mm.size() != n ? "init-dup" : "init");
        }
        else if (op == "mcopy")
            exp = "10";
        else if (op == "miter")
        {
            exp = "";
            for (auto &kv : mm)
                exp += (exp.empty() ? "" : ",") + std::to_string(unbox(kv.first)) + ">" + std::to_string(kv.second);
            if (exp.empty())
                exp = "-";
            o.tag(mm.size() >= 3 ? "map-iter-3+" : "map-iter");
        }
        else if (op == "meq")
        { // two std::maps with the same entries are equal whatever the insertion order
            exp = "10";
            o.tag(mm.size() >= 2 ? "map-eq-2+" : "map-eq");
        }
        else if (op == "mcget")
        {
            auto it = mm.find(I(1));
            exp = it == mm.end() ? "0" : std::to_string(it->second);
            o.tag(it == mm.end() ? "cget-absent" : "cget-present");
        }
        else if (op == "mmisc")
        { // hosted only: forward | reverse | all the other members consistent
            std::string f, r;
            for (auto it = mm.begin(); it != mm.end(); ++it)
                f += (f.empty() ? "" : ",") + std::to_string(unbox(it->first)) + ">" + std::to_string(it->second);
            for (auto it = mm.rbegin(); it != mm.rend(); ++it)
                r += (r.empty() ? "" : ",") + std::to_string(unbox(it->first)) + ">" + std::to_string(it->second);
            exp = (f.empty() ? "-" : f) + "|" + (r.empty() ? "-" : r) + "|1";
        }
        else if (op == "smisc")
            exp = std::to_string(ms.size()) + "," + std::to_string(ms.size());
        else if (op == "ctrdtr")
            exp = std::to_string(V(1)) + "," + std::to_string(V(1)) + "," + std::to_string(V(1)) + ",1";
        else if (op == "mview")
        {
            static const std::map<int, int> ref{{1, 0}, {4, 10}, {7, 20}, {10, 30}};
            auto it = ref.find(V(1));
            exp = (it == ref.end() ? std::string("end") : std::to_string(std::distance(ref.begin(), it)) + ">" + std::to_string(it->second)) + ",4,4";
        }
        else if (op == "sins")
            o.tag(ms.insert(I(1)).second ? "set-new" : "set-dup");
        else if (op == "scount")
            exp = std::to_string(ms.count(I(1)));
        else if (op == "sclear")
            ms.clear();
        else if (op == "msize")
            exp = std::to_string(mm.size());
        else if (op == "ssize")
            exp = std::to_string(ms.size());
        else if (op == "siter")
        {
            exp = "";
            for (const K &k : ms)
                exp += (exp.empty() ? "" : ",") + std::to_string(unbox(k));
            if (exp.empty())
                exp = "-";
            o.tag(ms.size() >= 8 ? "set-iter-long" : "set-iter");
        }
        std::string s = exp + " m=" + std::to_string(mm.size()) + ":";
        bool first = true;
        // the map is printed in the order of the integer keys (flat_map's own order is not part of C02)
        std::vector<std::pair<int, int>> all;
        for (auto &kv : mm)
            all.push_back({unbox(kv.first), kv.second});
        std::stable_sort(all.begin(), all.end(), [](const std::pair<int, int> &x, const std::pair<int, int> &y) { return x.first < y.first; });
        for (auto &kv : all)
        {
            s += (first ? "" : ",") + std::to_string(kv.first) + ">" + std::to_string(kv.second);
            first = false;
        }
        if (first)
            s += "-";
        s += " s=" + std::to_string(ms.size()) + ":";
        first = true;
        for (const K &k : ms)
        {
            s += (first ? "" : ",") + std::to_string(unbox(k));
            first = false;
        }
        if (first)
            s += "-";
        return s;
    }
};
static FlatMirror<int, std::less<int>> g_mirror0;
static FlatMirror<int, std::greater<int>> g_mirror1;
static FlatMirror<int, ByLastDigit> g_mirror2;
static FlatMirror<std::string, std::greater<std::string>> g_mirror3;
static FlatMirror<int, Dir> g_mirror4;
static MirrorBase *g_mirrors[5] = {&g_mirror0, &g_mirror1, &g_mirror2, &g_mirror3, &g_mirror4};
static MirrorBase *g_mirror = &g_mirror0;

void c02_mirror_select(int ci)
{
    g_mirror = g_mirrors[ci];
    g_mirror->reset();
}
std::string c02_mirror_step(const std::vector<std::string> &w, out &o) { return g_mirror->step(w, o); }
