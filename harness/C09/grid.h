// C09 harness: mechanically generated family of C++ types ("type grid").
//
// A level is a type list; `lift` maps every type X of a level (index I) to the
// compound types one nesting level deeper:
//
//   archive stack      vector<X>, pair<X, B[I%5]>, map<K[I%4], X>, tuple<B[(I+1)%5], X>, G2<B[(I+2)%5], X>
//   serializer stack   vector<X>, G2<X, BS[(I+3)%10]>, G3<BS[(I+1)%10], X, BS[(I+5)%10]>
//
// over the base lists B (u8, i16, u64, f32, string), K (map keys: u8, i32, string, i8) and BS (the ten
// arithmetic types incl. bool, char, long long, unsigned long long).  Depth 1 = lift(base), depth 2 =
// lift(depth 1), depth 3 = lift(every STRIDE-th type of depth 2).  Nothing here names igris.
#pragma once
#include "common.h"

template <class... Ts> struct TL
{
    static constexpr size_t size = sizeof...(Ts);
};
template <class L, size_t I> struct at_;
template <class T, class... Ts> struct at_<TL<T, Ts...>, 0> { typedef T type; };
template <class T, class... Ts, size_t I> struct at_<TL<T, Ts...>, I> { typedef typename at_<TL<Ts...>, I - 1>::type type; };
template <class L, size_t I> using at = typename at_<L, I % L::size>::type;

template <class... Ls> struct cat_;
template <> struct cat_<> { typedef TL<> type; };
template <class... A> struct cat_<TL<A...>> { typedef TL<A...> type; };
template <class... A, class... B, class... R> struct cat_<TL<A...>, TL<B...>, R...> { typedef typename cat_<TL<A..., B...>, R...>::type type; };

// elements From, From+Step, ... < To
template <class L, size_t From, size_t To, size_t Step, bool = (From < To && From < L::size)> struct slice_ { typedef TL<> type; };
template <class L, size_t From, size_t To, size_t Step> struct slice_<L, From, To, Step, true>
{
    typedef typename cat_<TL<at<L, From>>, typename slice_<L, From + Step, To, Step>::type>::type type;
};
template <class L, size_t From, size_t To, size_t Step = 1> using slice = typename slice_<L, From, To, Step>::type;

typedef TL<uint8_t, int16_t, uint64_t, float, std::string> GB;
typedef TL<uint8_t, int32_t, std::string, int8_t> GK;
typedef TL<uint8_t, int16_t, uint32_t, int64_t, float, double, bool, char, long long, unsigned long long> GBS;
// std::vector<bool> does not compile with the serializer stack (its iterator yields a proxy, not an
// arithmetic type), so bool only appears as a field of the generated user types
typedef TL<uint8_t, int16_t, uint32_t, int64_t, float, double, char, long long, unsigned long long> GBSV;

template <class L, class Is> struct lift_a_;
template <class... Ts, size_t... I> struct lift_a_<TL<Ts...>, std::index_sequence<I...>>
{
    typedef typename cat_<TL<std::vector<Ts>, std::pair<Ts, at<GB, I>>, std::map<at<GK, I>, Ts>, std::tuple<at<GB, I + 1>, Ts>,
                             G2<at<GB, I + 2>, Ts>>...>::type type;
};
template <class L> using lift_a = typename lift_a_<L, std::make_index_sequence<L::size>>::type;

template <class L, class Is> struct lift_s_;
template <class... Ts, size_t... I> struct lift_s_<TL<Ts...>, std::index_sequence<I...>>
{
    typedef typename cat_<TL<std::vector<Ts>, G2<Ts, at<GBS, I + 3>>, G3<at<GBS, I + 1>, Ts, at<GBS, I + 5>>>...>::type type;
};
template <class L> using lift_s = typename lift_s_<L, std::make_index_sequence<L::size>>::type;

// archive stack: 25 + 35 + 25 types (compile time is what limits the family), see the slices taken in a.inc
typedef lift_a<GB> GA1;                       // 25 types of depth 1
typedef lift_a<slice<GA1, 0, 25, 4>> GA2;     // 7 parents -> 35 types of depth 2
typedef lift_a<slice<GA2, 1, 35, 7>> GA3;     // 5 parents -> 25 types of depth 3

typedef lift_s<GBSV> GS1;                     // 27 types of depth 1
typedef lift_s<slice<GS1, 0, 27, 4>> GS2;     // 7 parents -> 21 types of depth 2
typedef lift_s<slice<GS2, 1, 21, 4>> GS3;     // 5 parents -> 15 types of depth 3

template <class Adder, class... Ts> void add_all(Adder &A, TL<Ts...>) { (A.template add<Ts, false>(), ...); }
