// archive stack, part 3 of 3 (see a.inc)
#define C09_A_PART 3
#include "a.inc"
