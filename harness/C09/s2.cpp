// serializer stack, part 2 of 2: mechanically generated type grid (see s.inc, grid.h)
#pragma GCC optimize("O0") // grid translation units: compile time matters, run time does not
#define C09_S_PART 2
#include "s.inc"
