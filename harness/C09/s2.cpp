// serializer stack, part 2 of 2: mechanically generated type grid (see s.inc, grid.h)
#define C09_S_PART 2
#include "s.inc"
