// C09 harness, serializer stack: igris/serialize/{serializer,serialize_protocol,
// serialize_scheme,serialize_storage,serialize_archive}.h
#include "common.h"
#include <vector>
#include <string>
#include <igris/serialize/serialize_archive.h>

typedef igris::serializer<igris::string_storage, igris::binary_protocol> WriterS;
typedef igris::deserializer<igris::deserialize_buffer_storage, igris::binary_protocol> ReaderS;
typedef type_h<WriterS, ReaderS> HS;

template <class T> struct hs : HS
{
    void enc(WriterS &w, const DV &d) override
    {
        T v = conv<T>::from(d);
        w.serialize(v);
    }
    DV dec(ReaderS &r) override
    {
        T v = r.template deserialize<T>();
        return conv<T>::to(v);
    }
    bytes enc_api(const DV &d) override
    {
        T v = conv<T>::from(d);
        std::string s = igris::serialize(v);
        return bytes(s.begin(), s.end());
    }
    DV dec_api(const bytes &in) override
    {
        std::string s(in.begin(), in.end());
        T v = igris::deserialize<T>(s);
        return conv<T>::to(v);
    }
};

struct stack_s_impl : stack_iface
{
    std::vector<std::string> order;
    std::map<std::string, std::unique_ptr<HS>> reg;
    template <class T> void add()
    {
        std::string d = conv<T>::desc();
        if (!reg.count(d)) order.push_back(d);
        reg[d].reset(new hs<T>());
    }
    stack_s_impl()
    {
        using std::vector;
        add<uint8_t>(); add<int8_t>(); add<uint16_t>(); add<int16_t>(); add<uint32_t>();
        add<int32_t>(); add<uint64_t>(); add<int64_t>(); add<float>(); add<double>();
        add<vector<uint8_t>>(); add<vector<uint16_t>>(); add<vector<int32_t>>(); add<vector<uint64_t>>();
        add<vector<float>>(); add<vector<double>>();
        add<vector<vector<uint8_t>>>(); add<vector<vector<vector<uint16_t>>>>();
        add<R1>(); add<R2>(); add<vector<R1>>(); add<vector<R2>>(); add<vector<vector<R1>>>();
    }
    std::vector<std::string> descs() override { return order; }
    bool has(const std::string &d) override { return reg.count(d) != 0; }
    bytes encode_seq(const std::vector<std::string> &ds, const std::vector<DV> &vals) override
    {
        igris::string_storage st;
        WriterS w(st);
        for (size_t i = 0; i < ds.size(); i++) reg.at(ds[i])->enc(w, vals[i]);
        const std::string &out = st.storage();
        return bytes(out.begin(), out.end());
    }
    std::vector<DV> decode_seq(const std::vector<std::string> &ds, const uint8_t *p, size_t n, size_t &consumed) override
    {
        igris::deserialize_buffer_storage st(igris::buffer((const char *)p, n));
        ReaderS r(st);
        std::vector<DV> out;
        for (auto &d : ds) out.push_back(reg.at(d)->dec(r));
        consumed = n - (size_t)st.avail();
        return out;
    }
    bytes encode_api(const std::string &d, const DV &v) override { return reg.at(d)->enc_api(v); }
    DV decode_api(const std::string &d, const bytes &in) override { return reg.at(d)->dec_api(in); }
};

stack_iface &stack_s()
{
    static stack_s_impl s;
    return s;
}
