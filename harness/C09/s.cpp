// serializer stack, part 1 of 2 (see s.inc)
#define C09_S_PART 1
#include "s.inc"
