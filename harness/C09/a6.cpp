// archive stack, part 6: maps over every kind of key type (see a.inc)
#define C09_A_PART 6
#include "a.inc"
