// archive stack, part 6 of 6: mechanically generated type grid (see a.inc, grid.h)
#define C09_A_PART 6
#include "a.inc"
