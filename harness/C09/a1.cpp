// archive stack, part 1 of 3 (see a.inc)
#define C09_A_PART 1
#include "a.inc"
