// archive stack, part 2 of 3 (see a.inc)
#define C09_A_PART 2
#include "a.inc"
