// archive stack, part 4 of 6: mechanically generated type grid (see a.inc, grid.h)
#define C09_A_PART 4
#include "a.inc"
