// archive stack, parts 4 and 5: mechanically generated type grid (see a.inc, grid.h)
#pragma GCC optimize("O0") // grid translation unit: compile time matters, run time does not
#define C09_A_PART 4
#include "a.inc"
