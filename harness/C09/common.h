// C09 harness, shared by C09.cpp (gen, oracle, dispatch), C09/a.cpp (archive
// stack) and C09/s.cpp (serializer stack).  Nothing in this header includes or
// calls igris code.
//
// The two stacks cannot live in one translation unit (stdtypes.h and
// serialize_archive.h both define igris::serialize(const T&)), hence the split.
//
// DT = dynamic type descriptor, DV = dynamic value tree.  The text forms are
// the ones of lean/IgrisModel/C09/Main.lean.
#pragma once
#include "../common/hv.h"
#include <algorithm>
#include <map>
#include <memory>
#include <string>
#include <tuple>
#include <utility>
#include <vector>

using namespace hv;
typedef std::vector<uint8_t> bytes;

static_assert(sizeof(float) == 4 && sizeof(double) == 8 && sizeof(long) == 8, "LP64");
static_assert(__BYTE_ORDER__ == __ORDER_LITTLE_ENDIAN__, "little-endian host");

// ---------------------------------------------------------------- descriptors
struct DT
{
    enum K { SC, STR, BUF, VEC, PAIR, TUPLE, MAP, STRUCT } k = SC;
    int sc = 0; // index into SCN
    int alias = 0; // 0 = the SCN name itself; 1..4 = ALN[alias-1] (serializer-stack arithmetic types of the same representation class)
    std::vector<DT> kids;
};
// further arithmetic C++ types accepted by the serializer stack (is_arithmetic): bool, char, long long,
// unsigned long long.  On the wire they are their sizeof-byte image, i.e. the representation class of
// u8 (restricted to 0/1), i8, i64, u64.
static const char *const ALN[4] = {"b8", "c8", "ll", "ull"};
static const int ALSC[4] = {0, 1, 7, 6};
static_assert(sizeof(bool) == 1 && sizeof(char) == 1 && sizeof(long long) == 8 && (char)-1 < 0, "bool/char/long long as modelled");
static const char *const SCN[10] = {"u8", "i8", "u16", "i16", "u32", "i32", "u64", "i64", "f32", "f64"};
static const int SCW[10] = {1, 1, 2, 2, 4, 4, 8, 8, 4, 8};
static inline bool sc_signed(int sc) { return sc == 1 || sc == 3 || sc == 5 || sc == 7; }
static inline bool sc_float(int sc) { return sc >= 8; }

struct DV
{
    uint64_t bits = 0;    // scalar
    std::string bytes;    // string / buffer
    std::vector<DV> kids; // elements / fields / [key,value] entries
    static DV scalar(uint64_t b) { DV d; d.bits = b; return d; }
    static DV str(const std::string &s) { DV d; d.bytes = s; return d; }
};

// ---- descriptor text
static inline bool parse_dt(const std::string &s, size_t &i, DT &t);
static inline bool parse_dts(const std::string &s, size_t &i, std::vector<DT> &out)
{
    for (;;)
    {
        DT t;
        if (!parse_dt(s, i, t)) return false;
        out.push_back(t);
        if (i < s.size() && s[i] == ',') { i++; continue; }
        if (i < s.size() && s[i] == ')') { i++; return true; }
        return false;
    }
}
static inline bool parse_dt(const std::string &s, size_t &i, DT &t)
{
    size_t j = i;
    while (j < s.size() && isalnum((unsigned char)s[j])) j++;
    std::string nm = s.substr(i, j - i);
    i = j;
    for (int k = 0; k < 10; k++)
        if (nm == SCN[k]) { t.k = DT::SC; t.sc = k; return true; }
    for (int k = 0; k < 4; k++)
        if (nm == ALN[k]) { t.k = DT::SC; t.sc = ALSC[k]; t.alias = k + 1; return true; }
    if (nm == "str") { t.k = DT::STR; return true; }
    if (nm == "buf") { t.k = DT::BUF; return true; }
    if (i >= s.size() || s[i] != '(') return false;
    i++;
    if (!parse_dts(s, i, t.kids)) return false;
    if (nm == "V") { t.k = DT::VEC; return t.kids.size() == 1; }
    if (nm == "P") { t.k = DT::PAIR; return t.kids.size() == 2; }
    if (nm == "M") { t.k = DT::MAP; return t.kids.size() == 2; }
    if (nm == "T") { t.k = DT::TUPLE; return true; }
    if (nm == "S") { t.k = DT::STRUCT; return true; }
    return false;
}
static inline bool dt_of(const std::string &s, DT &t)
{
    size_t i = 0;
    return parse_dt(s, i, t) && i == s.size();
}

// ---- value text
static inline void show_dv(const DT &t, const DV &v, std::string &o)
{
    static const char *d = "0123456789abcdef";
    switch (t.k)
    {
    case DT::SC:
        for (int i = 2 * SCW[t.sc] - 1; i >= 0; i--) o.push_back(d[(v.bits >> (4 * i)) & 15]);
        break;
    case DT::STR:
    case DT::BUF:
        o.push_back('"');
        for (unsigned char c : v.bytes) { o.push_back(d[c >> 4]); o.push_back(d[c & 15]); }
        o.push_back('"');
        break;
    case DT::VEC:
        o.push_back('[');
        for (size_t i = 0; i < v.kids.size(); i++) { if (i) o.push_back(','); show_dv(t.kids[0], v.kids[i], o); }
        o.push_back(']');
        break;
    case DT::PAIR:
    case DT::TUPLE:
    case DT::STRUCT:
        o.push_back('(');
        for (size_t i = 0; i < t.kids.size(); i++)
        {
            if (i) o.push_back(',');
            show_dv(t.kids[i], i < v.kids.size() ? v.kids[i] : DV(), o);
        }
        o.push_back(')');
        break;
    case DT::MAP:
        o.push_back('{');
        for (size_t i = 0; i < v.kids.size(); i++)
        {
            if (i) o.push_back(',');
            show_dv(t.kids[0], v.kids[i].kids.at(0), o);
            o.push_back(':');
            show_dv(t.kids[1], v.kids[i].kids.at(1), o);
        }
        o.push_back('}');
        break;
    }
}
static inline std::string show(const DT &t, const DV &v) { std::string o; show_dv(t, v, o); return o; }

static inline bool parse_dv(const DT &t, const std::string &s, size_t &i, DV &v)
{
    switch (t.k)
    {
    case DT::SC:
    {
        int n = 2 * SCW[t.sc];
        if (i + n > s.size()) return false;
        v.bits = 0;
        for (int k = 0; k < n; k++)
        {
            int h = hexval(s[i + k]);
            if (h < 0) return false;
            v.bits = (v.bits << 4) | (unsigned)h;
        }
        i += n;
        return true;
    }
    case DT::STR:
    case DT::BUF:
        if (i >= s.size() || s[i] != '"') return false;
        i++;
        while (i + 1 < s.size() && s[i] != '"')
        {
            int a = hexval(s[i]), b = hexval(s[i + 1]);
            if (a < 0 || b < 0) return false;
            v.bytes.push_back((char)(a * 16 + b));
            i += 2;
        }
        if (i >= s.size() || s[i] != '"') return false;
        i++;
        return true;
    case DT::VEC:
        if (i >= s.size() || s[i] != '[') return false;
        i++;
        if (i < s.size() && s[i] == ']') { i++; return true; }
        for (;;)
        {
            v.kids.emplace_back();
            if (!parse_dv(t.kids[0], s, i, v.kids.back())) return false;
            if (i < s.size() && s[i] == ',') { i++; continue; }
            if (i < s.size() && s[i] == ']') { i++; return true; }
            return false;
        }
    case DT::PAIR:
    case DT::TUPLE:
    case DT::STRUCT:
        if (i >= s.size() || s[i] != '(') return false;
        i++;
        for (size_t k = 0; k < t.kids.size(); k++)
        {
            if (k) { if (i >= s.size() || s[i] != ',') return false; i++; }
            v.kids.emplace_back();
            if (!parse_dv(t.kids[k], s, i, v.kids.back())) return false;
        }
        if (i >= s.size() || s[i] != ')') return false;
        i++;
        return true;
    case DT::MAP:
        if (i >= s.size() || s[i] != '{') return false;
        i++;
        if (i < s.size() && s[i] == '}') { i++; return true; }
        for (;;)
        {
            DV e;
            e.kids.resize(2);
            if (!parse_dv(t.kids[0], s, i, e.kids[0])) return false;
            if (i >= s.size() || s[i] != ':') return false;
            i++;
            if (!parse_dv(t.kids[1], s, i, e.kids[1])) return false;
            v.kids.push_back(e);
            if (i < s.size() && s[i] == ',') { i++; continue; }
            if (i < s.size() && s[i] == '}') { i++; return true; }
            return false;
        }
    }
    return false;
}
static inline bool dv_of(const DT &t, const std::string &s, DV &v)
{
    size_t i = 0;
    return parse_dv(t, s, i, v) && i == s.size();
}

// ---------------------------------------------------------------- C++ types <-> DV
template <class T, class = void> struct conv;

#define C09_SC(T, IDX)                                                                                 \
    template <> struct conv<T>                                                                         \
    {                                                                                                  \
        static std::string desc() { return SCN[IDX]; }                                                 \
        static T from(const DV &d) { T x; uint64_t b = d.bits; memcpy(&x, &b, sizeof x); return x; }   \
        static DV to(const T &x) { uint64_t b = 0; memcpy(&b, &x, sizeof x); return DV::scalar(b); }   \
    };
C09_SC(uint8_t, 0) C09_SC(int8_t, 1) C09_SC(uint16_t, 2) C09_SC(int16_t, 3) C09_SC(uint32_t, 4)
C09_SC(int32_t, 5) C09_SC(uint64_t, 6) C09_SC(int64_t, 7) C09_SC(float, 8) C09_SC(double, 9)

#define C09_AL(T, AL)                                                                                  \
    template <> struct conv<T>                                                                         \
    {                                                                                                  \
        static std::string desc() { return ALN[AL]; }                                                  \
        static T from(const DV &d) { return (T)d.bits; }                                               \
        static DV to(const T &x) { uint64_t b = 0; memcpy(&b, &x, sizeof x); return DV::scalar(b); }   \
    };
C09_AL(bool, 0) C09_AL(char, 1) C09_AL(long long, 2) C09_AL(unsigned long long, 3)

template <> struct conv<std::string>
{
    static std::string desc() { return "str"; }
    static std::string from(const DV &d) { return d.bytes; }
    static DV to(const std::string &s) { return DV::str(s); }
};

// top-level igris::buffer payload (carried as bytes; a.cpp wraps it in igris::buffer)
struct bufval
{
    std::string s;
};
template <> struct conv<bufval>
{
    static std::string desc() { return "buf"; }
    static bufval from(const DV &d) { return bufval{d.bytes}; }
    static DV to(const bufval &b) { return DV::str(b.s); }
};

template <class T> struct conv<std::vector<T>>
{
    static std::string desc() { return "V(" + conv<T>::desc() + ")"; }
    static std::vector<T> from(const DV &d)
    {
        std::vector<T> v;
        v.reserve(d.kids.size());
        for (auto &k : d.kids) v.push_back(conv<T>::from(k));
        return v;
    }
    static DV to(const std::vector<T> &v)
    {
        DV d;
        d.kids.reserve(v.size());
        for (auto &x : v) d.kids.push_back(conv<T>::to(x));
        return d;
    }
};

template <class A, class B> struct conv<std::pair<A, B>>
{
    static std::string desc() { return "P(" + conv<A>::desc() + "," + conv<B>::desc() + ")"; }
    static std::pair<A, B> from(const DV &d) { return {conv<A>::from(d.kids.at(0)), conv<B>::from(d.kids.at(1))}; }
    static DV to(const std::pair<A, B> &p)
    {
        DV d;
        d.kids.push_back(conv<A>::to(p.first));
        d.kids.push_back(conv<B>::to(p.second));
        return d;
    }
};

template <class... Ts> struct conv<std::tuple<Ts...>>
{
    typedef std::tuple<Ts...> Tu;
    static std::string fields()
    {
        std::string s;
        ((s += (s.empty() ? "" : ",") + conv<Ts>::desc()), ...);
        return s;
    }
    static std::string desc() { return "T(" + fields() + ")"; }
    template <size_t... I> static Tu from_(const DV &d, std::index_sequence<I...>)
    {
        return Tu(conv<Ts>::from(d.kids.at(I))...);
    }
    static Tu from(const DV &d) { return from_(d, std::index_sequence_for<Ts...>{}); }
    template <size_t... I> static DV to_(const Tu &t, std::index_sequence<I...>)
    {
        DV d;
        (d.kids.push_back(conv<Ts>::to(std::get<I>(t))), ...);
        return d;
    }
    static DV to(const Tu &t) { return to_(t, std::index_sequence_for<Ts...>{}); }
};

template <class K, class V> struct conv<std::map<K, V>>
{
    static std::string desc() { return "M(" + conv<K>::desc() + "," + conv<V>::desc() + ")"; }
    static std::map<K, V> from(const DV &d)
    {
        std::map<K, V> m;
        for (auto &e : d.kids) m.insert(std::make_pair(conv<K>::from(e.kids.at(0)), conv<V>::from(e.kids.at(1))));
        return m;
    }
    static DV to(const std::map<K, V> &m)
    {
        DV d;
        for (auto &e : m)
        {
            DV kv;
            kv.kids.push_back(conv<K>::to(e.first));
            kv.kids.push_back(conv<V>::to(e.second));
            d.kids.push_back(kv);
        }
        return d;
    }
};

// ---------------------------------------------------------------- user types
// As a user would write them: `reflect` for the archive stack, `serialize_reflect`
// (const for writing, non-const for reading) for the serializer stack; `tied()`
// only serves the harness' conversion to DV.
struct R1 // padding after a and after c: sizeof == 12, wire size 7
{
    uint8_t a;
    int32_t b;
    int16_t c;
    template <class R> void reflect(R &r) { r &a; r &b; r &c; }
    template <class Ar> void serialize_reflect(Ar &ar) const { ar &a; ar &b; ar &c; }
    template <class Ar> void serialize_reflect(Ar &ar) { ar &a; ar &b; ar &c; }
    auto tied() { return std::tie(a, b, c); }
    typedef std::tuple<uint8_t, int32_t, int16_t> as_tuple;
};
struct R2 // nested user type + vector + double
{
    uint16_t id;
    std::vector<uint32_t> xs;
    R1 inner;
    double w;
    template <class R> void reflect(R &r) { r &id; r &xs; r &inner; r &w; }
    template <class Ar> void serialize_reflect(Ar &ar) const { ar &id; ar &xs; ar &inner; ar &w; }
    template <class Ar> void serialize_reflect(Ar &ar) { ar &id; ar &xs; ar &inner; ar &w; }
    auto tied() { return std::tie(id, xs, inner, w); }
    typedef std::tuple<uint16_t, std::vector<uint32_t>, R1, double> as_tuple;
};
struct R3 // archive stack only: string, map, vector of user types
{
    std::string name;
    std::map<uint8_t, std::string> m;
    std::vector<R1> rs;
    template <class R> void reflect(R &r) { r &name; r &m; r &rs; }
    auto tied() { return std::tie(name, m, rs); }
    typedef std::tuple<std::string, std::map<uint8_t, std::string>, std::vector<R1>> as_tuple;
};

// generic user types for the mechanically generated type grid (C09/grid.h)
template <class A, class B> struct G2
{
    A a{};
    B b{};
    template <class R> void reflect(R &r) { r &a; r &b; }
    template <class Ar> void serialize_reflect(Ar &ar) const { ar &a; ar &b; }
    template <class Ar> void serialize_reflect(Ar &ar) { ar &a; ar &b; }
    auto tied() { return std::tie(a, b); }
    typedef std::tuple<A, B> as_tuple;
};
template <class A, class B, class C> struct G3
{
    A a{};
    B b{};
    C c{};
    template <class R> void reflect(R &r) { r &a; r &b; r &c; }
    template <class Ar> void serialize_reflect(Ar &ar) const { ar &a; ar &b; ar &c; }
    template <class Ar> void serialize_reflect(Ar &ar) { ar &a; ar &b; ar &c; }
    auto tied() { return std::tie(a, b, c); }
    typedef std::tuple<A, B, C> as_tuple;
};

// a user type usable as a std::map key: operator< is the usual std::tie comparison of the fields
struct UK
{
    int16_t a = 0;
    std::string s;
    template <class R> void reflect(R &r) { r &a; r &s; }
    auto tied() { return std::tie(a, s); }
    typedef std::tuple<int16_t, std::string> as_tuple;
    friend bool operator<(const UK &x, const UK &y) { return std::tie(x.a, x.s) < std::tie(y.a, y.s); }
};

template <class T> struct conv<T, std::void_t<typename T::as_tuple>>
{
    typedef typename T::as_tuple Tu;
    static std::string desc() { return "S(" + conv<Tu>::fields() + ")"; }
    static T from(const DV &d)
    {
        T x{};
        x.tied() = conv<Tu>::from(d);
        return x;
    }
    static DV to(const T &x) { return conv<Tu>::to(Tu(const_cast<T &>(x).tied())); }
};

// ---- round 3: user types whose default-constructed object is NOT empty (default member initialisers), and a
// trivially copyable type with padding whose reflect order is not its declaration order
struct PFA // archive stack
{
    std::vector<uint8_t> xs{1, 2, 3};
    int16_t t = 7;
    std::map<uint8_t, uint8_t> m{{1, 1}};
    template <class R> void reflect(R &r) { r &xs; r &t; r &m; }
    auto tied() { return std::tie(xs, t, m); }
    typedef std::tuple<std::vector<uint8_t>, int16_t, std::map<uint8_t, uint8_t>> as_tuple;
};
struct PFS // both stacks
{
    std::vector<uint8_t> xs{1, 2, 3};
    uint16_t n = 0;
    std::vector<uint16_t> ys{9};
    template <class R> void reflect(R &r) { r &xs; r &n; r &ys; }
    template <class Ar> void serialize_reflect(Ar &ar) const { ar &xs; ar &n; ar &ys; }
    template <class Ar> void serialize_reflect(Ar &ar) { ar &xs; ar &n; ar &ys; }
    auto tied() { return std::tie(xs, n, ys); }
    typedef std::tuple<std::vector<uint8_t>, uint16_t, std::vector<uint16_t>> as_tuple;
};
struct TC1 // declared a, b, c (sizeof 12, 6 padding bytes); reflected c, a, b
{
    uint8_t a;
    uint32_t b;
    uint8_t c;
    template <class R> void reflect(R &r) { r &c; r &a; r &b; }
    template <class Ar> void serialize_reflect(Ar &ar) const { ar &c; ar &a; ar &b; }
    template <class Ar> void serialize_reflect(Ar &ar) { ar &c; ar &a; ar &b; }
    auto tied() { return std::tie(c, a, b); }
    typedef std::tuple<uint8_t, uint8_t, uint32_t> as_tuple;
};
static_assert(std::is_trivially_copyable<TC1>::value && sizeof(TC1) == 12, "TC1: trivially copyable, padded");

// ---------------------------------------------------------------- stack interface
// One writer / one reader per call, several values in sequence.
struct stack_iface
{
    virtual ~stack_iface() {}
    virtual std::vector<std::string> descs() = 0;
    virtual bool has(const std::string &desc) = 0;
    virtual size_t n_hand() = 0; // the first n_hand() descs are the hand-written family, the rest is the generated grid
    // values (by descriptor) -> bytes produced by the real writer
    virtual bytes encode_seq(const std::vector<std::string> &descs, const std::vector<DV> &vals) = 0;
    // real reader over exactly [p, p+n): decoded values, reader position afterwards
    virtual std::vector<DV> decode_seq(const std::vector<std::string> &descs, const uint8_t *p, size_t n, size_t &consumed) = 0;
    // single value through the public one-call API (igris::serialize(v) / igris::deserialize<T>(bytes));
    // empty desc list = not available
    virtual bytes encode_api(const std::string &desc, const DV &v) = 0;
    virtual DV decode_api(const std::string &desc, const bytes &in) = 0;
    // the value after a trip through the C++ object (pure STL, no igris code): a std::map<K,V> built by
    // insert() from the entries in the given order and iterated - std::less<K> is the oracle for the key order
    virtual DV canon(const std::string &desc, const DV &v) { (void)desc; return v; }
    // round 3: the in-place API (igris::deserialize(reader, obj) / deserializer::deserialize(obj)) on an object that
    // already holds `dest`
    virtual DV decode_into(const std::string &desc, const DV &dest, const uint8_t *p, size_t n, size_t &consumed) = 0;
    // several values through ONE reader over a (possibly truncated) input: same as decode_seq (kept apart for clarity)
};
stack_iface &stack_a();
stack_iface &stack_s();

// ---- extra entry points of the archive stack (a.inc part 1)
// payload written with dump(const char*, uint16_t) [kind c], dump(igris::buffer) [w] or dump(std::string_view) [v],
// then a value of type `desc`; read back with load(char*, maxsz) [c] / load(writable_buffer&) [w, v] into an exactly
// sized destination of `cap` bytes, then the value.
struct cap_out
{
    bytes enc;
    std::string got;   // what the capped load stored
    bool dst_clean = true; // destination bytes beyond `got` untouched
    DV val;
    size_t consumed = 0;
};
cap_out a_capped(char kind, size_t cap, const std::string &payload, const std::string &desc, const DV &v, const bytes &rest, size_t trunc = (size_t)-1);
// binary_buffer_writer over an exactly sized buffer (size = what binary_string_writer produced)
bytes a_binwriter(const std::string &desc, const DV &v, size_t size);
bool a_binwriter_has(const std::string &desc);
// round 3b: binary_buffer_writer of ANY hand-written archive type into a caller buffer of cap bytes
bool a_bufwrite(const std::string &desc, const DV &v, uint8_t *p, size_t cap, long &cursor);
// struct { T xs[N]; reflect(r) { r & igris::archive::data<T>(xs, N); } }: desc "sc:N"; encode / decode (into a value-initialised array)
bool a_data_has(const std::string &key);
std::vector<std::string> a_data_keys();
bytes a_data_enc(const std::string &key, const std::vector<uint64_t> &xs);
std::vector<uint64_t> a_data_dec(const std::string &key, const uint8_t *p, size_t n, size_t &consumed);
// archive reader on a (possibly truncated) input, no reference pre-check: used by the finding probes only
DV a_decode_raw(const std::string &desc, const uint8_t *p, size_t n, size_t &consumed);
// ---- extra entry points of the serializer stack (s.inc part 1)
// storage.dumps(bytes) into a string_storage, then loads(n) for each n on a deserialize_buffer_storage over it
std::vector<std::string> s_loads(const std::string &data, const std::vector<size_t> &ns, size_t &avail_after);

// registry used by both TUs
template <class Writer, class Reader> struct type_h
{
    virtual ~type_h() {}
    virtual void enc(Writer &, const DV &) = 0;
    virtual DV dec(Reader &) = 0;
    virtual bytes enc_api(const DV &) = 0;
    virtual DV dec_api(const bytes &) = 0;
    virtual DV canon(const DV &d) { return d; }
    virtual DV dec_into(Reader &, const DV &dest) = 0;
    // round 3b: the value written by the fixed-buffer writer into [p, p+cap); false = no such writer for this type.
    // cursor = writer position afterwards, or -1 when the writer does not expose one
    virtual bool enc_buf(uint8_t *, size_t, const DV &, long &) { return false; }
};
