// archive stack, part 5 of 6: mechanically generated type grid (see a.inc, grid.h)
#define C09_A_PART 5
#include "a.inc"
