// archive stack, part 7: round-3 types (see a.inc)
#define C09_A_PART 7
#include "a.inc"
