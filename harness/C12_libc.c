/* C12: the repo's C sources, compiled as C.
 *  - igris/util/numconvert.c is #included (not linked) so that file-static things can be looked at;
 *  - compat/libc/stdlib/strtod.c is compiled under private names so that
 *    glibc's strtod/atof (used by the oracle) are not replaced.
 *
 * ROUND 3b (fragility): the two INTERNAL names this file mentions are optional.
 *  - `rounders` (file-static table): the incomplete tentative definition below is completed by numconvert.c
 *    when it still defines a `static const double rounders[...]`; when the table was renamed, removed or
 *    replaced by a computation the tentative definition stands (one zero element) and the harness reports
 *    `rounders-table-not-found` as a TAG - the rounding behaviour itself is probed through igris_f32toa (op `tbl`).
 *  - `MAX_PRECISION` (internal macro): -1 when absent; the harness measures the clamp by rendering with
 *    precision 127.                                                                                       */
#include <stdlib.h>
static const double rounders[];
#include <igris/util/numconvert.c>

const double *igv_rounders(void) { return rounders; }
#ifdef MAX_PRECISION
int igv_max_precision(void) { return MAX_PRECISION; }
#else
int igv_max_precision(void) { return -1; }
#endif

#define strtod igv_strtod
#define atof igv_atof
#include <compat/libc/stdlib/strtod.c>
