/* C12: the repo's C sources, compiled as C.
 *  - igris/util/numconvert.c is #included (not linked) so that the static
 *    `rounders[]` table can be read out of the compiled code (op `tbl`);
 *  - compat/libc/stdlib/strtod.c is compiled under private names so that
 *    glibc's strtod/atof (used by the oracle) are not replaced.          */
#include <stdlib.h>
#include <igris/util/numconvert.c>

const double *igv_rounders(void) { return rounders; }
int igv_max_precision(void) { return MAX_PRECISION; }

#define strtod igv_strtod
#define atof igv_atof
#include <compat/libc/stdlib/strtod.c>
