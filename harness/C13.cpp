// C13 harness: the floating conversions %f %F %e %E %g %G of
// igris/util/printf_impl.c (__printf -> print_f) against the Lean model
// (IgrisModel/C13) and against an oracle that does not share code with either.
//
// op lines (all stateless):
//   pf <fmt-hex> <bits> [<int> [<int>]]   __printf(fmt, [star args,] double) through a
//                                          variadic shim; <bits> = the 16 hex digits of
//                                          the IEEE-754 binary64 argument
//   pfL <fmt-hex> <se> <mant> [<int>..]   the same with an `L` directive and a long double argument
//                                          given as the 4 hex digits of sign+exponent and the 16 of the
//                                          x87 significand; print_f narrows it to double first, so the
//                                          oracle judges the text against (double)arg
//   pfa <fmt-hex> <bits>                   %a / %A (probe of finding C13-hex-float only; not modelled)
//   sh|shm <fmt-hex> <neg> <text-hex> [<int>..]  the ISO shape predicate (Shape.lean / iso::shape) on a text:
//                                          sh = a text printed by glibc (must be accepted), shm = a mutated text
//   ar cvt <se> <mant>                     (double) of a long double: one rounding (ties the narrowing)
//   ar <op> <bits> [<bits>|<int>]          one arithmetic primitive on the host FPU/libm
//                                          (add mul div fmod modf round pow): ties the
//                                          model's software binary64 to the hardware
// result of pf: "<ret> <hex of the characters handed to the callback>" for non-finite and zero arguments; for a finite
//   non-zero argument (round 3c) the TOLERANT observable of namespace canon: the routine's own text with the number
//   replaced by the correctly rounded reference digits + the verdict within|outside the oracle's allowance
// result of ar: the 16 hex digits of the result (modf: "frac int")
//
// oracle of pf (independent of the Lean model):
//   * returned value == number of callback calls
//   * non-finite argument: text == host glibc (inf/nan rules of ISO C)
//   * finite argument: ISO shape by the classifier below (sign, padding kind and
//     amount, digit counts, exponent form, %g style rules), parsed back with
//     strtold to within half a unit of the last digit demanded by the directive
//     plus an allowance of K ulps of the argument (K = ALLOW_BASE + one per
//     arithmetic scaling step the conversion needs, see allow_ulps()), and
//     byte-equal to glibc snprintf whenever the unit of the last digit is
//     coarser than that allowance and the argument is not within the allowance
//     of a rounding tie
//   * termination: 3 s watchdog (hv::arm); memory safety: print_f's 'buff' is a
//     stack array, the translation unit is compiled with ASan
// Round 3b (wall time): this translation unit contains NO igris code (the engine is compiled from
// igris/util/printf_impl.c and the two twin files, with the optimisation level and the sanitizers of bin/check);
// the generator, the oracle and the dispatcher do not need -O1 - under ASan/UBSan the optimiser spent 15 of the
// 21 s of the compile on them.
#pragma GCC optimize("O0")
#include "common/hv.h"
#include <cstdarg>
#include <climits>
#include <cmath>
#include <cfloat>
#include <algorithm>
#include <igris/util/printf_impl.h>
#include <gmpxx.h>
#include <semaphore>
#include <thread>

// harness/C13_twin.c: second compilation of printf_impl.c (constants, type widths, print_f itself)
extern "C"
{
    long c13_const(int i);
    int c13_have_print_f(void);
    int c13_print_f(void (*h)(void *, int), void *d, long double r, int width, int precision, unsigned int ops,
                    int base, int with_exp, int is_shortened);
    // harness/C13_ld.c: third compilation with -DLONG_DOUBLE (DOUBLE = long double)
    int c13_ld_printf(void (*h)(void *, int), void *d, const char *format, va_list args);
    long c13_ld_const(int i);
}

using namespace hv;
typedef std::vector<uint8_t> bytes;

static_assert(sizeof(double) == 8 && sizeof(long double) == 16 && LDBL_MANT_DIG == 64, "x86-64 SysV assumed");

static double of_bits(uint64_t b)
{
    double d;
    memcpy(&d, &b, 8);
    return d;
}
static uint64_t bits_of(double d)
{
    uint64_t b;
    memcpy(&b, &d, 8);
    return b;
}

// ---------------------------------------------------------------- the shim
struct Sink
{
    bytes out;
    long calls = 0;
    // round 3: something that happens inside the callback, right after character number hook_at (0-based)
    long hook_at = -1;
    void (*hook)(void *) = 0;
    void *hook_arg = 0;
    bool hook_fired = false;
};
static void sink_cb(void *d, int c)
{
    Sink *s = (Sink *)d;
    s->calls++;
    s->out.push_back((uint8_t)c);
    if (s->hook && s->calls - 1 == s->hook_at)
    {
        s->hook_fired = true;
        s->hook(s->hook_arg);
    }
}
static int shim(Sink *s, const char *fmt, ...)
{
    va_list ap;
    va_start(ap, fmt);
    int r = __printf(sink_cb, s, fmt, ap);
    va_end(ap);
    return r;
}
static int gshim(char *buf, size_t n, const char *fmt, ...)
{
    va_list ap;
    va_start(ap, fmt);
    int r = vsnprintf(buf, n, fmt, ap);
    va_end(ap);
    return r;
}

// ---------------------------------------------------------------- directive classifier
struct Dir
{
    bool ok = false;
    bool minus = false, plus = false, space = false, hash = false, zero = false;
    long width = 0;
    bool has_prec = false;
    long prec = 0;
    char conv = 0;
    int stars = 0;
    std::string pre, post; // literal text around the directive
};

// "<literal>%[flags][width][.prec][l]conv<literal>", at most one directive
static Dir parse_dir(const std::string &f, const std::vector<long> &star)
{
    Dir d;
    size_t i = f.find('%');
    if (i == std::string::npos)
        return d;
    d.pre = f.substr(0, i);
    i++;
    for (; i < f.size(); i++)
    {
        if (f[i] == '-') d.minus = true;
        else if (f[i] == '+') d.plus = true;
        else if (f[i] == ' ') d.space = true;
        else if (f[i] == '#') d.hash = true;
        else if (f[i] == '0') d.zero = true;
        else break;
    }
    if (i < f.size() && f[i] == '*')
    {
        if ((size_t)d.stars >= star.size()) return d;
        d.width = star[d.stars++];
        if (d.width < 0) { d.minus = true; d.width = -d.width; }
        i++;
    }
    else
        while (i < f.size() && isdigit((unsigned char)f[i])) d.width = d.width * 10 + (f[i++] - '0');
    if (i < f.size() && f[i] == '.')
    {
        i++;
        d.has_prec = true;
        if (i < f.size() && f[i] == '*')
        {
            if ((size_t)d.stars >= star.size()) return d;
            d.prec = star[d.stars++];
            if (d.prec < 0) { d.has_prec = false; d.prec = 0; }
            i++;
        }
        else
            while (i < f.size() && isdigit((unsigned char)f[i])) d.prec = d.prec * 10 + (f[i++] - '0');
    }
    if (i < f.size() && (f[i] == 'l' || f[i] == 'L')) i++;
    if (i >= f.size()) return d;
    d.conv = f[i++];
    if (!strchr("fFeEgG", d.conv)) return d;
    d.post = f.substr(i);
    if (d.post.find('%') != std::string::npos) return d;
    d.ok = true;
    return d;
}

static long double ulp_of(double x)
{
    x = fabs(x);
    if (x < DBL_MIN) return ldexpl(1.0L, -1074);
    int e;
    frexp(x, &e); // x = m * 2^e, m in [0.5,1)
    return ldexpl(1.0L, e - 53);
}

static long double pow10l_(long n) { return powl(10.0L, (long double)n); }

// Number of rounded arithmetic steps print_f needs for this argument: one
// division/multiplication by ten per decimal exponent step in the %e/%g
// normalisation, one multiplication per generated fraction digit, one division
// per emitted integer digit above 2^53.  Each step can add half an ulp.
static const long ALLOW_BASE = 4;
static long allow_ulps(const Dir &d, double x)
{
    long steps = 0;
    double a = fabs(x);
    long X = a == 0 ? 0 : (long)floorl(log10l((long double)a));
    char c = (char)tolower(d.conv);
    long P = d.has_prec ? d.prec : 6;
    if (c != 'f') steps += labs(X) + 1;
    long fracd;
    if (c == 'f') fracd = P;
    else if (c == 'e') fracd = P;
    else fracd = (P ? P : 1) + (X < 0 && X >= -4 ? -X : 0);
    // the fraction loop stops as soon as the scaled fraction is integral (>= 2^52)
    long lead = (c == 'f' || (c == 'g' && X >= -4)) && X < 0 ? -X : 0;
    steps += std::min(fracd, lead + 17);
    if (c != 'e' && X > 15) steps += X - 15;
    return ALLOW_BASE + steps;
}

struct Shape
{
    bool ok = true;
    std::string why;
    std::string num;  // canonical number text (no sign, no padding)
    bool style_e = false;
    long intd = 0, fracd = 0, expv = 0;
    bool has_dot = false;
};

// ISO C 7.21.6.1 shape of one f/e/g conversion of a finite value
static Shape check_shape(const Dir &d, const std::string &s, double x)
{
    Shape S;
    auto bad = [&](const std::string &w) { if (S.ok) { S.ok = false; S.why = w; } };
    bool neg = std::signbit(x);
    size_t n = s.size(), i = 0, L = 0, T = 0;
    while (i < n && s[i] == ' ') { i++; L++; }
    char sign = 0;
    if (i < n && (s[i] == '-' || s[i] == '+')) sign = s[i++];
    size_t j = n;
    while (j > i && s[j - 1] == ' ') { j--; T++; }
    std::string N = s.substr(i, j - i);
    // sign rules
    size_t signlen = 0;
    if (neg) { if (sign != '-') bad("missing -"); signlen = 1; }
    else if (d.plus) { if (sign != '+') bad("missing +"); signlen = 1; }
    else if (d.space) { if (sign || L < 1) bad("missing space sign"); signlen = 1; }
    else if (sign) bad("unexpected sign");
    size_t spsign = (!neg && !d.plus && d.space) ? 1 : 0;
    // zero padding
    size_t Z = 0;
    while (Z + 1 < N.size() && N[Z] == '0' && isdigit((unsigned char)N[Z + 1])) Z++;
    std::string C = N.substr(Z);
    S.num = C;
    size_t minimal = signlen + C.size();
    size_t want = std::max<size_t>((size_t)d.width, minimal);
    if (n != want) bad("total length " + std::to_string(n) + " != " + std::to_string(want));
    if (d.minus)
    {
        if (Z) bad("zero padding with -");
        if (L != spsign) bad("leading blanks with -");
    }
    else
    {
        if (T) bad("trailing blanks without -");
        if (d.zero) { if (L != spsign) bad("blank padding with 0 flag"); }
        else if (Z) bad("zero padding without 0 flag");
    }
    // the number itself
    size_t k = 0;
    while (k < C.size() && isdigit((unsigned char)C[k])) k++;
    S.intd = (long)k;
    if (k == 0) { bad("no integer digits"); return S; }
    if (k < C.size() && C[k] == '.')
    {
        S.has_dot = true;
        k++;
        size_t k0 = k;
        while (k < C.size() && isdigit((unsigned char)C[k])) k++;
        S.fracd = (long)(k - k0);
    }
    bool upper = isupper((unsigned char)d.conv);
    if (k < C.size() && (C[k] == 'e' || C[k] == 'E'))
    {
        if ((C[k] == 'E') != upper) bad("exponent letter case");
        S.style_e = true;
        k++;
        if (k >= C.size() || (C[k] != '+' && C[k] != '-')) { bad("exponent sign"); return S; }
        bool eneg = C[k] == '-';
        k++;
        size_t k0 = k;
        long ev = 0;
        while (k < C.size() && isdigit((unsigned char)C[k])) ev = ev * 10 + (C[k++] - '0');
        if (k - k0 < 2) bad("exponent has fewer than two digits");
        if (k - k0 > 2 && C[k0] == '0') bad("exponent has a superfluous zero");
        if (ev == 0 && eneg) bad("exponent -00");
        S.expv = eneg ? -ev : ev;
    }
    if (k != C.size()) { bad("trailing garbage in number"); return S; }
    char c = (char)tolower(d.conv);
    long P = d.has_prec ? d.prec : 6;
    std::string digs; // all digits
    for (char ch : C) { if (ch == 'e' || ch == 'E') break; if (isdigit((unsigned char)ch)) digs.push_back(ch); }
    bool allzero = digs.find_first_not_of('0') == std::string::npos;
    if (c == 'f')
    {
        if (S.style_e) bad("exponent in %f");
        if (S.fracd != P) bad("fraction digits " + std::to_string(S.fracd) + " != precision");
        if (S.has_dot != (P > 0 || d.hash)) bad("decimal point");
    }
    else if (c == 'e')
    {
        if (!S.style_e) bad("no exponent in %e");
        if (S.intd != 1) bad("mantissa integer part");
        if (S.fracd != P) bad("fraction digits " + std::to_string(S.fracd) + " != precision");
        if (S.has_dot != (P > 0 || d.hash)) bad("decimal point");
        if (x != 0 && C[0] == '0') bad("mantissa not normalised");
        if (x == 0 && (!allzero || S.expv != 0)) bad("zero");
    }
    else
    {
        long Pg = P == 0 ? 1 : P;
        if (!d.hash)
        {
            if (S.has_dot && S.fracd == 0) bad("%g: bare decimal point");
            if (S.fracd > 0 && C[(size_t)(S.intd + S.fracd)] == '0') bad("%g: trailing zero");
        }
        else if (!S.has_dot) bad("%#g: no decimal point");
        if (S.style_e)
        {
            if (S.intd != 1) bad("mantissa integer part");
            if (x != 0 && C[0] == '0') bad("mantissa not normalised");
            if (S.fracd > Pg - 1 || (d.hash && S.fracd != Pg - 1)) bad("%g: significant digits");
            if (!(S.expv < -4 || S.expv >= Pg)) bad("%g: style e with exponent in [-4,P)");
        }
        else
        {
            size_t nz = digs.find_first_not_of('0');
            long sig = allzero ? (S.fracd + 1) : (long)(digs.size() - nz);
            if (sig > Pg || (d.hash && sig != Pg)) bad("%g: significant digits " + std::to_string(sig));
            if (!allzero)
            {
                long X = (long)nz < S.intd ? S.intd - 1 - (long)nz : -((long)nz - S.intd + 1);
                if (!(X >= -4 && X < Pg)) bad("%g: style f with exponent outside [-4,P)");
            }
            if (S.intd > 1 && C[0] == '0') bad("leading zero");
        }
    }
    if (c != 'g' && !S.style_e && S.intd > 1 && C[0] == '0') bad("leading zero");
    return S;
}


// ---------------------------------------------------------------- ISO shape predicate
// C++ re-implementation of `isoShape` of lean/IgrisModel/C13/Shape.lean (ISO C 7.21.6.1 for
// f/e/g of a finite value): a decidable predicate on the text given the directive and the sign
// of the argument.  It judges the output of igris and of glibc (op pf), and the `sh`/`shm` ops
// compare this implementation with the Lean one on glibc texts and on mutated texts.
namespace iso
{
static bool is_dig(char c) { return c >= '0' && c <= '9'; }
static bool all_dig(const std::string &s) { for (char c : s) if (!is_dig(c)) return false; return true; }
static bool all_zero(const std::string &s) { for (char c : s) if (c != '0') return false; return true; }
// exponent part e±dd; returns false if malformed
static bool exp_shape(bool upper, const std::string &t, long &X)
{
    if (t.size() < 2) return false;
    char c = t[0], sg = t[1];
    std::string ds = t.substr(2);
    if (c != (upper ? 'E' : 'e')) return false;
    if (sg != '+' && sg != '-') return false;
    if (!all_dig(ds) || ds.size() < 2) return false;
    if (ds.size() != 2 && ds[0] == '0') return false;
    if (sg == '-' && all_zero(ds)) return false;
    // the value (the Lean side uses unbounded integers: saturate far above every exponent and precision)
    long v = 0;
    for (char ch : ds) { v = v * 10 + (ch - '0'); if (v > 1000000000L) v = 1000000000L; }
    X = sg == '-' ? -v : v;
    return true;
}
struct Parts { std::string intd, frac, rest; bool dot = false; };
static Parts split_num(const std::string &num)
{
    Parts p;
    size_t i = 0;
    while (i < num.size() && is_dig(num[i])) i++;
    p.intd = num.substr(0, i);
    if (i < num.size() && num[i] == '.')
    {
        p.dot = true;
        size_t j = i + 1;
        while (j < num.size() && is_dig(num[j])) j++;
        p.frac = num.substr(i + 1, j - i - 1);
        p.rest = num.substr(j);
    }
    else
        p.rest = num.substr(i);
    return p;
}
static long text_exp(const std::string &intd, const std::string &frac)
{
    if (intd != "0") return (long)intd.size() - 1;
    if (all_zero(frac)) return 0;
    size_t z = 0;
    while (z < frac.size() && frac[z] == '0') z++;
    return -(long)z - 1;
}
// conv: 'f' 'e' 'g'
static bool num_shape(char conv, bool hash, bool upper, long P, const std::string &num)
{
    Parts n = split_num(num);
    if (n.intd.empty()) return false;
    if (n.intd.size() != 1 && n.intd[0] == '0') return false;
    if (conv == 'f')
        return n.rest.empty() && (long)n.frac.size() == P && n.dot == (P > 0 || hash);
    if (conv == 'e')
    {
        if (n.intd.size() != 1 || (long)n.frac.size() != P || n.dot != (P > 0 || hash)) return false;
        long X;
        if (!exp_shape(upper, n.rest, X)) return false;
        return n.intd != "0" || (all_zero(n.frac) && X == 0);
    }
    long Pg = P == 0 ? 1 : P;
    if (hash) { if (!n.dot) return false; }
    else
    {
        if (n.dot && n.frac.empty()) return false;
        if (!n.frac.empty() && n.frac.back() == '0') return false;
    }
    if (n.rest.empty())
    {
        long X = text_exp(n.intd, n.frac);
        if (!(-4 <= X && X < Pg)) return false;
        return hash ? (long)n.frac.size() == Pg - 1 - X : (long)n.frac.size() <= Pg - 1 - X;
    }
    if (n.intd.size() != 1 || n.intd == "0") return false;
    long X;
    if (!exp_shape(upper, n.rest, X)) return false;
    if (!(X < -4 || Pg <= X)) return false;
    return hash ? (long)n.frac.size() == Pg - 1 : (long)n.frac.size() <= Pg - 1;
}
static bool shape(const Dir &d, bool neg, const std::string &out)
{
    char conv = (char)tolower(d.conv);
    bool upper = isupper((unsigned char)d.conv);
    long P = d.has_prec ? d.prec : 6;
    std::string sign = neg ? "-" : d.plus ? "+" : d.space ? " " : "";
    size_t n = out.size();
    for (size_t pad = 0; pad <= n; pad++)
    {
        if (pad + sign.size() > n) continue;
        if (!(pad == 0 || (long)n == d.width)) continue;
        if (!(d.width <= (long)n)) continue;
        size_t numlen = n - pad - sign.size();
        std::string num;
        bool ok;
        if (d.minus)
        {
            num = out.substr(sign.size(), numlen);
            ok = out == sign + num + std::string(pad, ' ');
        }
        else if (d.zero)
        {
            num = out.substr(sign.size() + pad);
            ok = out == sign + std::string(pad, '0') + num;
        }
        else
        {
            num = out.substr(pad + sign.size());
            ok = out == std::string(pad, ' ') + sign + num;
        }
        if (ok && num_shape(conv, d.hash, upper, P, num)) return true;
    }
    return false;
}
} // namespace iso

// ---------------------------------------------------------------- rounding ties (round 3)
// The property leaves the direction of an exact tie open.  Both sides of the correspondence apply the same
// canonicalisation to their own text (Lean: IgrisModel/C13/Tie.lean with Rat; here: GMP rationals - exact
// arithmetic, no floating point, no code of the model): with u = unit of the last digit demanded by the
// directive (from the exact decimal exponent of x), V = value of the text, the text is in the TIE CLASS iff
// x / 2^46 <= u / 4 and | |V - x| - u/2 | <= x / 2^46; in the class the result field is "T <lower neighbour as num/den>",
// outside it the text is compared byte for byte as before.  The oracle judges the real text in both cases.
namespace tie
{
static mpq_class pow10q(long e)
{
    mpz_class p;
    mpz_ui_pow_ui(p.get_mpz_t(), 10, (unsigned long)labs(e));
    return e >= 0 ? mpq_class(p) : mpq_class(mpz_class(1), p);
}
static long ilog10q(const mpq_class &q) // floor(log10 q), q > 0, exact
{
    // estimate from the bit lengths (q may be far outside the range of double), then correct by comparison
    long e = (long)floor(((double)mpz_sizeinbase(q.get_num().get_mpz_t(), 2) - (double)mpz_sizeinbase(q.get_den().get_mpz_t(), 2)) * 0.30102999566);
    while (pow10q(e) > q) e--;
    while (pow10q(e + 1) <= q) e++;
    return e;
}
static mpq_class text_value(const std::string &t)
{
    mpz_class n = 0, ex = 0;
    long fd = 0;
    bool dot = false, in_exp = false, exp_neg = false;
    for (char c : t)
    {
        bool dg = c >= '0' && c <= '9';
        if (in_exp)
        {
            if (c == '-') exp_neg = true;
            else if (dg) ex = ex * 10 + (c - '0');
        }
        else if (dg) { n = n * 10 + (c - '0'); if (dot) fd++; }
        else if (c == '.') dot = true;
        else if (c == 'e' || c == 'E') in_exp = true;
    }
    long e = ex.fits_slong_p() ? ex.get_si() : 1000000;
    if (e > 1000000) e = 1000000;
    return mpq_class(n) * pow10q((exp_neg ? -e : e) - fd);
}
// true: `res` = canonical result field
static bool canon(const Dir &d, double xd, const std::string &body, std::string &res)
{
    if (!std::isfinite(xd) || xd == 0) return false;
    long P = d.has_prec ? d.prec : 6;
    if (d.has_prec && d.prec > 5000) return false;
    mpq_class x(fabs(xd));
    char c = (char)tolower(d.conv);
    mpq_class u = c == 'f' ? pow10q(-P) : c == 'e' ? pow10q(ilog10q(x) - P) : pow10q(ilog10q(x) - (P == 0 ? 1 : P) + 1);
    mpq_class v = text_value(body);
    mpq_class w1 = x / mpq_class(mpz_class(1) << 46), w2 = u / 4;
    mpq_class dl = abs(abs(v - x) - u / 2);
    if (!(w1 <= w2 && dl <= w1)) return false;
    mpq_class lo = v > x ? mpq_class(v - u) : v;
    lo.canonicalize();
    res = "T " + lo.get_num().get_str() + "/" + lo.get_den().get_str();
    return true;
}
// the unit of the last digit is fine against the engine's accumulated error (the window above is not used):
// only there the question "did the engine see a tie" is asked
static bool fine(const Dir &d, double xd)
{
    if (!std::isfinite(xd) || xd == 0) return false;
    long P = d.has_prec ? d.prec : 6;
    if (d.has_prec && d.prec > 5000) return false;
    mpq_class x(fabs(xd));
    char c = (char)tolower(d.conv);
    mpq_class u = c == 'f' ? pow10q(-P) : c == 'e' ? pow10q(ilog10q(x) - P) : pow10q(ilog10q(x) - (P == 0 ? 1 : P) + 1);
    return u / 4 < x / mpq_class(mpz_class(1) << 46);
}
// The tie as the engine itself sees it: the scaling steps of print_f (normalisation by ten, fraction digits)
// run on the host FPU in double, then "is the fractional part of the scaled value exactly 1/2".  Needed where the
// unit of the last digit is finer than the accumulated error of those steps: there the tie is not a tie of the
// argument and cannot be recognised from x and the text.  Only decides which result fields are relaxed to "Tf";
// the oracle below judges the real text in every case.
static bool seen(const Dir &d, double xd)
{
    if (!std::isfinite(xd)) return false;
    volatile double r = fabs(xd), ip, fp, ep = 0;
    char c = (char)tolower(d.conv);
    bool with_exp = c == 'e', is_short = c == 'g';
    long precision = d.has_prec ? (is_short ? std::max(d.prec, 1L) : d.prec) : 6;
    double t;
    fp = modf(r, &t); ip = t;
    if (with_exp || is_short)
    {
        while (ip >= 10) { fp = modf((ip + fp) / 10, &t); ip = t; ep = ep + 1.0; }
        if (fp != 0.0)
            while (ip == 0.0) { fp = modf((ip + fp) * 10, &t); ip = t; ep = ep - 1.0; }
        if (ep < -4 || ep >= precision) with_exp = true;
    }
    if (!with_exp) { fp = modf(r, &t); ip = t; }
    precision -= is_short ? (with_exp ? 1 : (long)ep + 1) : 0;
    for (long sc = 0; sc < precision && sc < 340 && fmod(fp, 1.0) != 0.0; ++sc) fp = fp * 10;
    return fmod(fp, 1.0) == 0.5;
}
} // namespace tie


// ---------------------------------------------------------------- round 3c: the TOLERANT observable
// The property fixes the digits of a finite conversion only up to an allowance (half a unit of the last printed digit
// + a few ulps of the argument); the result field of a finite, non-zero conversion is therefore (the same on the side
// of the driver: lean/IgrisModel/C13/Canon.lean, there in Rat)
//   tier A (f, e, #g and the number of the routine's text has the structure of the reference number: the same counts of
//       integer / fraction / exponent digits, point, exponent letter)
//       "<ret> <hex of the routine's text with the number replaced by the REFERENCE number> <within|outside>"
//   tier B (g without #: the digit count after zero removal depends on the last digits; texts whose structure
//       differs from the reference: carry into the next power of ten, the %g style of finding C13-g-style-carry)
//       "S c<ret == emitted> i<iso::shape of the routine's text> <reference number> <within|outside>"
// REFERENCE number: the correctly rounded (half-even) decimal of the exact argument for the directive, in GMP
// rationals - a function of the input alone.  verdict: the routine's OWN text, read back exactly, within
// u/2 + K ulps of the argument (u from the exact decimal exponent of the argument, K = allow_ulps with the exact
// decimal exponent; `strict` as the oracle).  The oracle (judge) is unchanged and judges the real text.
namespace canon
{
using tie::pow10q;
using tie::ilog10q;
static mpz_class rhe(const mpq_class &q)
{
    mpz_class fl;
    mpz_fdiv_q(fl.get_mpz_t(), q.get_num_mpz_t(), q.get_den_mpz_t());
    mpq_class r = q - mpq_class(fl);
    int c = cmp(r, mpq_class(1, 2));
    if (c > 0) return fl + 1;
    if (c < 0) return fl;
    return mpz_even_p(fl.get_mpz_t()) ? fl : mpz_class(fl + 1);
}
static std::string mant(const mpz_class &n, long F, bool point)
{
    std::string ds = n.get_str();
    if ((long)ds.size() < F + 1) ds = std::string((size_t)(F + 1) - ds.size(), '0') + ds;
    return ds.substr(0, ds.size() - (size_t)F) + (F > 0 || point ? "." : "") + ds.substr(ds.size() - (size_t)F);
}
static std::string exp_field(bool upper, long X)
{
    std::string d = std::to_string(labs(X));
    if (d.size() < 2) d = "0" + d;
    return std::string(1, upper ? 'E' : 'e') + (X < 0 ? "-" : "+") + d;
}
static void ref_e(const mpq_class &x, long F, mpz_class &n, long &X)
{
    X = ilog10q(x);
    n = rhe(x / pow10q(X - F));
    mpz_class lim;
    mpz_ui_pow_ui(lim.get_mpz_t(), 10, (unsigned long)(F + 1));
    if (n >= lim) { n /= 10; X++; }
}
static std::string ref_num(char c, bool hash, bool upper, bool has_prec, long prec, const mpq_class &x)
{
    long P = has_prec ? prec : 6;
    mpz_class n;
    long X;
    if (c == 'f') return mant(rhe(x * pow10q(P)), P, hash);
    if (c == 'e') { ref_e(x, P, n, X); return mant(n, P, hash) + exp_field(upper, X); }
    long Pg = P == 0 ? 1 : P;
    ref_e(x, Pg - 1, n, X);
    if (X < -4 || X >= Pg) return mant(n, Pg - 1, hash) + exp_field(upper, X);
    long F = Pg - 1 - X;
    return mant(rhe(x * pow10q(F)), F, hash);
}
static mpq_class pow2q(long e)
{
    mpz_class p = mpz_class(1) << (unsigned long)labs(e);
    return e >= 0 ? mpq_class(p) : mpq_class(mpz_class(1), p);
}
static mpq_class ulp_q(double ax)
{
    if (ax < DBL_MIN) return pow2q(-1074);
    int e;
    frexp(ax, &e);
    return pow2q(e - 53);
}
static long allow_exact(char c, bool has_prec, long prec, const mpq_class &x, bool strict)
{
    if (strict) return ALLOW_BASE;
    long X = ilog10q(x), P = has_prec ? prec : 6, steps = 0;
    if (c != 'f') steps += labs(X) + 1;
    long fracd = c == 'g' ? (P ? P : 1) + (X < 0 && X >= -4 ? -X : 0) : P;
    long lead = (c == 'f' || (c == 'g' && X >= -4)) && X < 0 ? -X : 0;
    steps += std::min(fracd, lead + 17);
    if (c != 'e' && X > 15) steps += X - 15;
    return ALLOW_BASE + steps;
}
// structure of a number text: digits -> d, sign of the exponent -> s (the exponent VALUE is judged by the verdict: an
// argument within the allowance of a power of ten may be printed 9.99..e-20 or 1.00..e-19)
static std::string mask_num(const std::string &t)
{
    std::string r = t;
    for (size_t i = 0; i < r.size(); i++)
    {
        if (r[i] >= '0' && r[i] <= '9') r[i] = 'd';
        else if (r[i] == '+' || r[i] == '-') r[i] = 's';
    }
    return r;
}
static bool subst_ref(const std::string &body, const std::string &R, std::string &res)
{
    size_t i = 0, n = body.size();
    while (i < n && body[i] == ' ') i++;
    size_t sg = i;
    if (i < n && (body[i] == '+' || body[i] == '-')) i++;
    size_t j = n;
    while (j > i && body[j - 1] == ' ') j--;
    std::string N = body.substr(i, j - i);
    if (N.size() < R.size()) return false;
    size_t Z = N.size() - R.size();
    for (size_t k = 0; k < Z; k++) if (N[k] != '0') return false;
    if (mask_num(N.substr(Z)) != mask_num(R)) return false;
    (void)sg;
    res = body.substr(0, i) + N.substr(0, Z) + R + body.substr(j);
    return true;
}
// Long texts (precision up to 400 000 in the pfd ops): every finite binary64 has at most 1074 fraction digits (767
// significant digits); a fraction longer than FCAP digits whose digits beyond FCAP are all zeros is cut to FCAP digits,
// in the routine's text and in the reference alike (reference at a precision capped at PCAP).
static const size_t FCAP = 1100;
static const long PCAP = 1200;
static std::string cut_frac(const std::string &body)
{
    size_t a = body.find('.');
    if (a == std::string::npos) return body;
    size_t e = a + 1;
    while (e < body.size() && body[e] >= '0' && body[e] <= '9') e++;
    size_t fl = e - a - 1;
    if (fl <= FCAP) return body;
    for (size_t k = a + 1 + FCAP; k < e; k++) if (body[k] != '0') return body;
    return body.substr(0, a + 1 + FCAP) + body.substr(e);
}
// applies: finite, non-zero, width <= 5000.  `tierA` / `within_` report the tier and the verdict (tags)
static bool applies(const Dir &d, double x)
{
    return d.ok && std::isfinite(x) && x != 0 && d.width <= 5000;
}
static std::string line(const Dir &d, double xd, int ret, const bytes &out, bool strict, bool *tierA = 0, bool *within_ = 0)
{
    std::string outs(out.begin(), out.end());
    std::string body0 = outs.substr(d.pre.size(), outs.size() - d.pre.size() - d.post.size());
    std::string body = cut_frac(body0);
    char c = (char)tolower(d.conv);
    bool upper = isupper((unsigned char)d.conv);
    long precC = d.prec > PCAP ? PCAP : d.prec;
    long P = d.has_prec ? precC : 6;
    mpq_class x(fabs(xd));
    mpq_class u = c == 'f' ? pow10q(-P) : c == 'e' ? pow10q(ilog10q(x) - P) : pow10q(ilog10q(x) - (P == 0 ? 1 : P) + 1);
    mpq_class err = abs(tie::text_value(body) - x);
    bool in = err <= u / 2 + mpq_class(allow_exact(c, d.has_prec, precC, x, strict)) * ulp_q(fabs(xd));
    std::string v = in ? "within" : "outside";
    if (within_) *within_ = in;
    if (tierA) *tierA = false;
    std::string b;
    if (!(c == 'g' && !d.hash) && subst_ref(body, cut_frac(ref_num(c, d.hash, upper, d.has_prec, precC, x)), b))
    {
        if (tierA) *tierA = true;
        std::string t = d.pre + b + d.post;
        return std::to_string(ret) + " " + hex(bytes(t.begin(), t.end())) + " " + v;
    }
    return std::string("S c") + (ret == (int)out.size() ? "1" : "0") + " i" +
           (body0.size() > 6000 ? "-" : iso::shape(d, std::signbit(xd), body0) ? "1" : "0") + " " +
           cut_frac(ref_num(c, true, upper, d.has_prec, precC, x)) + " " + v;
}
} // namespace canon

// unit of the last digit the directive asks for, given what was printed
static long double unit_of(const Dir &d, const Shape &S, double x)
{
    char c = (char)tolower(d.conv);
    long P = d.has_prec ? d.prec : 6;
    if (c == 'f') return pow10l_(-P);
    if (c == 'e') return pow10l_(S.expv - P);
    long Pg = P == 0 ? 1 : P;
    if (S.style_e) return pow10l_(S.expv - (Pg - 1));
    // style f of %g: decimal exponent of the printed value
    std::string digs;
    for (char ch : S.num) if (isdigit((unsigned char)ch)) digs.push_back(ch);
    size_t nz = digs.find_first_not_of('0');
    long X;
    if (nz == std::string::npos)
        X = x == 0 ? 0 : (long)floorl(log10l(fabsl((long double)x)));
    else
        X = (long)nz < S.intd ? S.intd - 1 - (long)nz : -((long)nz - S.intd + 1);
    return pow10l_(X - (Pg - 1));
}

// `strict` (op pfs): the allowance is ALLOW_BASE ulps for every argument; used by the
// probes of finding C13-ulp-drift
static long double ld_of(unsigned se, uint64_t m)
{
    long double v = 0;
    unsigned char b[16] = {0};
    memcpy(b, &m, 8);
    b[8] = (unsigned char)(se & 0xff);
    b[9] = (unsigned char)(se >> 8);
    memcpy(&v, b, 10);
    return v;
}

static void judge(const Dir &d, double x, int ret, const Sink &s, const std::string &refs, bool strict, out &o);

static void run_pf(const std::vector<std::string> &w, out &o, bool strict, bool isL = false)
{
    if (w.size() < (isL ? 4u : 3u)) { o.result = "bad-op"; o.fail("bad op"); return; }
    bytes fb = unhex(w[1]);
    std::string fmt(fb.begin(), fb.end());
    long double ld = 0;
    double x;
    if (isL)
    {
        ld = ld_of((unsigned)strtoul(w[2].c_str(), 0, 16), strtoull(w[3].c_str(), 0, 16));
        volatile double nx = (double)ld; // the narrowing print_f performs
        x = nx;
        if (fmt.find('L') == std::string::npos) { o.result = "bad-op"; o.fail("pfL without L"); return; }
        o.tag("L");
        if (std::isfinite(ld) && !std::isfinite(x)) o.tag("L-overflow");
        if (ld != 0 && x == 0) o.tag("L-underflow");
        if ((long double)x != ld) o.tag("L-inexact");
    }
    else
        x = of_bits(strtoull(w[2].c_str(), 0, 16));
    std::vector<long> star;
    for (size_t i = isL ? 4 : 3; i < w.size(); i++) star.push_back(strtol(w[i].c_str(), 0, 10));
    Dir d = parse_dir(fmt, star);
    if (!d.ok || (size_t)d.stars != star.size()) { o.result = "bad-op"; o.fail("bad op"); return; }

    exact_buf fz(bytes(fmt.begin(), fmt.end()), 0);
    bytes fzv(fmt.begin(), fmt.end());
    fzv.push_back(0);
    exact_buf fbuf(fzv);
    Sink s;
    int ret;
    if (isL)
    {
        if (star.size() == 0) ret = shim(&s, (const char *)fbuf.p, ld);
        else if (star.size() == 1) ret = shim(&s, (const char *)fbuf.p, (int)star[0], ld);
        else ret = shim(&s, (const char *)fbuf.p, (int)star[0], (int)star[1], ld);
        // reference: glibc on the narrowed value with the same directive without L
        fmt.erase(fmt.find('L'), 1);
    }
    else if (star.size() == 0) ret = shim(&s, (const char *)fbuf.p, x);
    else if (star.size() == 1) ret = shim(&s, (const char *)fbuf.p, (int)star[0], x);
    else ret = shim(&s, (const char *)fbuf.p, (int)star[0], (int)star[1], x);
    o.result = std::to_string(ret) + " " + hex(s.out);
    std::vector<char> ref(8192);
    int rn;
    if (star.size() == 0) rn = gshim(ref.data(), ref.size(), fmt.c_str(), x);
    else if (star.size() == 1) rn = gshim(ref.data(), ref.size(), fmt.c_str(), (int)star[0], x);
    else rn = gshim(ref.data(), ref.size(), fmt.c_str(), (int)star[0], (int)star[1], x);
    std::string refs(ref.data(), (size_t)std::min<long>(rn, (long)ref.size() - 1));
    judge(d, x, ret, s, refs, strict, o);
}

// tags + oracle of one floating conversion (d = the directive, x = the argument as print_f sees it after the
// narrowing, refs = the text of the host C library); also replaces o.result by the tie-class form
static void judge(const Dir &d, double x, int ret, const Sink &s, const std::string &refs, bool strict, out &o)
{
    // ---- tags
    { char t[8] = {d.conv, 0}; o.tag(t); }
    if (d.minus) o.tag("minus");
    if (d.plus) o.tag("plus");
    if (d.space) o.tag("space");
    if (d.hash) o.tag("hash");
    if (d.zero) o.tag("zero");
    if (d.width) o.tag("width");
    if (d.stars) o.tag("star");
    if (d.has_prec) o.tag(d.prec == 0 ? "prec0" : d.prec > 17 ? "prec-big" : "prec");
    if (std::isnan(x)) o.tag("nan");
    else if (std::isinf(x)) o.tag("inf");
    else if (x == 0) o.tag("zero-value");
    else if (fabs(x) < DBL_MIN) o.tag("denormal");
    else if (fabs(x) >= 1e64) o.tag("huge");
    else if (fabs(x) < 1e-64) o.tag("tiny");
    if (std::signbit(x)) o.tag("negative");

    // ---- oracle
    if (ret != (int)s.calls) o.fail("returned " + std::to_string(ret) + " but emitted " + std::to_string(s.calls));
    std::string outs(s.out.begin(), s.out.end());
    if (outs.size() < d.pre.size() + d.post.size() || outs.compare(0, d.pre.size(), d.pre) != 0 ||
        outs.compare(outs.size() - d.post.size(), d.post.size(), d.post) != 0)
    {
        o.fail("literal text around the directive lost");
        return;
    }
    std::string body = outs.substr(d.pre.size(), outs.size() - d.pre.size() - d.post.size());
    if (!std::isfinite(x))
    {
        if (outs != refs) o.fail("non-finite argument: igris <" + outs + "> ISO/glibc <" + refs + ">");
        return;
    }
    {
        // round 3c: the tie classes of round 3 are tags only; the result field is the tolerant observable
        std::string canon;
        if (tie::canon(d, x, body, canon)) o.tag("tie-class");
        else if (tie::fine(d, x) && tie::seen(d, x)) o.tag("tie-seen-fine");
        if (canon::applies(d, x))
        {
            bool ta = false, in = false;
            o.result = canon::line(d, x, ret, s.out, strict, &ta, &in);
            o.tag(ta ? "obs-tierA" : "obs-tierB");
            o.tag(in ? "obs-within" : "obs-outside");
        }
    }
    Shape S = check_shape(d, body, x);
    if (!S.ok) { o.fail("shape: " + S.why + " igris <" + outs + "> glibc <" + refs + ">"); return; }
    // the ISO shape predicate of Shape.lean (C++ re-implementation) on igris' text and on glibc's
    if (!iso::shape(d, std::signbit(x), body)) { o.fail("iso shape predicate rejects igris <" + outs + "> glibc <" + refs + ">"); return; }
    if (refs.size() >= d.pre.size() + d.post.size() &&
        !iso::shape(d, std::signbit(x), refs.substr(d.pre.size(), refs.size() - d.pre.size() - d.post.size())))
    { o.fail("iso shape predicate rejects glibc <" + refs + ">"); return; }
    o.tag("iso-shape");
    if (S.style_e) o.tag(S.expv < 0 ? "exp-neg" : S.expv > 99 ? "exp-3digit" : "exp-pos");
    long double parsed = strtold(S.num.c_str(), 0);
    long double ax = fabsl((long double)x);
    long double unit = unit_of(d, S, x);
    long double ulp = ulp_of(x);
    long K = strict ? ALLOW_BASE : allow_ulps(d, x);
    long double err = fabsl(parsed - ax);
    // strtold itself rounds to 64 bits: 2^-11 ulp of a double, plus the same for the subtraction
    long double slack = ulp / 512;
    if (err > unit / 2 + K * ulp + slack)
    {
        char b[256];
        snprintf(b, sizeof b, "accuracy: |parsed-x| = %.3Lg units (%.1Lf ulp over half a unit, allowance %ld) igris <%s> glibc <%s>",
                 err / unit, (err - unit / 2) / ulp, K, outs.c_str(), refs.c_str());
        o.fail(b);
        return;
    }
    if (err > unit / 2 + slack)
    {
        long double ex = (err - unit / 2) / ulp;
        o.tag("beyond-half-unit");
        o.tag(ex <= 1 ? "excess-le1ulp" : ex <= 4 ? "excess-le4ulp" : ex <= 16 ? "excess-le16ulp" : "excess-gt16ulp");
    }
    if (outs == refs) { o.tag("eq-glibc"); return; }
    // differs from glibc: legitimate only if the unit of the last digit is finer
    // than the ulp allowance, or the argument is within the allowance of a tie
    // (the unit is taken from igris' text and from glibc's: at a power of ten they differ)
    auto tie_dist = [&](long double u) {
        long double t = ax / u;             // position in units of the last digit
        long double fr = t - floorl(t);     // fine for the magnitudes where unit >> ulp
        return fabsl(fr - 0.5L) * u;
    };
    long double dist_tie = tie_dist(unit);
    if (refs.size() >= d.pre.size() + d.post.size())
    {
        Shape G = check_shape(d, refs.substr(d.pre.size(), refs.size() - d.pre.size() - d.post.size()), x);
        if (G.ok) dist_tie = std::min(dist_tie, tie_dist(unit_of(d, G, x)));
    }
    bool fine = unit <= 8 * K * ulp;
    bool near_tie = dist_tie <= K * ulp + slack;
    // %g: the style is chosen from the exponent after rounding (ISO); near a
    // power of ten the two styles are both one rounding away
    if (fine) o.tag("ne-glibc-fine");
    else if (near_tie) o.tag(dist_tie == 0 ? "ne-glibc-exact-tie" : "ne-glibc-near-tie");
    else o.fail("differs from glibc away from a tie: igris <" + outs + "> glibc <" + refs + ">");
}

// %a / %A: ISO C 7.21.6.1 — [-]0xh.hhhhp±d, the exponent is a DECIMAL power of TWO; parsed back
// with strtod the text must give the argument (exactly, when the precision is omitted)
static void run_pfa(const std::vector<std::string> &w, out &o)
{
    if (w.size() < 3) { o.result = "bad-op"; o.fail("bad op"); return; }
    bytes fb = unhex(w[1]);
    std::string fmt(fb.begin(), fb.end());
    double x = of_bits(strtoull(w[2].c_str(), 0, 16));
    bytes fzv(fmt.begin(), fmt.end());
    fzv.push_back(0);
    exact_buf fbuf(fzv);
    Sink s;
    int ret = shim(&s, (const char *)fbuf.p, x);
    o.result = std::to_string(ret) + " " + hex(s.out);
    o.tag("hex-float");
    if (ret != (int)s.calls) o.fail("returned " + std::to_string(ret) + " but emitted " + std::to_string(s.calls));
    std::string outs(s.out.begin(), s.out.end());
    char ref[128];
    gshim(ref, sizeof ref, fmt.c_str(), x);
    char *e = 0;
    double back = strtod(outs.c_str(), &e);
    if (*e || back != x) o.fail("hex float: igris <" + outs + "> parses back to " + std::to_string(back) + ", glibc <" + ref + ">");
}


// sh / shm <fmt-hex> <neg> <text-hex> [stars]: the ISO shape predicate on a given text (sh: a text
// glibc printed for this directive - the predicate must accept it; shm: a mutated text - only the
// agreement of the C++ and the Lean implementation is checked)
static void run_sh(const std::vector<std::string> &w, out &o, bool mutated)
{
    if (w.size() < 4) { o.result = "bad-op"; o.fail("bad op"); return; }
    bytes fb = unhex(w[1]);
    std::string fmt(fb.begin(), fb.end());
    bool neg = w[2] == "1";
    bytes tb = w[3] == "-" ? bytes() : unhex(w[3]);
    std::string text(tb.begin(), tb.end());
    std::vector<long> star;
    for (size_t i = 4; i < w.size(); i++) star.push_back(strtol(w[i].c_str(), 0, 10));
    Dir d = parse_dir(fmt, star);
    if (!d.ok || (size_t)d.stars != star.size() || !d.pre.empty() || !d.post.empty()) { o.result = "bad-op"; o.fail("bad op"); return; }
    bool r = iso::shape(d, neg, text);
    o.result = r ? "1" : "0";
    o.tag(mutated ? "sh-mutated" : "sh-glibc");
    o.tag(r ? "sh-accept" : "sh-reject");
    if (!mutated && !r) o.fail("iso shape predicate rejects the glibc text <" + text + "> of " + fmt);
}

static void run_ar(const std::vector<std::string> &w, out &o)
{
    if (w.size() < 3) { o.result = "bad-op"; o.fail("bad op"); return; }
    const std::string &op = w[1];
    if (op == "cvt" && w.size() >= 4)
    {
        o.tag("ar-cvt");
        volatile long double l = ld_of((unsigned)strtoul(w[2].c_str(), 0, 16), strtoull(w[3].c_str(), 0, 16));
        volatile double r = (double)l;
        double rr = r;
        o.result = std::isnan(rr) ? "nan" : hexn(bits_of(rr), 16);
        return;
    }
    auto B = [&](size_t i) { return of_bits(strtoull(w[i].c_str(), 0, 16)); };
    volatile double a, b = 0, r = 0;
    o.tag(("ar-" + op).c_str());
    if (op == "pow")
    {
        r = pow((double)strtol(w[2].c_str(), 0, 10), (double)strtol(w[3].c_str(), 0, 10));
        o.result = hexn(bits_of(r), 16);
        return;
    }
    a = B(2);
    if (w.size() > 3) b = B(3);
    if (op == "add") r = a + b;
    else if (op == "mul") r = a * b;
    else if (op == "div") r = a / b;
    else if (op == "fmod") r = fmod(a, b);
    else if (op == "round") r = (double)roundl((long double)a);
    else if (op == "modf")
    {
        double ip;
        double fp = modf(a, &ip);
        o.result = hexn(bits_of(fp), 16) + " " + hexn(bits_of(ip), 16);
        return;
    }
    else { o.result = "bad-op"; o.fail("bad op"); return; }
    double rr = r;
    // all NaNs are one value for the model
    o.result = std::isnan(rr) ? "nan" : hexn(bits_of(rr), 16);
}


// ---------------------------------------------------------------- round 3: result field of a floating piece
// "<ret> <hex>" or the tie-class form (see namespace tie); `star` as in pf
static std::string float_field(const std::string &fmt, const std::vector<long> &star, double x, int ret, const bytes &out)
{
    std::string raw = std::to_string(ret) + " " + hex(out);
    Dir d = parse_dir(fmt, star);
    if (!d.ok || !std::isfinite(x)) return raw;
    std::string outs(out.begin(), out.end());
    if (outs.size() < d.pre.size() + d.post.size()) return raw;
    std::string body = outs.substr(d.pre.size(), outs.size() - d.pre.size() - d.post.size());
    if (outs.compare(0, d.pre.size(), d.pre) != 0 || outs.compare(outs.size() - d.post.size(), d.post.size(), d.post) != 0) return raw;
    if (canon::applies(d, x)) return canon::line(d, x, ret, out, false);
    return raw;
}

// ---------------------------------------------------------------- round 3: re-entrancy (pfn)
// pfn <cb|th> <k> <kindA> <fmtA-hex> <argA> <kindB> <fmtB-hex> <argB>
//   kind d: a floating directive, arg = 16 hex digits of the double;  kind i: an integer / string directive of
//   the same engine (property C06 owns print_i / print_s), arg = i:<int> | l:<long> | s:<hex of the string>
//   cb: the printchar callback of conversion A, right after A's character number k (0-based), runs conversion B
//       through the same engine into a second sink and returns; A then continues
//   th: two threads; A's callback stops after character k until thread B has done its whole conversion
//   result: "<field A> | <field B>", "-" for B when A has no character number k (B is then not part of the result)
//   oracle: both texts and both return values are what the two conversions give when they run one after the other
struct Piece
{
    char kind = 0;
    std::string fmt;
    double x = 0;
    char ik = 0;
    long iv = 0;
    std::string sv;
    bool ok = false;
};
static Piece parse_piece(const std::string &kind, const std::string &f, const std::string &a)
{
    Piece p;
    bytes fb = unhex(f);
    p.fmt.assign(fb.begin(), fb.end());
    if (kind == "d") { p.kind = 'd'; p.x = of_bits(strtoull(a.c_str(), 0, 16)); p.ok = true; }
    else if (kind == "i" && a.size() >= 2 && a[1] == ':')
    {
        p.kind = 'i';
        p.ik = a[0];
        if (p.ik == 's') { bytes sb = unhex(a.substr(2)); p.sv.assign(sb.begin(), sb.end()); p.ok = true; }
        else if (p.ik == 'i' || p.ik == 'l') { p.iv = strtol(a.c_str() + 2, 0, 10); p.ok = true; }
    }
    return p;
}
static int call_piece(const Piece &p, Sink *s)
{
    if (p.kind == 'd') return shim(s, p.fmt.c_str(), p.x);
    if (p.ik == 's') return shim(s, p.fmt.c_str(), p.sv.c_str());
    if (p.ik == 'l') return shim(s, p.fmt.c_str(), (long)p.iv);
    return shim(s, p.fmt.c_str(), (int)p.iv);
}
static std::string piece_field(const Piece &p, int ret, const bytes &out)
{
    if (p.kind == 'd') return float_field(p.fmt, {}, p.x, ret, out);
    return std::to_string(ret) + " " + hex(out);
}
struct NestCtx
{
    const Piece *B;
    Sink *sb;
    int rb = -1;
};
static void nest_hook(void *a)
{
    NestCtx *c = (NestCtx *)a;
    c->rb = call_piece(*c->B, c->sb);
}
struct ThCtx
{
    std::binary_semaphore a_started{0}, b_done{0};
};
static void th_hook(void *a)
{
    ThCtx *c = (ThCtx *)a;
    c->a_started.release();
    c->b_done.acquire();
}
static void run_pfn(const std::vector<std::string> &w, out &o)
{
    if (w.size() < 9) { o.result = "bad-op"; o.fail("bad op"); return; }
    bool th = w[1] == "th";
    long k = strtol(w[2].c_str(), 0, 10);
    Piece A = parse_piece(w[3], w[4], w[5]), B = parse_piece(w[6], w[7], w[8]);
    if (!A.ok || !B.ok || k < 0) { o.result = "bad-op"; o.fail("bad op"); return; }
    Sink sa, sb;
    int ra = -1, rb = -1;
    sa.hook_at = k;
    if (!th)
    {
        NestCtx c;
        c.B = &B;
        c.sb = &sb;
        sa.hook = nest_hook;
        sa.hook_arg = &c;
        ra = call_piece(A, &sa);
        rb = c.rb;
        o.tag("nested-cb");
    }
    else
    {
        ThCtx c;
        sa.hook = th_hook;
        sa.hook_arg = &c;
        std::thread tb([&] { c.a_started.acquire(); rb = call_piece(B, &sb); c.b_done.release(); });
        std::thread ta([&] { ra = call_piece(A, &sa); if (!sa.hook_fired) c.a_started.release(); });
        ta.join();
        tb.join();
        o.tag("nested-threads");
    }
    bool ran = sa.hook_fired;
    o.tag(A.kind == 'd' ? (B.kind == 'd' ? "float-in-float" : "int-in-float") : (B.kind == 'd' ? "float-in-int" : "int-in-int"));
    o.tag(ran ? "inner-ran" : "inner-not-reached");
    o.result = piece_field(A, ra, sa.out) + " | " + (ran ? piece_field(B, rb, sb.out) : std::string("-"));
    // oracle: the two conversions one after the other
    Sink a0, b0;
    int ra0 = call_piece(A, &a0), rb0 = call_piece(B, &b0);
    auto str = [](const bytes &b) { return std::string(b.begin(), b.end()); };
    if (ra != (int)sa.calls) o.fail("outer: returned " + std::to_string(ra) + " but emitted " + std::to_string(sa.calls));
    if (ra != ra0 || sa.out != a0.out)
        o.fail("not re-entrant: the outer conversion gives <" + str(sa.out) + "> (ret " + std::to_string(ra) + ") with a conversion nested at character " +
               std::to_string(k) + ", <" + str(a0.out) + "> (ret " + std::to_string(ra0) + ") alone");
    if (ran && (rb != rb0 || sb.out != b0.out))
        o.fail("not re-entrant: the nested conversion gives <" + str(sb.out) + "> (ret " + std::to_string(rb) + "), <" + str(b0.out) + "> (ret " + std::to_string(rb0) + ") alone");
    if (ran && rb != (int)sb.calls) o.fail("inner: returned " + std::to_string(rb) + " but emitted " + std::to_string(sb.calls));
}

// ---------------------------------------------------------------- round 3: calls before main() (pm)
// an object with init_priority(101) formats a few doubles from its constructor - before main(), before the
// dynamic initialisers of this translation unit and of libstdc++'s iostreams - into plain static storage;
// the op `pm <i> <fmt-hex> <bits>` reports entry i (static-initialisation-order dependencies of the engine)
struct PmEntry { const char *fmt; uint64_t bits; };
static const PmEntry PM[] = {
    {"%f", 0x4045200000000000ull},      // 42.25
    {"%e", 0x44dfe154f457ea13ull},      // 6.02214076e23
    {"%g", 0x3f202e85be180b74ull},      // 0.0001234
    {"%10.3F", 0xc00921fb54442d18ull},  // -pi
    {"%+.0e", 0x4004000000000000ull},   // 2.5 (tie)
    {"%G", 0x7ff0000000000000ull},      // inf
    {"%-8f|", 0xfff8000000000000ull},   // -nan
    {"%.17g", 0x3fb999999999999aull},   // 0.1
    {"%.20f", 0x0000000000000001ull},   // 5e-324
    {"%e", 0x7fefffffffffffffull},      // DBL_MAX
};
static const int PM_N = (int)(sizeof PM / sizeof PM[0]);
struct PmSink { unsigned char text[512]; int n; };
static void pm_cb(void *d, int c)
{
    PmSink *s = (PmSink *)d;
    if (s->n < (int)sizeof s->text) s->text[s->n] = (unsigned char)c;
    s->n++;
}
static int pm_shim(PmSink *s, const char *fmt, ...)
{
    va_list ap;
    va_start(ap, fmt);
    int r = __printf(pm_cb, s, fmt, ap);
    va_end(ap);
    return r;
}
struct PreMain
{
    PmSink sink[16];
    int ret[16];
    int done;
    PreMain()
    {
        done = 0;
        for (int i = 0; i < PM_N; i++)
        {
            sink[i].n = 0;
            double x;
            memcpy(&x, &PM[i].bits, 8);
            ret[i] = pm_shim(&sink[i], PM[i].fmt, x);
            done++;
        }
    }
};
static PreMain g_premain __attribute__((init_priority(101)));
static void run_pm(const std::vector<std::string> &w, out &o)
{
    if (w.size() < 4) { o.result = "bad-op"; o.fail("bad op"); return; }
    long i = strtol(w[1].c_str(), 0, 10);
    bytes fb = unhex(w[2]);
    std::string fmt(fb.begin(), fb.end());
    uint64_t bits = strtoull(w[3].c_str(), 0, 16);
    if (i < 0 || i >= PM_N || fmt != PM[i].fmt || bits != PM[i].bits) { o.result = "bad-op"; o.fail("pm: entry does not match the table"); return; }
    o.tag("pre-main");
    if (g_premain.done != PM_N) { o.result = "pre-main-missing"; o.fail("the pre-main constructor did not run"); return; }
    const PmSink &ps = g_premain.sink[i];
    bytes txt(ps.text, ps.text + std::min<int>(ps.n, (int)sizeof ps.text));
    double x = of_bits(bits);
    o.result = float_field(fmt, {}, x, g_premain.ret[i], txt);
    if (g_premain.ret[i] != ps.n) o.fail("pre-main: returned " + std::to_string(g_premain.ret[i]) + " but emitted " + std::to_string(ps.n));
    Sink s;
    int r = shim(&s, fmt.c_str(), x);
    if (r != g_premain.ret[i] || s.out != txt)
        o.fail("the call before main() gave <" + std::string(txt.begin(), txt.end()) + ">, the same call now gives <" + std::string(s.out.begin(), s.out.end()) + ">");
}

// ---------------------------------------------------------------- round 3: constants of the compiled code (consts)
// Round 3b: every constant is read through the twin compilation ONLY IF the internal name still exists
// (c13_const() == C13_UNKNOWN otherwise); what the property makes observable is probed through the public entry:
//   FRAC_MAX    >= position of the last non-zero fraction digit of %.1000f of tiny doubles (digits beyond are zeros)
//   PREC_DEFAULT = number of fraction digits of %f
// and, where the macro exists too, macro and behaviour must agree.  EXP_MAX (not observable over binary64 as long as
// it is >= 3: judged by every %e op), PRINT_F_BUFF_SZ and the internal numbering of the OPS_ flag bits are NOT fixed
// by the property: tags, not compared (EXP_MAX and BUFF_SZ enter the compared relation buff_fits).
static const long C13_UNKNOWN = -1000000L;
static long probe_frac_max()
{
    static const uint64_t vals[] = {0x0000000000000001ull, 0x0010000000000000ull, 0x000fffffffffffffull, 0x01a56e1fc2f8f359ull /* 1e-300 */};
    long best = 0;
    for (uint64_t b : vals)
    {
        Sink s;
        shim(&s, "%.1000f", of_bits(b));
        std::string t(s.out.begin(), s.out.end());
        size_t dot = t.find('.');
        if (dot == std::string::npos) continue;
        size_t last = t.find_last_not_of('0');
        if (last != std::string::npos && last > dot) best = std::max(best, (long)(last - dot));
    }
    return best;
}
static long probe_prec_default()
{
    Sink s;
    shim(&s, "%f", 1.0);
    std::string t(s.out.begin(), s.out.end());
    size_t dot = t.find('.');
    return dot == std::string::npos ? 0 : (long)(t.size() - dot - 1);
}
static void run_consts(out &o)
{
    char b[512];
    long buff = c13_const(0), fmax = c13_const(1), emax = c13_const(2), pdef = c13_const(3), szd = c13_const(4);
    long fprobe = probe_frac_max(), pprobe = probe_prec_default();
    // PRINT_F_BUFF_SZ itself is not part of the compared result: the property does not fix the capacity, only that
    // nothing is stored outside it - what is compared (and judged below) is the relation print_f_safe_cfg needs;
    // the absolute size is a tag.  Without the macros: ASan's redzones around `buff` judge every op; neutral 1.
    long fits = 1;
    if (buff != C13_UNKNOWN && fmax != C13_UNKNOWN && emax != C13_UNKNOWN) fits = std::max(emax, 1L) + fmax + 7 <= buff;
    else o.tag("buff_fits=not-readable");
    // the probe is a LOWER bound (the 340th digit of a scaled denormal is a digit of a double above 2^53 and may be 0):
    // with the macro, no non-zero digit may appear beyond it; without it the neutral default is the model's value if the
    // probe does not contradict it (every pf op with a precision above 340 compares the digits themselves anyway)
    if (fmax == C13_UNKNOWN) o.tag("FRAC_MAX=default");
    else if (fprobe > fmax) o.fail("PRINT_F_FRAC_MAX is " + std::to_string(fmax) + " but %.1000f of a tiny double has a non-zero digit at fraction position " + std::to_string(fprobe));
    o.tag(("frac-probe=" + std::to_string(fprobe)).c_str());
    if (pdef == C13_UNKNOWN) o.tag("PREC_DEFAULT=probed");
    else if (pdef != pprobe) o.fail("PRINT_F_PREC_DEFAULT is " + std::to_string(pdef) + " but %f prints " + std::to_string(pprobe) + " fraction digits");
    if (szd == C13_UNKNOWN) o.tag("sizeof_DOUBLE=default");
    snprintf(b, sizeof b, "buff_fits=%ld FRAC_MAX=%ld PREC_DEFAULT=%ld sizeof_DOUBLE=%ld sizeof_int=%ld sizeof_long_double=%ld",
             fits, fmax == C13_UNKNOWN ? std::max(fprobe, 340L) : fmax, pdef == C13_UNKNOWN ? pprobe : pdef, szd == C13_UNKNOWN ? 8L : szd,
             c13_const(5), c13_const(14));
    if (buff != C13_UNKNOWN) o.tag(("BUFF_SZ=" + std::to_string(buff)).c_str());
    if (emax != C13_UNKNOWN) o.tag(("EXP_MAX=" + std::to_string(emax)).c_str());
    {
        std::string t = "ops=";
        for (int i = 6; i <= 13; i++) t += (i > 6 ? "/" : "") + (c13_const(i) == C13_UNKNOWN ? std::string("?") : std::to_string(c13_const(i)));
        o.tag(t.c_str());
    }
    o.tag(c13_have_print_f() ? "print_f=direct" : "print_f=through-public-entry");
    o.result = b;
    o.tag("consts");
    // the relation print_f_safe_cfg needs of the constants (Cfg.Fits)
    if (!fits) o.fail("PRINT_F_BUFF_SZ is smaller than max(EXP_MAX,1) + FRAC_MAX + 7");
}

// ---------------------------------------------------------------- round 3: print_f called directly (pfd)
// pfd <bits> <width> <precision> <ops-hex> <with_exp> <is_shortened>: widths, precisions and flag words beyond
// (round 3b: <ops-hex> is in the encoding of the OP LINE - 1 `-`, 2 `+`, 4 space, 8 `#`, 10 `0`, 20 precision given,
// 4000 upper case, 2000 `L` - and is translated by c13_print_f to whatever bit values the library uses)
// what a format string of the generator spells (precision up to 400 000: a 400 KB text; every flag on inf/nan)
static void run_pfd(const std::vector<std::string> &w, out &o)
{
    if (w.size() < 7) { o.result = "bad-op"; o.fail("bad op"); return; }
    double x = of_bits(strtoull(w[1].c_str(), 0, 16));
    long width = strtol(w[2].c_str(), 0, 10), precision = strtol(w[3].c_str(), 0, 10);
    unsigned ops = (unsigned)strtoul(w[4].c_str(), 0, 16);
    int we = atoi(w[5].c_str()), sh = atoi(w[6].c_str());
    if (width < 0 || precision < 0 || width > 5000 /* the shape predicate is quadratic in the padding */ || precision > 2000000 || (we && sh)) { o.result = "bad-op"; o.fail("bad op"); return; }
    Dir d;
    d.ok = true;
    d.minus = ops & 1; d.plus = ops & 2; d.space = ops & 4; d.hash = ops & 8; d.zero = ops & 16;
    d.has_prec = ops & 32;
    d.prec = d.has_prec ? precision : 0;
    d.width = width;
    d.conv = sh ? 'g' : we ? 'e' : 'f';
    if (ops & 0x4000) d.conv = (char)toupper(d.conv);
    Sink s;
    int ret = c13_print_f(sink_cb, &s, (long double)x, (int)width, (int)precision, ops, 10, we, sh);
    o.result = std::to_string(ret) + " " + hex(s.out);
    o.tag(c13_have_print_f() ? "direct" : "direct-through-public-entry");
    if (precision >= 300000 || width >= 300000) o.tag("long-300k");
    // reference text of the host library for the same directive
    std::string f = "%";
    if (d.minus) f += '-';
    if (d.plus) f += '+';
    if (d.space) f += ' ';
    if (d.hash) f += '#';
    if (d.zero) f += '0';
    if (width) f += std::to_string(width);
    if (d.has_prec) f += "." + std::to_string(precision);
    f += d.conv;
    std::vector<char> ref((size_t)(width + precision + 8192));
    int rn = snprintf(ref.data(), ref.size(), f.c_str(), x);
    std::string refs(ref.data(), (size_t)std::min<long>(rn, (long)ref.size() - 1));
    judge(d, x, ret, s, refs, false, o);
}


// ---------------------------------------------------------------- round 3: the LONG_DOUBLE flavour (pfx)
// pfx <fmt-hex> <se> <mant>: an `L` directive through the build of printf_impl.c with LONG_DOUBLE defined (the
// engine then computes in long double: modfl fmodl powl).  NOT modelled (the model's arithmetic is binary64): the
// result field is the constant "ld" on both sides; the ORACLE judges the real code: returned value = number of
// callbacks, ASan on the 352-byte buffer, inf/nan text = glibc, finite: strtold(text) within half a unit of the
// last printed digit + (16 + |decimal exponent| + digits) ulps of the 64-bit significand.
static int ld_shim(Sink *s, const char *fmt, ...)
{
    va_list ap;
    va_start(ap, fmt);
    int r = c13_ld_printf(sink_cb, s, fmt, ap);
    va_end(ap);
    return r;
}
static void run_pfx(const std::vector<std::string> &w, out &o)
{
    if (w.size() < 4) { o.result = "bad-op"; o.fail("bad op"); return; }
    bytes fb = unhex(w[1]);
    std::string fmt(fb.begin(), fb.end());
    long double v = ld_of((unsigned)strtoul(w[2].c_str(), 0, 16), strtoull(w[3].c_str(), 0, 16));
    Dir d = parse_dir(fmt, {});
    if (!d.ok || fmt.find('L') == std::string::npos) { o.result = "bad-op"; o.fail("bad op"); return; }
    Sink s;
    int ret = ld_shim(&s, fmt.c_str(), v);
    o.result = "ld";
    if (c13_ld_const(4) != (long)sizeof(long double))
    {
        // round 3b: the switch LONG_DOUBLE / the macro DOUBLE are internal names; without them there is no such flavour
        // to judge (the engine computes in double: the standards of the pf oracle apply, not those below)
        o.tag("long-double-flavour-absent");
        if (ret != (int)s.calls) o.fail("returned " + std::to_string(ret) + " but emitted " + std::to_string(s.calls));
        return;
    }
    o.tag("long-double-flavour");
    if (ret != (int)s.calls) o.fail("returned " + std::to_string(ret) + " but emitted " + std::to_string(s.calls));
    std::string outs(s.out.begin(), s.out.end());
    std::vector<char> ref(16384);
    int rn = snprintf(ref.data(), ref.size(), fmt.c_str(), v);
    std::string refs(ref.data(), (size_t)std::min<long>(rn, (long)ref.size() - 1));
    if (!std::isfinite(v))
    {
        if (outs != refs) o.fail("non-finite argument: igris <" + outs + "> ISO/glibc <" + refs + ">");
        return;
    }
    if (outs.size() < d.pre.size() + d.post.size()) { o.fail("literal text lost"); return; }
    std::string body = outs.substr(d.pre.size(), outs.size() - d.pre.size() - d.post.size());
    // value and unit of the printed text (exact)
    mpq_class tv = tie::text_value(body);
    size_t epos = body.find_first_of("eE");
    std::string mant = body.substr(0, epos);
    long fd = 0;
    { size_t dot = mant.find('.'); if (dot != std::string::npos) for (size_t i = dot + 1; i < mant.size() && isdigit((unsigned char)mant[i]); i++) fd++; }
    long ex = epos == std::string::npos ? 0 : strtol(body.c_str() + epos + 1, 0, 10);
    mpq_class unit = tie::pow10q(ex - fd);
    // the argument, exactly
    int e2;
    long double fr = frexpl(fabsl(v), &e2);
    mpz_class m64((unsigned long)ldexpl(fr, 64));
    mpq_class x(m64);
    if (e2 - 64 >= 0) x *= mpq_class(mpz_class(1) << (unsigned long)(e2 - 64)); else x /= mpq_class(mpz_class(1) << (unsigned long)(64 - e2));
    mpq_class ulp = v == 0 ? mpq_class(0) : mpq_class(x / mpq_class(mpz_class(1) << 63));
    long X = v == 0 ? 0 : tie::ilog10q(x);
    long P = d.has_prec ? d.prec : 6;
    mpq_class err = abs(tv - x);
    if (err > unit / 2 + (16 + labs(X) + P) * ulp)
    {
        mpq_class q = err / unit;
        o.fail("LONG_DOUBLE build: the text is about 1e" + std::to_string(tie::ilog10q(q)) + " units of its last digit away from the argument: igris <" + outs.substr(0, 80) + "> glibc <" + refs.substr(0, 80) + ">");
    }
    else if (outs == refs) o.tag("eq-glibc");
}

// ---------------------------------------------------------------- generator
struct Gen
{
    rng &R;
    explicit Gen(rng &r) : R(r) {}
    std::vector<double> special;

    static double nextup(double x, int k)
    {
        for (; k > 0; k--) x = nextafter(x, INFINITY);
        for (; k < 0; k++) x = nextafter(x, -INFINITY);
        return x;
    }
    double dec(const char *s) { return strtod(s, 0); }

    double value()
    {
        switch (R.below(16))
        {
        case 0: return R.pick(special);
        case 1: // power of ten and neighbours
        {
            char b[32];
            snprintf(b, sizeof b, "1e%ld", (long)R.range(-323, 308));
            return nextup(strtod(b, 0), (int)R.range(-2, 2));
        }
        case 2: // power of two and neighbours
            return nextup(ldexp(1.0, (int)R.range(-1074, 1023)), (int)R.range(-1, 1));
        case 3: // exact tie at digit j-1: odd / 2^j
        {
            int j = (int)R.range(1, 12);
            return ldexp((double)(2 * R.below(1u << R.range(1, 22)) + 1), -j);
        }
        case 4: // short decimal literal (classic near-ties: 1.005, 2.675, 0.285 ...)
        {
            char b[64];
            int nd = (int)R.range(1, 6);
            std::string m;
            for (int i = 0; i < nd; i++) m.push_back((char)('0' + R.below(10)));
            m.push_back('5');
            snprintf(b, sizeof b, "%ld.%s", (long)R.below(R.chance(50) ? 10 : 1000), m.c_str());
            return strtod(b, 0);
        }
        case 5: // carries: 9.99..9x, 0.99..95
        {
            char b[64];
            int nd = (int)R.range(1, 17);
            std::string m(nd, '9');
            m.push_back((char)('0' + R.below(10)));
            if (R.chance(50)) snprintf(b, sizeof b, "9.%se%ld", m.c_str(), (long)R.range(-20, 20));
            else snprintf(b, sizeof b, "%s.%s", R.chance(50) ? "0" : "99", m.c_str());
            return strtod(b, 0);
        }
        case 6: // integers, up to and beyond 2^53
            return (double)(R.next() >> R.range(0, 63));
        case 7: // decimal with random significant digits and exponent
        {
            char b[64];
            int nd = (int)R.range(1, 17);
            std::string m;
            for (int i = 0; i < nd; i++) m.push_back((char)('0' + R.below(10)));
            snprintf(b, sizeof b, "%ld.%se%ld", (long)R.range(1, 9), m.c_str(), (long)R.range(-30, 30));
            return strtod(b, 0);
        }
        case 8: // denormals
            return of_bits(R.next() >> R.range(12, 63));
        case 9: // %g style boundaries: around 1e-5, 1e-4, 10^P
        {
            static const char *t[] = {"0.0001", "0.00001", "0.000099999", "0.00009999995", "99999.95", "999999.5", "100000", "1000000", "123456.5", "0.1", "0.5", "0.30000000000000004", "5.12345678", "100", "1e10", "1.5e-7"};
            return nextup(strtod(t[R.below(16)], 0), (int)R.range(-1, 1));
        }
        case 10: // huge
            return of_bits(((uint64_t)R.range(1023 + 60, 2046) << 52) | (R.next() & ((1ull << 52) - 1)));
        default: // random bit pattern (uniform exponent), finite
        {
            uint64_t b = R.next();
            if (((b >> 52) & 0x7ff) == 0x7ff) b &= ~(1ull << 62);
            if (R.chance(60)) // moderate magnitudes are the common use
                b = (b & 0x800fffffffffffffull) | ((uint64_t)R.range(1023 - 40, 1023 + 70) << 52);
            return of_bits(b);
        }
        }
    }

    void init()
    {
        special = {0.0, -0.0, INFINITY, -INFINITY, NAN, -NAN, of_bits(1), of_bits(0x000fffffffffffffull), DBL_MIN, DBL_MAX, -DBL_MAX,
                   1.0, -1.0, 0.5, 1.5, 2.5, 0.125, 9.5, 10.0, 0.1, 0.2, 0.3, 1e15, 1e16, 1e17, 1e22, 1e23, 1e70, 1e-80, 1e100, 1e-100, 1e308, 1e-308,
                   9007199254740992.0, 9007199254740993.0, 4503599627370496.5, 123456789.0, 3.141592653589793, 2.718281828459045, 1e-5, 1e-4, 0.0001234,
                   99999.5, 999999.5, 0.999999, 0.9999995, 9.9999995, 42.25, 5e-324, 1.7976931348623157e308, 2.2250738585072014e-308, 1.0 / 3, 2.0 / 3};
    }

    std::string directive(std::vector<long> &star, char conv, int flagmask, int wk, int pk)
    {
        std::string f = "%";
        static const char fl[] = "-+ #0";
        // flags in random order, occasionally repeated
        std::vector<char> fs;
        for (int i = 0; i < 5; i++) if (flagmask & (1 << i)) fs.push_back(fl[i]);
        for (size_t i = fs.size(); i > 1; i--) std::swap(fs[i - 1], fs[R.below(i)]);
        for (char c : fs) f.push_back(c);
        // width
        static const long ws[] = {0, 1, 8, 12, 20, 30};
        if (wk == 6) { f.push_back('*'); star.push_back(R.range(-14, 24)); }
        else if (wk) f += std::to_string(ws[wk]);
        // precision: pk -1 none, -2 '.', -3 star, else literal
        if (pk == -2) f.push_back('.');
        else if (pk == -3) { f += ".*"; star.push_back(R.range(-2, 19)); }
        else if (pk >= 0) f += "." + std::to_string(pk);
        if (R.chance(15)) f.push_back('l');
        f.push_back(conv);
        return f;
    }

    // finding C13-g-style-carry: %g whose rounding to P significant digits carries into the
    // next decade, where that is visible (the style changes at X = P or X = -4, or `#`
    // keeps the trailing zeros).  Decided with glibc only (no igris code).
    static bool g_style_carry(const std::string &fmt, double x, const std::vector<long> &star)
    {
        Dir d = parse_dir(fmt, star);
        if (!d.ok || tolower(d.conv) != 'g' || !std::isfinite(x) || x == 0) return false;
        // also the near-tie variant: the argument is within the ulp allowance below the
        // tie, so that print_f's own rounding error makes it carry although glibc does not
        double up = fabs(x) * (1.0 + ldexp((double)allow_ulps(d, x), -51));
        return carry1(d, fabs(x)) || (std::isfinite(up) && carry1(d, up));
    }
    static bool carry1(const Dir &d, double x)
    {
        long P = d.has_prec ? (d.prec == 0 ? 1 : d.prec) : 6;
        if (P > 400) return false;
        char b[512];
        snprintf(b, sizeof b, "%.*e", (int)(P - 1), fabs(x));
        const char *e = strchr(b, 'e');
        if (!e || b[0] != '1') return false;
        for (const char *q = b + 1; q < e; q++) if (*q != '.' && *q != '0') return false;
        if (!((long double)fabs(x) < strtold(b, 0))) return false;
        long X = strtol(e + 1, 0, 10);
        return d.hash || X == P || X == -4;
    }

    void emit_pf(const std::string &fmt, double x, const std::vector<long> &star, const char *probe = 0)
    {
        if (!probe && g_style_carry(fmt, x, star)) probe = "C13-g-style-carry";
        std::string l = probe ? std::string("@F:") + probe + " " : "";
        l += "pf " + hex(fmt) + " " + hexn(bits_of(x), 16);
        for (long s : star) l += " " + std::to_string(s);
        puts(l.c_str());
    }

    // long double arguments of the L directives: doubles with extra low bits (the narrowing
    // rounds), exact halfway cases between two doubles, magnitudes beyond / below the double range
    long double ldvalue()
    {
        switch (R.below(8))
        {
        case 0: { static const long double t[] = {1e400L, -1e400L, 1e4000L, 1.7976931348623157e308L, 1.797693134862315807e308L, 1.797693134862315708e308L * (1 + 0x1p-54L), 1e-400L, -1e-4000L, 4.9e-324L, 2.4703282292062327e-324L, 2.4703282292062328e-324L, 3.6e-4951L, 0.0L, -0.0L, (long double)INFINITY, -(long double)INFINITY, (long double)NAN, 1.0L, 0.1L, 1.0L / 3}; return t[R.below(20)]; }
        case 1: { double d = value(); return (long double)d * (1 + ldexpl((long double)R.range(-1023, 1023), -63)); }
        case 2: { double d = value(); return ((long double)d + (long double)nextup(d, 1)) / 2; } // halfway
        case 3: return ldexpl((long double)(R.next() | (1ull << 63)), (int)R.range(-16445, 16320));  // any exponent
        case 4: return ldexpl((long double)(R.next() | (1ull << 63)), (int)R.range(960, 964));       // around DBL_MAX
        case 5: return ldexpl((long double)(R.next() | (1ull << 63)), (int)R.range(-1140, -1080));   // around the denormals
        default: return (long double)value();
        }
    }
    void emit_pfL(const std::string &fmt, long double v, const std::vector<long> &star)
    {
        double x = (double)v;
        if (g_style_carry(fmt, x, star)) return; // finding class: probes are emitted through pf
        unsigned char b[16] = {0};
        memcpy(b, &v, 10);
        uint64_t m;
        memcpy(&m, b, 8);
        unsigned se = b[8] | (b[9] << 8);
        std::string l = "pfL " + hex(fmt) + " " + hexn(se, 4) + " " + hexn(m, 16);
        for (long s : star) l += " " + std::to_string(s);
        puts(l.c_str());
    }
    void emit_cvt(long double v)
    {
        unsigned char b[16] = {0};
        memcpy(b, &v, 10);
        uint64_t m;
        memcpy(&m, b, 8);
        unsigned se = b[8] | (b[9] << 8);
        printf("ar cvt %s %s\n", hexn(se, 4).c_str(), hexn(m, 16).c_str());
    }

    int rand_prec()
    {
        switch (R.below(10))
        {
        case 0: return -1;
        case 1: return -2;
        case 2: return -3;
        case 3: return (int)R.pick(std::vector<int>{18, 20, 25, 30, 40, 60, 100, 340, 400});
        default: return (int)R.range(0, 17);
        }
    }
};

static const char CONVS[] = "fFeEgG";

static void gen(rng &R, const std::string &tier)
{
    bool thorough = tier == "thorough";
    Gen G(R);
    G.init();
    // ---- probes of the recorded findings (expected to FAIL the oracle)
    puts("@F:C13-g-style-carry pf 2567 412e847f00000000");   // %g 999999.5 -> 1000000 (ISO 1e+06)
    puts("@F:C13-g-style-carry pf 2567 3f1a36e2d51ec34b");   // %g 0.000099999995 -> 1e-04 (ISO 0.0001)
    puts("@F:C13-g-style-carry pf 252e3167 4023000000000000"); // %.1g 9.5 -> 10 (ISO 1e+01)
    puts("@F:C13-ulp-drift pfs 252e313765 6fbf7bc0388d6e12");  // %.17e 1.9093183950992952e+230
    puts("@F:C13-ulp-drift pfs 252e323545 f9993cee194f1223");  // %.25E -5.59e+277
    puts("@F:C13-hex-float pfa 2561 406ff00000000000");   // %a 255.5 -> 0xf.f80000000000p+1 (ISO 0x1.ffp+7)
    puts("@F:C13-hex-float pfa 2541 4415af1d78b58c40");   // %A 1e20 -> 0X5.6BC75E2D6310P+10
    puts("@F:C13-hex-float pfa 252e3361 3fb999999999999a"); // %.3a 0.1 -> 0x1.99ap-1 (ISO 0x1.99ap-4)
    // ---- arithmetic primitives (software binary64 of the model vs the FPU / libm)
    for (int n = 0; n <= 345; n++) printf("ar pow 10 %d\n", n);
    {
        long N = thorough ? 20000 : 2500;
        for (long i = 0; i < N; i++)
        {
            double a = G.value(), b = G.value();
            static const char *ops[] = {"add", "mul", "div", "fmod", "modf", "round"};
            const char *op = ops[R.below(6)];
            if (std::isnan(a)) a = 1.0;
            if (std::isnan(b)) b = 10.0;
            if (!strcmp(op, "add")) { if (R.chance(50)) { a = fabs(a); b = fabs(b); } }
            else if (!strcmp(op, "mul") || !strcmp(op, "div") || !strcmp(op, "fmod")) { if (R.chance(80)) b = R.chance(50) ? 10.0 : 1.0; }
            if (!strcmp(op, "fmod")) { if (!std::isfinite(b) || b == 0) b = 10.0; b = fabs(b); if (fabs(a) / b > 1e40 && b != 10.0 && b != 1.0) b = 10.0; }
            if (!strcmp(op, "modf") || !strcmp(op, "round")) printf("ar %s %s\n", op, hexn(bits_of(a), 16).c_str());
            else printf("ar %s %s %s\n", op, hexn(bits_of(a), 16).c_str(), hexn(bits_of(b), 16).c_str());
        }
    }
    // ---- the narrowing (double) of a long double, and the L directives
    {
        long N = thorough ? 4000 : 400;
        for (long i = 0; i < N; i++) G.emit_cvt(G.ldvalue());
        N = thorough ? 6000 : 500;
        for (long i = 0; i < N; i++)
        {
            std::vector<long> star;
            std::string f = G.directive(star, CONVS[R.below(6)], R.chance(60) ? 0 : (int)R.below(32), R.chance(60) ? 0 : (int)R.below(7), G.rand_prec());
            if (f.size() >= 2 && f[f.size() - 2] == 'l') f.erase(f.size() - 2, 1);
            f.insert(f.size() - 1, "L");
            G.emit_pfL(f, G.ldvalue(), star);
        }
    }
    // ---- the ISO shape predicate itself: C++ vs Lean implementation on glibc texts (must be
    //      accepted) and on mutations of them (typical malformations: exponent digits, point,
    //      zeros, padding, sign)
    {
        long N = thorough ? 30000 : 2500;
        for (long i = 0; i < N; i++)
        {
            std::vector<long> star;
            std::string f = G.directive(star, CONVS[R.below(6)], R.chance(40) ? 0 : (int)R.below(32), R.chance(50) ? 0 : (int)R.below(7), G.rand_prec());
            double x = G.value();
            if (!std::isfinite(x)) x = 1.5;
            char buf[2048];
            int n;
            if (star.size() == 0) n = gshim(buf, sizeof buf, f.c_str(), x);
            else if (star.size() == 1) n = gshim(buf, sizeof buf, f.c_str(), (int)star[0], x);
            else n = gshim(buf, sizeof buf, f.c_str(), (int)star[0], (int)star[1], x);
            if (n < 0 || n >= (int)sizeof buf) continue;
            std::string t(buf, (size_t)n);
            auto emit = [&](const char *op, const std::string &txt) {
                std::string l = std::string(op) + " " + hex(f) + " " + (std::signbit(x) ? "1" : "0") + " " + (txt.empty() ? std::string("-") : hex(txt));
                for (long sv : star) l += " " + std::to_string(sv);
                puts(l.c_str());
            };
            // glibc 2.36 itself misses ISO in the class of finding C13-g-style-carry with `#`: `%#G` of 999999.5
            // gives 1.E+06 (ISO 1.00000E+06) - there the text is only compared between the two implementations
            emit(Gen::g_style_carry(f, x, star) ? "shm" : "sh", t);
            int muts = (int)R.range(1, 3);
            for (int k = 0; k < muts; k++)
            {
                std::string m = t;
                size_t epos = m.find_first_of("eE");
                switch (R.below(12))
                {
                case 0: if (!m.empty()) m.erase(R.below(m.size()), 1); break;                         // drop a character
                case 1: if (!m.empty()) { size_t q = R.below(m.size()); m.insert(q, 1, m[q]); } break;    // double one
                case 2: if (epos != std::string::npos && epos + 2 < m.size()) m.insert(epos + 2, "0"); break; // e+05 -> e+005
                case 3: if (epos != std::string::npos && epos + 3 < m.size() && m[epos + 2] == '0') m.erase(epos + 2, 1); break; // e+05 -> e+5
                case 4: { size_t q = m.find('.'); if (q != std::string::npos) m.erase(q, 1); else m.push_back('.'); } break;
                case 5: if (!m.empty()) m[R.below(m.size())] = "0 .+-e9"[R.below(7)]; break;
                case 6: m.insert(0, 1, R.chance(50) ? ' ' : '0'); break;
                case 7: m.push_back(R.chance(50) ? ' ' : '0'); break;
                case 8: if (epos != std::string::npos) m[epos] = (char)(m[epos] ^ 0x20); break;            // exponent letter case
                case 9: if (epos != std::string::npos && epos + 1 < m.size()) m[epos + 1] = m[epos + 1] == '+' ? '-' : '+'; break;
                case 10: { size_t q = m.find_first_of("123456789"); if (q != std::string::npos) m[q] = '0'; } break; // leading digit -> 0
                default: { size_t q = m.find_first_of("+- "); if (q != std::string::npos) m.erase(q, 1); else m.insert(0, "+"); } break;
                }
                emit("shm", m);
            }
        }
        // fixed texts: the exponent digit rule at |X| = 100, `#` with precision 0
        puts("sh 2565 0 312e303030303030652b313030");     // %e  1.000000e+100
        puts("shm 2565 0 312e303030303030652b30313030");  // 1.000000e+0100
        puts("shm 2565 0 312e303030303030652b3030");      // 1.000000e+00 for ... (accepted: shape only)
        puts("sh 25232e3066 0 332e");                      // %#.0f 3.
        puts("shm 25232e3066 0 33");                       // %#.0f 3
        puts("sh 25232e3065 0 332e652b3030");              // %#.0e 3.e+00
        puts("shm 25232e3065 0 33652b3030");               // %#.0e 3e+00
        puts("sh 25232e3067 0 332e");                      // %#.0g 3.
        puts("shm 2567 0 31303030303030");                 // %g 1000000 (finding C13-g-style-carry: rejected)
    }

    // ---- round 3c: type-width boundaries of the INTEGER part (2^31 2^32 2^53 2^63 2^64 2^65, both neighbours, both
    //      signs) in fixed notation: an integer fast path through (unsigned) long / long long breaks exactly there
    //      (seeded change C13-intpart-ull-fastpath-2pow64 shows at +-2^64 only)
    {
        static const int pw[] = {31, 32, 53, 63, 64, 65};
        static const char *fm[] = {"%f", "%F", "%.0f", "%.3f", "%#.0f", "%+.1f", "%030.2f", "%-30.1f|", "%.25g", "%.21G", "%e", "%.20e"};
        for (int k : pw)
            for (int sg = 0; sg < 2; sg++)
                for (int nb = -1; nb <= 1; nb++)
                {
                    double v = ldexp(1.0, k);
                    if (nb) v = nextafter(v, nb < 0 ? 0.0 : INFINITY);
                    if (sg) v = -v;
                    for (const char *f : fm) G.emit_pf(f, v, {});
                }
    }
    // ---- round 3: constants of the compiled code, calls before main(), re-entrancy, direct calls of print_f
    puts("consts");
    for (int i = 0; i < PM_N; i++) printf("pm %d %s %s\n", i, hex(std::string(PM[i].fmt)).c_str(), hexn(PM[i].bits, 16).c_str());
    {
        struct FP { const char *f; double v; };
        static const FP fl[] = {{"%.3f", 1234.567}, {"%.3f", 9876.543}, {"%e", 6.02214076e23}, {"%e", 1.602176634e-19}, {"%g", 0.0001234},
                                {"%12.4f", -0.5}, {"%+.2e", 12345.678}, {"%.10f", 3.0 / 7.0}, {"%08.3f", -2.5}, {"%g", 299792458.0},
                                {"%f", INFINITY}, {"%E", -NAN}, {"%.17g", 0.1}, {"%f", 1e22}, {"%.0f", 0.5}, {"%G", 1e-300}, {"%#.0e", 7.0}};
        struct IP { const char *f; const char *a; };
        static const IP il[] = {{"%d", "i:-12345"}, {"%08x", "i:48879"}, {"%ld", "l:-9223372036854775807"}, {"%s", "s:68656c6c6f"}, {"%6s|", "s:6869"},
                                {"%o", "i:511"}, {"%+5d", "i:42"}, {"%-7u|", "i:7"}, {"%.3s", "s:616263646566"}, {"%#X", "i:255"}};
        long pairs = thorough ? 600 : 60;
        long cnt = 0;
        auto piece = [&](bool isf, std::string &kind, std::string &f, std::string &a, long &len) {
            char b[1024];
            if (isf)
            {
                double v;
                std::string fs;
                for (;;)
                {
                    if (R.chance(50)) { const FP &q = fl[R.below(sizeof fl / sizeof fl[0])]; fs = q.f; v = q.v; }
                    else
                    {
                        std::vector<long> st;
                        fs = G.directive(st, CONVS[R.below(6)], R.chance(50) ? 0 : (int)R.below(32), R.chance(60) ? 0 : (int)R.below(5), (int)R.range(-2, 17));
                        if (!st.empty()) continue;
                        v = G.value();
                    }
                    if (!Gen::g_style_carry(fs, v, {})) break;
                }
                kind = "d"; f = hex(fs); a = hexn(bits_of(v), 16);
                len = snprintf(b, sizeof b, fs.c_str(), v);
            }
            else
            {
                const IP &q = il[R.below(sizeof il / sizeof il[0])];
                kind = "i"; f = hex(std::string(q.f)); a = q.a;
                if (q.a[0] == 's') { bytes sb = unhex(std::string(q.a + 2)); std::string sv(sb.begin(), sb.end()); len = snprintf(b, sizeof b, q.f, sv.c_str()); }
                else if (q.a[0] == 'l') len = snprintf(b, sizeof b, q.f, strtol(q.a + 2, 0, 10));
                else len = snprintf(b, sizeof b, q.f, (int)strtol(q.a + 2, 0, 10));
            }
        };
        for (long i = 0; i < pairs; i++)
        {
            unsigned sel = (unsigned)R.below(10);
            bool af = sel < 7, bf = sel < 5 || sel >= 7 ? (sel != 9) : false; // ff 50 %, f-outer/int-inner 20 %, int-outer/f-inner 20 %, int/int 10 %
            std::string ka, fa, aa, kb, fb, ab;
            long la = 0, lb = 0;
            piece(af, ka, fa, aa, la);
            piece(bf, kb, fb, ab, lb);
            std::vector<long> ks;
            if (la <= 14) for (long k = 0; k <= la; k++) ks.push_back(k);
            else { ks = {0, 1, la / 2, la - 1, la}; ks.push_back(R.range(2, la - 2)); }
            for (long k : ks)
                printf("pfn %s %ld %s %s %s %s %s %s\n", (cnt++ % 4 == 3) ? "th" : "cb", k, ka.c_str(), fa.c_str(), aa.c_str(), kb.c_str(), fb.c_str(), ab.c_str());
        }
    }
    {
        // long texts (>= 300 KB), the buffer constants +-1, the tie-canonicalisation bound 5000/5001
        puts("pfd 3ff8000000000000 0 300000 20 0 0");
        puts("pfd 3ff8000000000000 3000 2 30 0 0");
        puts("pfd 3ee4f8b588e368f1 0 400000 20 1 0");
        puts("pfd bff8000000000000 3100 3 21 0 1");
        for (long P : {339L, 340L, 341L, 345L, 351L, 352L, 353L, 5000L, 5001L})
            for (uint64_t b : {0x0000000000000001ull, 0x7fefffffffffffffull, 0x3fb999999999999aull, 0x3ff8000000000000ull})
                for (int c = 0; c < 3; c++)
                    printf("pfd %s 0 %ld %x %d %d\n", hexn(b, 16).c_str(), P, (unsigned)(0x20 | (R.chance(30) ? 8 : 0)), c == 1, c == 2);
        // every flag word on the non-finite values (ISO: no zero padding for inf/nan, upper case for F E G)
        static const uint64_t nf[] = {0x7ff0000000000000ull, 0xfff0000000000000ull, 0x7ff8000000000000ull, 0xfff8000000000000ull};
        long q = 0;
        for (uint64_t b : nf)
            for (unsigned m = 0; m < 64; m++)
                for (int c = 0; c < 3; c++)
                    for (int up = 0; up < 2; up++)
                        for (long wd : {0L, 12L})
                        {
                            if (!thorough && (q++ % 4)) continue;
                            printf("pfd %s %ld %ld %x %d %d\n", hexn(b, 16).c_str(), wd, (long)R.below(8), m | (up ? 0x4000u : 0u), c == 1, c == 2);
                        }
        long N = thorough ? 4000 : 300;
        static const long wds[] = {0, 1, 5, 20, 100, 1000};
        static const long prs[] = {0, 1, 2, 5, 6, 10, 15, 16, 17, 18, 20, 30, 100, 339, 340, 341, 1000};
        for (long i = 0; i < N; i++)
        {
            double v = G.value();
            unsigned m = (unsigned)R.below(64) | (R.chance(50) ? 0x4000u : 0u);
            int c = (int)R.below(3);
            long wd = wds[R.below(6)], pr = prs[R.below(17)];
            std::string f = "%";
            if (m & 8) f += '#';
            if (m & 32) f += "." + std::to_string(pr);
            f += "feg"[c];
            if (Gen::g_style_carry(f, v, {})) continue;
            printf("pfd %s %ld %ld %x %d %d\n", hexn(bits_of(v), 16).c_str(), wd, pr, m, c == 1, c == 2);
        }
    }
    // ---- round 3: the LONG_DOUBLE flavour (oracle only); values whose integer part fits the 352-byte buffer.
    //      Beyond that the build loses the leading digits: finding C13-long-double-build-digits (probes)
    puts("@F:C13-long-double-build-digits pfx 254c66 452f da763fc8cb9ff9e6");   // %Lf 1e400L
    puts("@F:C13-long-double-build-digits pfx 252e334c66 7ffe d72cb2a95c7ef6cd"); // %.3Lf 1e4932L
    {
        long N = thorough ? 3000 : 200;
        for (long i = 0; i < N; i++)
        {
            long double v = G.ldvalue();
            if (std::isfinite(v) && v != 0 && (fabsl(v) > 1e300L || fabsl(v) < 1e-300L)) continue;
            std::vector<long> star;
            std::string f = G.directive(star, CONVS[R.below(6)], R.chance(60) ? 0 : (int)R.below(32), R.chance(60) ? 0 : (int)R.below(5), (int)R.range(-2, 25));
            if (!star.empty()) continue;
            if (f.size() >= 2 && f[f.size() - 2] == 'l') f.erase(f.size() - 2, 1);
            if (Gen::g_style_carry(f, (double)v, {})) continue;
            f.insert(f.size() - 1, "L");
            unsigned char b[16] = {0};
            memcpy(b, &v, 10);
            uint64_t m;
            memcpy(&m, b, 8);
            unsigned se = b[8] | (b[9] << 8);
            printf("pfx %s %s %s\n", hex(f).c_str(), hexn(se, 4).c_str(), hexn(m, 16).c_str());
        }
    }
    // ---- exhaustive small space: every flag subset x conversion x {no width, 12} x
    //      {no precision, .0, .1, .6} on the special values
    {
        static const int pks[] = {-1, 0, 1, 6};
        size_t nv = thorough ? G.special.size() : 18;
        for (size_t vi = 0; vi < nv; vi++)
            for (int fm = 0; fm < 32; fm++)
                for (int ci = 0; ci < 6; ci++)
                    for (int wk = 0; wk < 4; wk += 3)
                        for (int pi = 0; pi < 4; pi++)
                        {
                            if (!thorough && ((vi * 7 + fm * 3 + ci + wk + pi) % 4)) continue;
                            std::vector<long> star;
                            std::string f = G.directive(star, CONVS[ci], fm, wk, pks[pi]);
                            G.emit_pf(f, G.special[vi], star);
                        }
    }
    // ---- every precision 0..17 x conversion on boundary-biased values
    {
        int reps = thorough ? 40 : 6;
        for (int p = 0; p <= 17; p++)
            for (int ci = 0; ci < 6; ci++)
                for (int k = 0; k < reps; k++)
                {
                    std::vector<long> star;
                    std::string f = G.directive(star, CONVS[ci], R.chance(70) ? 0 : (int)R.below(32), R.chance(70) ? 0 : (int)R.below(7), p);
                    G.emit_pf(f, G.value(), star);
                }
    }
    // ---- random directives x random values
    {
        long N = thorough ? 120000 : 9000;
        for (long i = 0; i < N; i++)
        {
            std::vector<long> star;
            std::string f = G.directive(star, CONVS[R.below(6)], R.chance(50) ? 0 : (int)R.below(32), R.chance(50) ? 0 : (int)R.below(7), G.rand_prec());
            if (R.chance(10)) f = "<" + f + ">";
            else if (R.chance(5)) f = "x=" + f + " m";
            G.emit_pf(f, G.value(), star);
        }
    }
}

static void run(const std::vector<std::string> &w, const std::string &, out &o)
{
    if (w.empty()) { o.result = "bad-op"; o.fail("empty"); return; }
    if (w[0] == "pf") run_pf(w, o, false);
    else if (w[0] == "pfs") run_pf(w, o, true);
    else if (w[0] == "pfL") run_pf(w, o, false, true);
    else if (w[0] == "pfa") run_pfa(w, o);
    else if (w[0] == "sh") run_sh(w, o, false);
    else if (w[0] == "shm") run_sh(w, o, true);
    else if (w[0] == "ar") run_ar(w, o);
    else if (w[0] == "pfn") run_pfn(w, o);
    else if (w[0] == "pm") run_pm(w, o);
    else if (w[0] == "consts") run_consts(o);
    else if (w[0] == "pfd") run_pfd(w, o);
    else if (w[0] == "pfx") run_pfx(w, o);
    else { o.result = "bad-op"; o.fail("bad op"); }
}

int main(int argc, char **argv) { return hv::main_(argc, argv, gen, run); }
