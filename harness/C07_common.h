// C07 harness: what the translation units harness/C07.cpp (renderer ops, oracle references, dispatch),
// harness/C07_parse.cpp (parser ops, libc shims, hexascii, long texts),
// harness/C07_dprint.cpp (debug printers, tables, constants) and harness/C07_gen.cpp (generator) share.
// The split exists for the compile time only (bin/check compiles the sources in parallel).
#ifndef C07_COMMON_H
#define C07_COMMON_H
#include "common/hv.h"
#include <array>
#include <climits>
#include <cerrno>
#include <type_traits>
#include <ctype.h>

using namespace hv;
typedef std::vector<uint8_t> bytes;
typedef unsigned __int128 u128;

// ------------------------------------------------------------------ kinds
enum { I8, I16, I32, I64, U8, U16, U32, U64, NKIND };
extern const char *const KNAME[NKIND];
extern const int KBITS[NKIND];
inline bool ksigned(int k) { return k < 4; }
int kind_of(const std::string &s);
inline uint64_t wmask(int bits) { return bits == 64 ? ~0ull : ((1ull << bits) - 1); }
// 64-bit pattern of a w-bit pattern, sign- or zero-extended
inline uint64_t extend(uint64_t v, int bits, bool sgn)
{
    v &= wmask(bits);
    if (sgn && bits < 64 && (v >> (bits - 1)) & 1) v |= ~wmask(bits);
    return v;
}
inline uint64_t h64(const std::string &s) { return strtoull(s.c_str(), 0, 16); }

// ------------------------------------------------------------------ the code under test, by kind
extern bool g_twin; // route call_toa / call_ato / hex2half to the copy in igris/container/std_portable.h
char *call_toa(int k, uint64_t v, char *buf, uint8_t base);
uint64_t call_ato(int k, const char *buf, uint8_t base, char **end);

extern "C"
{
    // harness/C07_libc.c: compat/libc/stdlib/{itoa,atol}.c under private names
    char *igv_itoa(int, char *, unsigned short);
    char *igv_utoa(unsigned, char *, unsigned short);
    char *igv_ltoa(long, char *, unsigned short);
    char *igv_ultoa(unsigned long, char *, unsigned short);
    long igv_atol(const char *);
    int igv_atoi(const char *);
    // harness/C07_libc.c: the debug_asmlink_* self-test printers; return 0 when the library does not have them
    int c07_asmlink_args(int, int, const uint64_t *);
    int c07_asmlink_ret(int, uint64_t *);
    int c07_asmlink_test(void);
    // harness/C07_twin.cpp: the copy in igris/container/std_portable.h
    char *c07_twin_toa(int k, unsigned long long v, char *buf, unsigned char base);
    unsigned long long c07_twin_ato(int k, const char *buf, unsigned char base, char **end);
    unsigned char c07_twin_hex2half(char c);
    int c07_twin_present(void);
    // harness/C07.cpp: the real (anchored) hex2half, for the twin's fallback
    unsigned char c07_real_hex2half(char c);
}

// ------------------------------------------------------------------ references (oracle), harness/C07.cpp
extern const char AL_LO[];
extern const char AL_UP[];
int ref_digits(uint64_t mag, unsigned base, const char *al, char *out);
int ref_text(uint64_t v, int bits, bool sgn, unsigned base, bool upper, char *out);
int ref_dv(uint8_t c);
uint64_t ref_parse(const uint8_t *s, int bits, bool sgn, unsigned base, size_t *end, bool *wrapped = 0);
std::string flipcase(const std::string &s);
std::string show(const std::string &s);

struct fnv
{
    uint64_t h = 14695981039346656037ull;
    void byte(uint8_t b) { h = (h ^ b) * 1099511628211ull; }
    void le64(uint64_t v) { for (int i = 0; i < 8; i++) byte((uint8_t)(v >> (8 * i))); }
};

// ------------------------------------------------------------------ harness/C07_parse.cpp
void run_ato(const std::vector<std::string> &w, out &o);
void run_lc(const std::vector<std::string> &w, out &o);
void run_atol(const std::vector<std::string> &w, out &o);
void run_vt(const std::vector<std::string> &w, out &o);
void run_hxa(const std::vector<std::string> &w, out &o);
void run_maxlen(const std::vector<std::string> &w, out &o);
void run_atorep(const std::vector<std::string> &w, out &o);
void run_seq(const std::vector<std::string> &w, out &o);

// ------------------------------------------------------------------ harness/C07_dprint.cpp
void run_dpr(const std::vector<std::string> &w, out &o);
void run_wh(const std::vector<std::string> &w, out &o);
void run_dump(const std::vector<std::string> &w, out &o);
void run_consts(out &o);
void run_tbl(const std::vector<std::string> &w, out &o);
void run_pre(out &o);
void run_asml(const std::vector<std::string> &w, out &o);
void run_asmr(const std::vector<std::string> &w, out &o);
int dfn_count();
void dfn_info(int i, const char **name, int *bits, bool *sgn, char *fmt);

// ------------------------------------------------------------------ harness/C07_gen.cpp
extern uint64_t g_seed;
void gen_wrapper(rng &r, const std::string &tier);

#endif
