// C14 harness: the standard headers every translation unit needs, included BEFORE the library headers and
// before the `#pragma GCC optimize("O0")` that the twin headers put in front of the harness's own code.
#ifndef C14_PRELUDE_H
#define C14_PRELUDE_H
#include "common/hv.h"
#include <map>
#include <memory>
#include <optional>
#include <algorithm>
#include <initializer_list>
#include <type_traits>
#endif
