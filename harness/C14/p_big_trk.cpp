// C14 harness, one group of instantiations: static_vector<Tracked,N>, N = 255, 256, 257
#include "C14/twin_p.h"
C14_FACTORY(big_trk)
