// the igris/container/ twin (static_vector.h, static_string.h)
#include "C14/prelude.h"
#include <igris/container/static_vector.h>
#include <igris/container/static_string.h>
// The library (and the standard headers of prelude.h) are compiled with the flags of the command line (-O1,
// ASan + UBSan); the harness's own code below - the templated machines, by far the largest part of every
// translation unit - is compiled without optimisation: a quarter of the compile time, same instrumentation.
#pragma GCC optimize("O0")
#include "C14/machine.h"
namespace
{
    struct TwinC
    {
        static constexpr bool port = false;
        template <class T, size_t N> using vec = igris::static_vector<T, N>;
        template <size_t N> using str = igris::static_string<N>;
        // the stoi family exists for the std_portable.h twin only
        template <class S> static int stoi_(const S &) { return 0; }
        template <class S> static long stol_(const S &) { return 0; }
        template <class S> static long long stoll_(const S &) { return 0; }
        template <class S> static double stod_(const S &) { return 0; }
    };
}
#define C14_TWIN TwinC
#define C14_FACTORY(group) \
    namespace c14 { IMachine *make_c_##group(bool str, bool trk, size_t N, int K, bool canary) { return make_##group<TwinC>(str, trk, N, K, canary); } }
