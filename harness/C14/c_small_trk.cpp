// C14 harness, one group of instantiations: static_vector<Tracked,N>, N = 1, 2, 3, 8
#include "C14/twin_c.h"
C14_FACTORY(small_trk)
