// C14 harness: igris/container/ twin at the capacities around a narrowed
// 8-bit size counter (255, 256, 257; strings also 127, 128).
#include "C14/machine.h"
#include <igris/container/static_vector.h>
#include <igris/container/static_string.h>
namespace
{
    struct TwinC
    {
        static constexpr bool port = false;
        template <class T, size_t N> using vec = igris::static_vector<T, N>;
        template <size_t N> using str = igris::static_string<N>;
    };
}
namespace c14
{
    IMachine *make_b8_c(bool str, bool trk, size_t N, int K, bool canary)
    {
        return str ? make_str_b8<TwinC>(N, K, canary) : make_vec_b8<TwinC>(trk, N, K, canary);
    }
}
