// C14 harness: std_portable.h twin at the capacities around a narrowed
// 8-bit size counter (255, 256, 257; strings also 127, 128).
#include "C14/machine.h"
#define igris igris_portable
#include <igris/container/std_portable.h>
namespace
{
    struct TwinP
    {
        static constexpr bool port = true;
        template <class T, size_t N> using vec = igris::static_vector<T, N>;
        template <size_t N> using str = igris::static_string<N>;
    };
}
namespace c14
{
    IMachine *make_b8_p(bool str, bool trk, size_t N, int K, bool canary)
    {
        return str ? make_str_b8<TwinP>(N, K, canary) : make_vec_b8<TwinP>(trk, N, K, canary);
    }
}
