// C14 harness, shared between the two translation units (one per twin).
//
// The two copies of static_vector / static_string have the same qualified name
// (igris::static_vector in igris/container/static_vector.h and in
// igris/container/std_portable.h), so they cannot meet in one program.  The
// portable twin is compiled in its own translation unit with the namespace
// renamed (`#define igris igris_portable`), and both sides instantiate the
// machines below through a `Twin` traits struct.
//
// This header must not mention the namespace `igris` itself.
#ifndef C14_MACHINE_H
#define C14_MACHINE_H

#include "C14/prelude.h"

namespace c14
{
    // ------------------------------------------------------------ lifetime ledger
    // Every construction / destruction / assignment of a Tracked object that
    // lies inside a registered storage region (the _data[] of a container
    // under test) is an event "<kind><reg>.<slot>".  The ledger knows which
    // addresses hold a live object: a constructor call on a live address, a
    // destructor / assignment / read on a dead one, anything not on a slot
    // boundary or (while a container member function runs) outside every
    // region is an error — that is the property's lifetime clause evaluated on
    // the real code.
    struct Region
    {
        const char *base;
        size_t nslots, elsz;
        int reg;
    };

    struct LEvent
    {
        int reg;
        size_t slot;
        char kind;
        size_t seq;
    };

    struct Ledger
    {
        std::map<const void *, int> live; // address -> 1
        std::vector<Region> regions;
        std::vector<std::string> errors;
        std::vector<LEvent> events;
        long ctors = 0, dtors = 0;
        bool strict = false; // a container member function is running
        bool loose = false;  // no regions: every Tracked object anywhere is on the ledger (heap arrays)
        long throw_in = -1;  // >= 0: that many more Tracked constructions inside a member function succeed, the next one throws
        long throw_asg_in = -1; // >= 0: that many more Tracked move-assignments inside a member function succeed, the next one throws

        void reset()
        {
            live.clear();
            regions.clear();
            errors.clear();
            events.clear();
            ctors = dtors = 0;
            strict = false;
            loose = false;
            throw_in = -1;
            throw_asg_in = -1;
        }
        // called first thing by Tracked::operator=(Tracked&&): an assignment that
        // throws has changed neither side
        void tick_asg();
        // called first thing by every Tracked constructor: a constructor that
        // throws has constructed nothing and touched nothing
        void tick();
        void err(const std::string &s)
        {
            if (errors.size() < 8)
                errors.push_back(s);
        }
        // returns the region and slot of p, or null
        const Region *find(const void *p, size_t &slot, bool &aligned)
        {
            const char *c = (const char *)p;
            for (auto &r : regions)
                if (c >= r.base && c < r.base + r.nslots * r.elsz)
                {
                    slot = (size_t)(c - r.base) / r.elsz;
                    aligned = (size_t)(c - r.base) % r.elsz == 0;
                    return &r;
                }
            return nullptr;
        }
        std::string at(const Region *r, size_t slot) { return std::to_string(r->reg) + "." + std::to_string(slot); }
        const Region *locate(const void *p, size_t &slot, const char *what)
        {
            bool al = true;
            const Region *r = find(p, slot, al);
            if (!r)
            {
                if (strict)
                    err(std::string(what) + " outside the storage");
                return nullptr;
            }
            if (!al)
                err(std::string(what) + " not on a slot boundary near " + at(r, slot));
            return r;
        }
        void on_ctor(const void *p)
        {
            if (loose)
            {
                if (live.count(p))
                    err("construct over live element");
                live[p] = 1;
                ctors++;
                return;
            }
            size_t s;
            const Region *r = locate(p, s, "construct");
            if (!r)
                return;
            if (live.count(p))
                err("construct over live element " + at(r, s));
            live[p] = 1;
            ctors++;
            events.push_back({r->reg, s, '+', events.size()});
        }
        void on_dtor(const void *p)
        {
            if (loose)
            {
                if (!live.count(p))
                    err("destroy of raw storage");
                live.erase(p);
                dtors++;
                return;
            }
            size_t s;
            const Region *r = locate(p, s, "destroy");
            if (!r)
                return;
            if (!live.count(p))
                err("destroy of raw storage " + at(r, s));
            live.erase(p);
            dtors++;
            events.push_back({r->reg, s, '-', events.size()});
        }
        void on_assign(const void *p)
        {
            if (loose)
            {
                if (!live.count(p))
                    err("assign to raw storage");
                return;
            }
            size_t s;
            const Region *r = locate(p, s, "assign");
            if (!r)
                return;
            if (!live.count(p))
                err("assign to raw storage " + at(r, s));
            events.push_back({r->reg, s, '=', events.size()});
        }
        void on_read(const void *p)
        {
            if (loose)
            {
                if (!live.count(p))
                    err("copy from raw storage");
                return;
            }
            size_t s;
            bool al;
            const Region *r = find(p, s, al);
            if (r && !live.count(p))
                err("copy from raw storage " + at(r, s));
        }
        void on_moved(const void *p)
        {
            if (loose)
            {
                if (!live.count(p))
                    err("move from raw storage");
                return;
            }
            size_t s;
            bool al;
            const Region *r = find(p, s, al);
            if (!r)
                return;
            if (!live.count(p))
                err("move from raw storage " + at(r, s));
            events.push_back({r->reg, s, '^', events.size()});
        }
        size_t live_in(const Region &r)
        {
            size_t n = 0;
            for (auto &kv : live)
            {
                const char *c = (const char *)kv.first;
                if (c >= r.base && c < r.base + r.nslots * r.elsz)
                    n++;
            }
            return n;
        }
        void forget(const Region &r)
        {
            for (auto it = live.begin(); it != live.end();)
            {
                const char *c = (const char *)it->first;
                if (c >= r.base && c < r.base + r.nslots * r.elsz)
                    it = live.erase(it);
                else
                    ++it;
            }
        }
        // events of this op: stable by (register, slot) — the order of the
        // events of one slot is kept, the interleaving between slots is not
        std::string take_events()
        {
            std::stable_sort(events.begin(), events.end(), [](const LEvent &a, const LEvent &b) {
                if (a.reg != b.reg)
                    return a.reg < b.reg;
                return a.slot < b.slot;
            });
            std::string s;
            for (auto &e : events)
            {
                if (!s.empty())
                    s += " ";
                s += e.kind;
                s += std::to_string(e.reg) + "." + std::to_string(e.slot);
            }
            events.clear();
            return s.empty() ? "-" : s;
        }
    };

    inline Ledger &L()
    {
        static Ledger l;
        return l;
    }

    struct Thrown
    {
    };
    inline void Ledger::tick()
    {
        if (!strict || throw_in < 0)
            return;
        if (throw_in == 0)
        {
            throw_in = -1;
            throw Thrown{};
        }
        throw_in--;
    }

    inline void Ledger::tick_asg()
    {
        if (!strict || throw_asg_in < 0)
            return;
        if (throw_asg_in == 0)
        {
            throw_asg_in = -1;
            throw Thrown{};
        }
        throw_asg_in--;
    }

    struct Tracked
    {
        int v;
        int moved;
        Tracked() : v(0), moved(0) { L().tick(); L().on_ctor(this); }
        Tracked(int x) : v(x), moved(0) { L().tick(); L().on_ctor(this); }
        Tracked(const Tracked &o) : v(o.v), moved(o.moved)
        {
            L().tick();
            L().on_read(&o);
            L().on_ctor(this);
        }
        Tracked(Tracked &&o) : v(o.v), moved(o.moved)
        {
            L().tick();
            L().on_moved(&o);
            o.v = -1;
            o.moved = 1;
            L().on_ctor(this);
        }
        Tracked &operator=(const Tracked &o)
        {
            L().on_read(&o);
            L().on_assign(this);
            v = o.v;
            moved = o.moved;
            return *this;
        }
        Tracked &operator=(Tracked &&o)
        {
            L().tick_asg();
            L().on_moved(&o);
            L().on_assign(this);
            int nv = o.v, nm = o.moved;
            o.v = -1;
            o.moved = 1;
            v = nv;
            moved = nm;
            return *this;
        }
        ~Tracked() { L().on_dtor(this); }
    };

    // reference element: value or "moved-from"
    struct RE
    {
        int v;
        bool moved;
        bool operator==(const RE &o) const { return moved == o.moved && (moved || v == o.v); }
    };
    inline std::string show(const RE &e) { return e.moved ? "~" : std::to_string(e.v); }

    // capacities >= HUGE_N: the contents are printed as a 32-bit digest
    // (h = 7; h = h * 31 + (moved ? 0 : v + 1)) instead of element by element
    constexpr size_t HUGE_N = 1000;
    inline void digest_add(uint32_t &h, uint32_t x) { h = h * 31u + x; }
    inline std::string digest_show(uint32_t h) { return "#" + hv::hexn(h, 8); }

    template <class T> struct ElemTraits;
    template <> struct ElemTraits<int>
    {
        static constexpr bool trk = false;
        static RE get(const int &x) { return {x, false}; }
        static int make(int x) { return x; }
    };
    template <> struct ElemTraits<Tracked>
    {
        static constexpr bool trk = true;
        static RE get(const Tracked &x) { return {x.v, x.moved != 0}; }
        static Tracked make(int x) { return Tracked(x); }
    };

    // ------------------------------------------------------------ object placement
    // heap:   the object is the whole of an exactly sized heap block (ASan sees
    //         the first byte outside it)
    // canary: the object lies between two 64-byte canaries inside one block
    struct Place
    {
        bool canary;
        size_t bytes;
        unsigned char *block = nullptr, *obj = nullptr;
        static constexpr size_t PAD = 64;
        Place(bool c, size_t n) : canary(c), bytes(n)
        {
            if (canary)
            {
                block = (unsigned char *)malloc(n + 2 * PAD);
                memset(block, 0xC5, n + 2 * PAD);
                obj = block + PAD;
            }
            else
            {
                block = (unsigned char *)malloc(n);
                obj = block;
            }
            memset(obj, 0xAA, n);
        }
        bool intact() const
        {
            if (!canary)
                return true;
            for (size_t i = 0; i < PAD; i++)
                if (block[i] != 0xC5 || block[PAD + bytes + i] != 0xC5)
                    return false;
            return true;
        }
        ~Place() { free(block); }
    };

    // "a container member function is running" for the ledger; a guard, so that
    // an exception leaving the member function ends it before the harness's own
    // temporaries are destroyed
    struct Strict
    {
        Strict() { L().strict = true; }
        ~Strict() { L().strict = false; }
    };

    // width of the size counter of a container type, read from the compiled class (private member, hence
// -fno-access-control).  If the member is not called m_size any more (a harmless rename must not break the
// harness build) the counter is taken to be as wide as size_t: the model then runs unbounded and a narrowed
// counter is still caught by the boundary capacities through the behaviour oracle.
template <class V> constexpr int msize_bits()
{
    if constexpr (requires { sizeof(V::m_size); })
        return 8 * (int)sizeof(V::m_size);
    else
        return 8 * (int)sizeof(size_t);
}

// Number of slots of the inline storage of a vector type, read from the compiled class when the member is still
// called `_data` (an internal name: optional).  0 = not nameable; the caller then falls back on the public API.
template <class V> constexpr size_t data_slots()
{
    if constexpr (requires { sizeof(V::_data); std::extent_v<decltype(V::_data)>; })
    {
        using Slot = std::remove_extent_t<decltype(V::_data)>;
        if constexpr (sizeof(Slot) > 0 && std::is_array_v<decltype(V::_data)>) return std::extent_v<decltype(V::_data)>;
        else return 0;
    }
    else
        return 0;
}
// sizeof one slot of `_data`, 0 = not nameable
template <class V> constexpr size_t data_slot_bytes()
{
    if constexpr (requires { sizeof(V::_data); })
    {
        if constexpr (std::is_array_v<decltype(V::_data)>) return sizeof(std::remove_extent_t<decltype(V::_data)>);
        else return 0;
    }
    else
        return 0;
}
// Bytes of the character array of a string type: `_data` (std_portable.h) or `data` (container/; there `data` is the
// array itself, in std_portable.h it is a member function).  0 = neither name denotes an array any more.
template <class S> constexpr size_t str_bytes()
{
    if constexpr (requires { sizeof(S::_data); })
    {
        if constexpr (std::is_array_v<decltype(S::_data)>) return sizeof(S::_data);
        else return 0;
    }
    else if constexpr (requires { sizeof(decltype(S::data)); })
    {
        if constexpr (std::is_array_v<decltype(S::data)>) return sizeof(decltype(S::data));
        else return 0;
    }
    else
        return 0;
}

struct IMachine
    {
        virtual ~IMachine() {}
        virtual void op(const std::vector<std::string> &w, hv::out &o) = 0;
        // 8 * sizeof(m_size) of the instantiation (read with -fno-access-control), 0 = not applicable
        virtual int width() { return 0; }
    };

    // does a counter of w bits hold every size 0..N?
    inline bool counter_fits(int w, size_t N) { return w >= 64 || (N >> w) == 0; }

    inline std::vector<int> ints_from(const std::vector<std::string> &w, size_t from)
    {
        std::vector<int> v;
        for (size_t i = from; i < w.size(); i++)
            v.push_back(atoi(w[i].c_str()));
        return v;
    }

    // a std::initializer_list over run-time data (libstdc++ / libc++ layout:
    // pointer + length)
    template <class T> std::initializer_list<T> make_il(const T *p, size_t n)
    {
        struct Raw
        {
            const T *p;
            size_t n;
        } raw{p, n};
        static_assert(sizeof(Raw) == sizeof(std::initializer_list<T>), "initializer_list layout");
        std::initializer_list<T> il;
        memcpy((void *)&il, &raw, sizeof il);
        return il;
    }

    // ============================================================ vector machine
    template <class Twin, class T, size_t N> struct VMachine : IMachine
    {
        using Vec = typename Twin::template vec<T, N>;
        using ET = ElemTraits<T>;
        static constexpr bool port = Twin::port;
        struct Reg
        {
            std::unique_ptr<Place> place;
            Vec *v = nullptr;
            std::vector<RE> ref; // reference sequence
        };
        int K;
        bool canary;
        std::vector<Reg> regs;

        // Where the inline storage lies inside the object: probed once per instantiation on a default-constructed
        // object through the public data() (the property fixes "inline storage", not the order of the members).
        static size_t data_offset()
        {
            static const size_t off = [] {
                Place pl(false, sizeof(Vec));
                Vec *v = new (pl.obj) Vec();
                size_t o = (size_t)((const char *)v->data() - (const char *)pl.obj);
                v->~Vec();
                return o;
            }();
            return off;
        }

        VMachine(int k, bool c) : K(k), canary(c), regs(k)
        {
            L().reset();
            data_offset();
        }
        ~VMachine() override
        {
            // a case that was cut short: drop the objects without running igris code
            for (auto &r : regs)
                r.v = nullptr;
            L().reset();
        }

        bool has(int r) { return r >= 0 && r < K && regs[r].v; }
        bool empty_reg(int r) { return r >= 0 && r < K && !regs[r].v; }
        int width() override { return msize_bits<Vec>(); }

        void *place(int r)
        {
            regs[r].place.reset(new Place(canary, sizeof(Vec)));
            return regs[r].place->obj;
        }
        void registered(int r)
        {
            Vec *v = regs[r].v;
            L().regions.push_back({(const char *)v->data(), N, sizeof(T), r});
        }
        // storage must be known to the ledger BEFORE the constructor runs
        void preregister(int r, void *mem)
        {
            // the storage starts data_offset() bytes into the object (checked against data() after every op)
            L().regions.push_back({(const char *)mem + data_offset(), N, sizeof(T), r});
        }
        void unregister(int r)
        {
            auto &rg = L().regions;
            for (size_t i = 0; i < rg.size(); i++)
                if (rg[i].reg == r)
                {
                    L().forget(rg[i]);
                    rg.erase(rg.begin() + i);
                    break;
                }
        }

        std::vector<RE> take_n(const std::vector<int> &xs)
        {
            std::vector<RE> r;
            for (size_t i = 0; i < xs.size() && i < N; i++)
                r.push_back({xs[i], false});
            return r;
        }

        // what a moved-from source may look like: empty, or same length with
        // every element moved-from (int: unchanged)
        void after_move_source(int s, hv::out &o)
        {
            Reg &R = regs[s];
            size_t sz = R.v->size();
            if (sz == 0)
            {
                R.ref.clear();
                return;
            }
            if (sz != R.ref.size())
            {
                o.fail("moved-from container " + std::to_string(s) + " has size " + std::to_string(sz));
                return;
            }
            if (ET::trk)
                for (auto &e : R.ref)
                    e.moved = true;
        }

        void destroy_reg(int r, hv::out &o)
        {
            { Strict _g;
            regs[r].v->~Vec();
            }
            if (ET::trk)
                for (auto &rg : L().regions)
                    if (rg.reg == r)
                    {
                        size_t n = L().live_in(rg);
                        if (n)
                            o.fail(std::to_string(n) + " element(s) of container " + std::to_string(r) + " never destroyed");
                    }
            unregister(r);
            regs[r].v = nullptr;
            regs[r].ref.clear();
            regs[r].place.reset();
        }

        // the element constructor threw inside `w` (its (k+1)-th construction):
        // what the reference sequences are now.  A constructor that throws
        // leaves no object and nothing it constructed; an assignment / resize
        // keeps what it had constructed so far; push/emplace change nothing.
        void after_throw(const std::vector<std::string> &w, size_t k, hv::out &o)
        {
            const std::string &c = w[0];
            auto R = [&](size_t i) { return i < w.size() ? atoi(w[i].c_str()) : -1; };
            int r = R(1), s = R(2);
            o.tag("threw");
            auto moved_prefix = [&](int q) {
                if (ET::trk)
                    for (size_t i = 0; i < k && i < regs[q].ref.size(); i++)
                        regs[q].ref[i].moved = true;
            };
            auto prefix = [&](int q) {
                std::vector<RE> p(regs[q].ref.begin(), regs[q].ref.begin() + std::min(k, regs[q].ref.size()));
                return p;
            };
            if (c == "copy" || c == "move" || c == "range" || c == "il")
            {
                for (auto &rg : L().regions)
                    if (rg.reg == r)
                    {
                        size_t n = L().live_in(rg);
                        if (n)
                            o.fail("the constructor of container " + std::to_string(r) + " threw and left " + std::to_string(n) + " element(s) behind");
                    }
                unregister(r);
                regs[r].v = nullptr;
                regs[r].ref.clear();
                regs[r].place.reset();
                if (c == "move")
                    moved_prefix(s);
            }
            else if (c == "acopy")
                regs[r].ref = prefix(s);
            else if (c == "amove")
            {
                regs[r].ref = prefix(s);
                moved_prefix(s);
            }
            else if (c == "resize")
                for (size_t i = 0; i < k; i++)
                    regs[r].ref.push_back({0, false});
            // push / emplace: strong guarantee, nothing changes
        }

        void op(const std::vector<std::string> &w0, hv::out &o) override
        {
            if (w0[0] == "width")
            {
                // What the compiled code contains.  The width of the counter is not fixed by the property: the
                // generator passes it to the model (op argument), the result only echoes it.  The number of slots
                // of the storage is N or more (more = padding, harmless): reported as a tag, the result says
                // "slots=N" when the storage holds at least N elements.  `_data` / `m_size` are internal names:
                // when they are gone the public API answers (room() of an empty object, sizeof the object).
                int w = width();
                size_t slots = data_slots<Vec>();
                if (slots == 0 && N > 0)
                {
                    Place pl(false, sizeof(Vec));
                    Vec *v = new (pl.obj) Vec();
                    slots = v->room() + v->size();
                    if (sizeof(Vec) < data_offset() + slots * sizeof(T)) slots = (sizeof(Vec) - data_offset()) / sizeof(T);
                    v->~Vec();
                    o.tag("slots-by-room");
                }
                o.result = "w=" + std::to_string(w) + " slots=" + std::to_string(slots >= N ? N : slots);
                o.tag(("w" + std::to_string(w)).c_str());
                o.tag(("slots" + std::to_string(slots)).c_str());
                // the contract on element destructors (notes, `dtor_throw_breaks_invariant`): the container's own
                // destructor is noexcept, so an exception leaving ~T() inside it ends in std::terminate
                o.tag(std::is_nothrow_destructible_v<Vec> ? "dtor-noexcept" : "dtor-may-throw");
                if (!counter_fits(w, N))
                    o.fail("m_size has " + std::to_string(w) + " bits: it cannot hold the sizes 0.." + std::to_string(N));
                if (slots < N) o.fail("the storage has " + std::to_string(slots) + " slots, N=" + std::to_string(N));
                if (data_slot_bytes<Vec>() != 0 && data_slot_bytes<Vec>() < sizeof(T)) o.fail("a slot is smaller than T");
                return;
            }
            // `thr k <op>`: the (k+1)-th element construction inside <op> throws
            // `thra a erase r i j`: the (a+1)-th element move-assignment inside erase throws
            std::vector<std::string> wbuf;
            long thr = -1, thra = -1;
            if (w0[0] == "thra")
            {
                if (w0.size() < 3)
                {
                    o.result = "bad-op";
                    return;
                }
                if (!ET::trk || port || w0[2] != "erase")
                {
                    o.result = "bad";
                    return;
                }
                thra = atol(w0[1].c_str());
                wbuf.assign(w0.begin() + 2, w0.end());
            }
            if (w0[0] == "thr")
            {
                if (w0.size() < 3)
                {
                    o.result = "bad-op";
                    return;
                }
                if (!ET::trk)
                {
                    o.result = "bad"; // int has no constructor that could throw
                    return;
                }
                thr = atol(w0[1].c_str());
                wbuf.assign(w0.begin() + 2, w0.end());
            }
            const std::vector<std::string> &w = (thr >= 0 || thra >= 0) ? wbuf : w0;
            const std::string &c = w[0];
            auto R = [&](size_t i) { return i < w.size() ? atoi(w[i].c_str()) : -1; };
            int r = R(1), s = R(2);
            bool bad = false, thrown = false;
            L().events.clear();
            L().throw_in = thr;
            L().throw_asg_in = thra;
            try
            {
            if (c == "new")
            {
                if (!empty_reg(r)) bad = true;
                else
                {
                    void *m = place(r);
                    preregister(r, m);
                    { Strict _g;
                    regs[r].v = new (m) Vec();
                    }
                    regs[r].ref.clear();
                }
            }
            else if (c == "copy" || c == "move")
            {
                if (!empty_reg(r) || !has(s)) bad = true;
                else
                {
                    void *m = place(r);
                    preregister(r, m);
                    { Strict _g;
                    if (c == "copy")
                        regs[r].v = new (m) Vec(*(const Vec *)regs[s].v);
                    else
                        regs[r].v = new (m) Vec(std::move(*regs[s].v));
                    }
                    regs[r].ref = regs[s].ref;
                    if (c == "move")
                    {
                        o.tag("move-ctor");
                        after_move_source(s, o);
                    }
                }
            }
            else if (c == "range" || c == "il" || c == "rangev" || c == "ranges")
            {
                if constexpr (port)
                    bad = true;
                else
                {
                    if (!empty_reg(r)) bad = true;
                    else
                    {
                        std::vector<int> xs = ints_from(w, 2);
                        // the argument lives in an exactly sized heap array
                        struct SrcGuard
                        {
                            T *p;
                            size_t n;
                            ~SrcGuard()
                            {
                                for (size_t i = 0; i < n; i++)
                                    p[i].~T();
                                free(p);
                            }
                        } guard{(T *)malloc(xs.size() ? xs.size() * sizeof(T) : 1), 0};
                        T *src = guard.p;
                        for (size_t i = 0; i < xs.size(); i++)
                        {
                            new (src + i) T(ET::make(xs[i]));
                            guard.n = i + 1;
                        }
                        void *m = place(r);
                        preregister(r, m);
                        if (c == "rangev")
                        {
                            // iterators of a (longer) std::vector
                            std::vector<T> sv((const T *)src, (const T *)src + xs.size());
                            { Strict _g;
                            regs[r].v = new (m) Vec(sv.cbegin(), sv.cend());
                            }
                            o.tag("range-std-vector");
                        }
                        else if (c == "ranges" && N > 8)
                            bad = true; // instantiated for the small capacities only
                        else if (c == "ranges")
                        {
                            // begin()/end() of another static_vector with a larger capacity
                            using Big = typename Twin::template vec<T, (N <= 8 ? 2 * N + 2 : 1)>;
                            std::unique_ptr<Big> big(new Big((const T *)src, (const T *)src + xs.size()));
                            if (big->size() != std::min(xs.size(), 2 * N + 2)) o.fail("source static_vector<T,2N+2> size");
                            { Strict _g;
                            regs[r].v = new (m) Vec(((const Big &)*big).begin(), ((const Big &)*big).end());
                            }
                            if (xs.size() > 2 * N + 2) xs.resize(2 * N + 2);
                            o.tag("range-bigger-static-vector");
                        }
                        else
                        { Strict _g;
                        if (c == "range")
                            regs[r].v = new (m) Vec((const T *)src, (const T *)src + xs.size());
                        else
                        {
                            std::initializer_list<T> il = make_il<T>(src, xs.size());
                            regs[r].v = new (m) Vec(il);
                        }
                        }
                        regs[r].ref = take_n(xs);
                        if (xs.size() > N) o.tag("ctor-excess");
                        if (xs.size() == N) o.tag("ctor-exact");
                    }
                }
            }
            else if (c == "acopy" || c == "amove")
            {
                if (!has(r) || !has(s)) bad = true;
                else
                {
                    { Strict _g;
                    if (c == "acopy")
                        *regs[r].v = *(const Vec *)regs[s].v;
                    else
                        *regs[r].v = std::move(*regs[s].v);
                    }
                    if (r == s) o.tag("self-assign");
                    else
                    {
                        if (!regs[r].ref.empty()) o.tag("assign-over-live");
                        regs[r].ref = regs[s].ref;
                        if (c == "amove")
                            after_move_source(s, o);
                    }
                }
            }
            else if (c == "push" || c == "emplace")
            {
                if (!has(r)) bad = true;
                else
                {
                    int x = R(2);
                    if (regs[r].ref.size() >= N) o.tag("full-drop");
                    if (c == "push")
                    {
                        T tmp = ET::make(x);
                        { Strict _g;
                        regs[r].v->push_back(tmp);
                        }
                    }
                    else
                    {
                        { Strict _g;
                        regs[r].v->emplace_back(x);
                        }
                    }
                    if (regs[r].ref.size() < N)
                        regs[r].ref.push_back({x, false});
                }
            }
            else if (c == "resize")
            {
                if (!has(r)) bad = true;
                else
                {
                    size_t n = (size_t)R(2);
                    if (n > N) o.tag("resize-clamp");
                    if (n < regs[r].ref.size()) o.tag("resize-shrink");
                    { Strict _g;
                    regs[r].v->resize(n);
                    }
                    size_t m = n > N ? N : n;
                    if (m <= regs[r].ref.size())
                        regs[r].ref.resize(m);
                    else
                        while (regs[r].ref.size() < m)
                            regs[r].ref.push_back({0, false});
                }
            }
            else if (c == "erase")
            {
                if constexpr (port)
                    bad = true;
                else
                {
                    int i = R(2), j = R(3);
                    if (!has(r) || i < 0 || i > j || (size_t)j > regs[r].ref.size()) bad = true;
                    else
                    {
                        if (i == j) o.tag("erase-empty");
                        else if ((size_t)j < regs[r].ref.size()) o.tag("erase-middle");
                        else o.tag("erase-tail");
                        { Strict _g;
                        regs[r].v->erase(regs[r].v->begin() + i, regs[r].v->begin() + j);
                        }
                        regs[r].ref.erase(regs[r].ref.begin() + i, regs[r].ref.begin() + j);
                    }
                }
            }
            else if (c == "at" || c == "front" || c == "back")
            {
                // read accessors: operator[], data(), begin()/end(), front(), back(), const and non-const
                size_t sz = has(r) ? regs[r].ref.size() : 0;
                long idx = c == "at" ? s : c == "front" ? 0 : (long)sz - 1;
                if (!has(r) || sz == 0 || idx < 0 || (size_t)idx >= sz) bad = true;
                else
                {
                    Vec &v = *regs[r].v;
                    const Vec &cv = v;
                    size_t i = (size_t)idx;
                    RE e = c == "at" ? ET::get(v[i]) : c == "front" ? ET::get(v.front()) : ET::get(v.back());
                    RE alt[] = {ET::get(cv[i]), ET::get(v.data()[i]), ET::get(cv.data()[i]), ET::get(*(v.begin() + i)),
                                ET::get(*(cv.begin() + i)), ET::get(*(cv.end() - (sz - i))), ET::get(*(v.end() - (sz - i))),
                                c == "back" ? ET::get(cv.back()) : ET::get(cv.front())};
                    for (size_t q = 0; q < 7; q++)
                        if (!(alt[q] == e)) o.fail("accessors disagree on element " + std::to_string(i));
                    if (c != "at" && !(alt[7] == e)) o.fail("const " + c + "() disagrees");
                    if (!(e == regs[r].ref[i])) o.fail(c + ": element " + std::to_string(i) + " is " + show(e) + " expected " + show(regs[r].ref[i]));
                    if (i + 1 == N) o.tag("access-last-slot");
                    for (auto &er : L().errors) o.fail(er);
                    L().errors.clear();
                    L().throw_in = -1;
                    o.result = show(e);
                    return;
                }
            }
            else if (c == "wat" || c == "wfront" || c == "wback")
            {
                // writes through the reference / pointer / iterator an accessor hands out
                size_t sz = has(r) ? regs[r].ref.size() : 0;
                long idx = c == "wat" ? s : c == "wfront" ? 0 : (long)sz - 1;
                int x = c == "wat" ? R(3) : R(2);
                int via = c == "wat" && w.size() > 4 ? R(4) : 0;
                if (!has(r) || sz == 0 || idx < 0 || (size_t)idx >= sz) bad = true;
                else
                {
                    Vec &v = *regs[r].v;
                    size_t i = (size_t)idx;
                    T tmp = ET::make(x);
                    { Strict _g;
                    if (c == "wfront") v.front() = tmp;
                    else if (c == "wback") v.back() = tmp;
                    else if (via == 1) v.data()[i] = tmp;
                    else if (via == 2) *(v.begin() + i) = tmp;
                    else v[i] = tmp;
                    }
                    regs[r].ref[i] = {x, false};
                    o.tag(c == "wat" ? "write-index" : "write-front-back");
                    if (i + 1 == N) o.tag("write-last-slot");
                }
            }
            else if (c == "wfill")
            {
                if (!has(r)) bad = true;
                else
                {
                    int x = R(2);
                    T tmp = ET::make(x);
                    size_t n = 0;
                    { Strict _g;
                    for (auto &e : *regs[r].v) { e = tmp; n++; }
                    }
                    if (n != regs[r].ref.size()) o.fail("range-for visited " + std::to_string(n) + " elements, size is " + std::to_string(regs[r].ref.size()));
                    for (auto &e : regs[r].ref) e = {x, false};
                    o.tag("write-range-for");
                }
            }
            else if (c == "take")
            {
                // T y = std::move(v[i]): the element stays alive, moved-from
                if (!has(r) || s < 0 || (size_t)s >= regs[r].ref.size()) bad = true;
                else
                {
                    RE got;
                    {
                        T y(std::move((*regs[r].v)[(size_t)s]));
                        got = ET::get(y);
                    }
                    if (!(got == regs[r].ref[(size_t)s])) o.fail("moved-out element is " + show(got) + " expected " + show(regs[r].ref[(size_t)s]));
                    if (ET::trk) regs[r].ref[(size_t)s].moved = true;
                    o.tag("move-out-of-element");
                }
            }
            else if (c == "clear")
            {
                if (!has(r)) bad = true;
                else
                {
                    if (!regs[r].ref.empty()) o.tag("clear-live");
                    { Strict _g;
                    regs[r].v->clear();
                    }
                    regs[r].ref.clear();
                }
            }
            else if (c == "del")
            {
                if (!has(r)) bad = true;
                else
                    destroy_reg(r, o);
            }
            else if (c == "finish")
            {
                for (int q = K - 1; q >= 0; q--)
                    if (has(q))
                        destroy_reg(q, o);
                if (ET::trk)
                {
                    if (L().ctors != L().dtors)
                        o.fail("constructed " + std::to_string(L().ctors) + " destroyed " + std::to_string(L().dtors));
                    if (!L().live.empty())
                        o.fail("live elements at the end");
                }
            }
            else
            {
                L().throw_in = -1;
                o.result = "bad-op";
                return;
            }
            }
            catch (const Thrown &)
            {
                thrown = true;
            }
            L().throw_in = -1;
            L().throw_asg_in = -1;
            if (bad)
            {
                o.result = "bad";
                L().events.clear();
                return;
            }
            if (thrown && thra >= 0)
            {
                // erase(begin()+i, begin()+j) left by its (a+1)-th assignment: nothing destroyed, the size
                // unchanged; [i,i+a) hold what was at [j,j+a), the sources not overwritten are moved-from
                o.tag("threw");
                o.tag("erase-assign-threw");
                size_t i = (size_t)R(2), j = (size_t)R(3), a = (size_t)thra;
                std::vector<RE> old = regs[r].ref;
                for (size_t p = 0; p < old.size(); p++)
                {
                    if (p >= i && p < i + a) regs[r].ref[p] = old[p + (j - i)];
                    else if (p >= j && p < j + a) regs[r].ref[p].moved = true;
                }
            }
            else if (thrown)
                after_throw(w, (size_t)thr, o);
            // ---- observe + oracle
            std::string st;
            size_t total = 0;
            for (int q = 0; q < K; q++)
            {
                if (q) st += " ";
                st += std::to_string(q) + ":";
                if (!regs[q].v)
                {
                    st += "-";
                    continue;
                }
                Vec &v = *regs[q].v;
                const Vec &cv = v;
                size_t sz = v.size();
                st += std::to_string(sz) + "/" + std::to_string(v.room()) + "[";
                // inline storage: N slots of T, inside the object, at the same place for every object of the type
                if ((const char *)v.data() != (const char *)regs[q].place->obj + data_offset())
                    o.fail("data() moved inside the object");
                if (data_offset() + N * sizeof(T) > sizeof(Vec))
                    o.fail("the storage of N elements does not lie inside the object");
                if (sz > N)
                {
                    o.fail("size " + std::to_string(sz) + " > N=" + std::to_string(N));
                    sz = N;
                }
                if (v.room() != N - v.size()) o.fail("room");
                const std::vector<RE> &ref = regs[q].ref;
                if (v.size() != ref.size())
                    o.fail("container " + std::to_string(q) + " size " + std::to_string(v.size()) + " expected " + std::to_string(ref.size()));
                uint32_t dg = 7;
                for (size_t i = 0; i < sz; i++)
                {
                    RE e = ET::get(cv[i]);
                    if (N >= HUGE_N)
                        digest_add(dg, e.moved ? 0u : (uint32_t)e.v + 1u);
                    else
                    {
                        if (i) st += ",";
                        st += show(e);
                    }
                    if (i < ref.size() && !(e == ref[i]))
                        o.fail("container " + std::to_string(q) + " element " + std::to_string(i) + " is " + show(e) + " expected " + show(ref[i]));
                    if (!(ET::get(v.data()[i]) == e) || !(ET::get(*(cv.begin() + i)) == e))
                        o.fail("data()/begin() disagree with operator[]");
                }
                if (N >= HUGE_N)
                    st += digest_show(dg);
                st += "]";
                if ((size_t)(cv.end() - cv.begin()) != v.size()) o.fail("end()-begin()");
                if (sz && sz == v.size())
                {
                    if (!(ET::get(cv.front()) == ET::get(cv[0]))) o.fail("front()");
                    if (!(ET::get(cv.back()) == ET::get(cv[sz - 1]))) o.fail("back()");
                }
                if (!regs[q].place->intact())
                    o.fail("canary around container " + std::to_string(q) + " overwritten");
                total += ref.size();
                if (ET::trk)
                    for (auto &rg : L().regions)
                        if (rg.reg == q)
                        {
                            // exactly the slots [0,size) hold a live object
                            size_t n = L().live_in(rg);
                            if (n != ref.size())
                                o.fail("container " + std::to_string(q) + " holds " + std::to_string(n) + " live objects, size is " + std::to_string(ref.size()));
                            for (size_t i = 0; i < ref.size() && i < N; i++)
                                if (!L().live.count(rg.base + i * rg.elsz))
                                    o.fail("slot " + std::to_string(i) + " of container " + std::to_string(q) + " holds no object");
                        }
            }
            for (auto &e : L().errors)
                o.fail(e);
            L().errors.clear();
            if (ET::trk)
            {
                if ((size_t)(L().ctors - L().dtors) != total)
                    o.fail("ledger: " + std::to_string(L().ctors - L().dtors) + " live elements, sizes sum to " + std::to_string(total));
                o.result = st + " | " + L().take_events() + " | " + std::to_string(L().ctors - L().dtors);
                if (thr >= 0 || thra >= 0)
                    o.result += thrown ? " | threw" : " | done";
            }
            else
                o.result = st + " | - | -";
        }
    };

    // ============================================================ string machine
    template <class Twin, size_t N> struct SMachine : IMachine
    {
        using Str = typename Twin::template str<N>;
        static constexpr bool port = Twin::port;
        struct Reg
        {
            std::unique_ptr<Place> place;
            Str *s = nullptr;
            std::string ref;
        };
        int K;
        bool canary;
        std::vector<Reg> regs;
        SMachine(int k, bool c) : K(k), canary(c), regs(k) {}
        bool has(int r) { return r >= 0 && r < K && regs[r].s; }
        bool empty_reg(int r) { return r >= 0 && r < K && !regs[r].s; }
        int width() override { return msize_bits<Str>(); }
        void *place(int r)
        {
            regs[r].place.reset(new Place(canary, sizeof(Str)));
            return regs[r].place->obj;
        }
        static std::string cut(const std::string &s) { return s.substr(0, std::min(s.size(), N)); }
        // bytes as hex, or (capacities >= HUGE_N) as "#digest/length"
        static std::string showb(const std::string &s)
        {
            if (N < HUGE_N) return hv::hex(s);
            uint32_t h = 7;
            for (unsigned char ch : s) digest_add(h, (uint32_t)ch + 1u);
            return digest_show(h) + "/" + std::to_string(s.size());
        }

        template <size_t VS, size_t SS> void do_split(Str &s, char d, const std::string &ref, hv::out &o)
        {
            if constexpr (port)
            {
                auto toks = s.template split<VS, SS>(d);
                // reference tokenizer
                std::vector<std::string> rt;
                size_t i = 0;
                while (i < ref.size())
                {
                    while (i < ref.size() && ref[i] == d) i++;
                    if (i >= ref.size()) break;
                    size_t b = i;
                    while (i < ref.size() && ref[i] != d) i++;
                    rt.push_back(ref.substr(b, std::min(i - b, SS)));
                }
                if (rt.size() > VS) { rt.resize(VS); o.tag("split-vec-full"); }
                std::string res = std::to_string(toks.size());
                if (toks.size() != rt.size()) o.fail("split: " + std::to_string(toks.size()) + " tokens, expected " + std::to_string(rt.size()));
                for (size_t k = 0; k < toks.size() && k < VS; k++)
                {
                    auto &t = toks[k];
                    std::string got;
                    size_t tsz = t.size();
                    if (tsz > SS) { o.fail("token longer than its capacity"); tsz = SS; }
                    for (size_t q = 0; q < tsz; q++) got.push_back(t[q]);
                    res += " " + hv::hex(got);
                    if (k < rt.size() && got != rt[k]) o.fail("split token " + std::to_string(k));
                    if (k < rt.size() && rt[k].size() == SS) o.tag("split-token-cut");
                }
                o.result = res;
            }
        }

        void op(const std::vector<std::string> &w, hv::out &o) override
        {
            const std::string &c = w[0];
            auto R = [&](size_t i) { return i < w.size() ? atoi(w[i].c_str()) : -1; };
            auto B = [&](size_t i) -> int {
                auto v = hv::unhex(i < w.size() ? w[i] : "");
                return v.size() == 1 ? v[0] : -1;
            };
            int r = R(1);
            bool bad = false;
            std::string res = "-";
            if (c == "width")
            {
                // N characters and the terminator of c_str() need N + 1 bytes; more is harmless (tag, not result);
                // `data` / `_data` are internal names: 0 = not nameable, then sizeof the object bounds the storage
                int wd = width();
                size_t bytes = str_bytes<Str>();
                if (bytes == 0)
                {
                    bytes = sizeof(Str);
                    o.tag("bytes-by-sizeof");
                }
                o.result = "w=" + std::to_string(wd) + " bytes=" + std::to_string(bytes >= N + 1 ? N + 1 : bytes);
                o.tag(("w" + std::to_string(wd)).c_str());
                o.tag(("bytes" + std::to_string(bytes)).c_str());
                if (!counter_fits(wd, N))
                    o.fail("m_size has " + std::to_string(wd) + " bits: it cannot hold the sizes 0.." + std::to_string(N));
                if (bytes < N + 1) o.fail("data has " + std::to_string(bytes) + " bytes, N+1=" + std::to_string(N + 1));
                return;
            }
            if (c == "sgetany")
            {
                // operator[] at any position <= N (the terminator slot included) is inside data[N+1];
                // the byte is compared below size() only
                int i = R(2);
                if (!has(r) || i < 0 || (size_t)i > N) { o.result = "bad"; return; }
                char ch = (*regs[r].s)[(size_t)i];
                const Str &cs = *regs[r].s;
                if (cs[(size_t)i] != ch) o.fail("const operator[] disagrees");
                if ((size_t)i < regs[r].ref.size())
                {
                    uint8_t b = (uint8_t)ch;
                    o.result = hv::hex(&b, 1);
                    if (ch != regs[r].ref[(size_t)i]) o.fail("operator[]");
                }
                else
                    o.result = "in";
                if ((size_t)i == N) o.tag("index-terminator-slot");
                return;
            }
            if (c == "snew")
            {
                if (!empty_reg(r)) bad = true;
                else { regs[r].s = new (place(r)) Str; regs[r].ref.clear(); }
            }
            else if (c == "sptr")
            {
                if (!empty_reg(r) || w.size() < 3) bad = true;
                else
                {
                    std::vector<uint8_t> a = hv::unhex(w[2]);
                    a.push_back(0);
                    hv::exact_buf arg(a);
                    regs[r].s = new (place(r)) Str((const char *)arg.p);
                    std::string full((const char *)a.data());
                    regs[r].ref = cut(full);
                    if (full.size() > N) o.tag("cstr-excess");
                    if (full.size() == N) o.tag("cstr-exact");
                }
            }
            else if (c == "sptrlen")
            {
                if constexpr (!port) bad = true;
                else
                {
                    std::vector<uint8_t> a = w.size() >= 4 ? hv::unhex(w[2]) : std::vector<uint8_t>();
                    int n = R(3);
                    if (!empty_reg(r) || n < 0 || (size_t)n > a.size()) bad = true;
                    else
                    {
                        hv::exact_buf arg(a);
                        regs[r].s = new (place(r)) Str((const char *)arg.p, (size_t)n);
                        regs[r].ref = cut(std::string((const char *)a.data(), (size_t)n));
                        if ((size_t)n > N) o.tag("ptrlen-excess");
                    }
                }
            }
            else if (c == "scopy")
            {
                int s = R(2);
                if (!empty_reg(r) || !has(s)) bad = true;
                else { regs[r].s = new (place(r)) Str(*regs[s].s); regs[r].ref = regs[s].ref; }
            }
            else if (c == "spush" || c == "sadd")
            {
                int ch = B(2);
                if (!has(r) || ch < 0) bad = true;
                else if (c == "sadd")
                {
                    if constexpr (!port) bad = true;
                    else { *regs[r].s += (char)ch; }
                }
                else
                    regs[r].s->push_back((char)ch);
                if (!bad)
                {
                    if (regs[r].ref.size() < N) regs[r].ref.push_back((char)ch);
                    else o.tag("full-drop");
                }
            }
            else if (c == "sclear")
            {
                if constexpr (!port) bad = true;
                else
                {
                    if (!has(r)) bad = true;
                    else { regs[r].s->clear(); regs[r].ref.clear(); }
                }
            }
            else if (c == "scstr")
            {
                if (!has(r)) bad = true;
                else
                {
                    const char *p = regs[r].s->c_str();
                    std::string got(p);
                    res = showb(got);
                    // the C string is the contents up to its first NUL
                    std::string want = regs[r].ref.substr(0, std::min(regs[r].ref.size(), strlen(regs[r].ref.c_str())));
                    if (got != want) o.fail("c_str() = " + showb(got.substr(0, 24)) + " (" + std::to_string(got.size()) + " chars) expected " + showb(want.substr(0, 24)) + " (" + std::to_string(want.size()) + " chars)");
                    if (regs[r].ref.size() == N) o.tag("cstr-full");
                }
            }
            else if (c == "sget")
            {
                int i = R(2);
                if (!has(r) || i < 0 || (size_t)i >= regs[r].ref.size()) bad = true;
                else
                {
                    char ch = (*regs[r].s)[(size_t)i];
                    uint8_t b = (uint8_t)ch;
                    res = hv::hex(&b, 1);
                    if (ch != regs[r].ref[(size_t)i]) o.fail("operator[]");
                }
            }
            else if (c == "sset")
            {
                int i = R(2), ch = B(3);
                if (!has(r) || i < 0 || (size_t)i >= regs[r].ref.size() || ch < 0) bad = true;
                else { (*regs[r].s)[(size_t)i] = (char)ch; regs[r].ref[(size_t)i] = (char)ch; }
            }
            else if (c == "ssetv")
            {
                // the same write through begin() (k = 1) / data() (k = 2, std_portable.h only)
                int i = R(2), ch = B(3), k = R(4);
                if (!has(r) || i < 0 || (size_t)i >= regs[r].ref.size() || ch < 0) bad = true;
                else
                {
                    if (k == 2)
                    {
                        if constexpr (port) regs[r].s->data()[(size_t)i] = (char)ch;
                        else *(regs[r].s->begin() + i) = (char)ch;
                    }
                    else
                        *(regs[r].s->begin() + i) = (char)ch;
                    regs[r].ref[(size_t)i] = (char)ch;
                    o.tag("write-iterator");
                }
            }
            else if (c == "sstoi")
            {
                // stoi / stol / stoll / stod(static_string): read through c_str() (terminator inside the
                // object also at size() == N); judged against glibc on the reference string
                if constexpr (!port) bad = true;
                else
                {
                    if (!has(r)) bad = true;
                    else
                    {
                        const Str &cs = *regs[r].s;
                        std::string ref0 = regs[r].ref.substr(0, strlen(regs[r].ref.c_str()));
                        long want = strtol(ref0.c_str(), nullptr, 10);
                        int a = Twin::stoi_(cs);
                        long b = Twin::stol_(cs);
                        long long c2 = Twin::stoll_(cs);
                        double d = Twin::stod_(cs);
                        if (a != (int)want || b != want || c2 != (long long)want)
                            o.fail("stoi/stol/stoll of '" + ref0 + "' = " + std::to_string(a) + "/" + std::to_string(b) + "/" + std::to_string(c2) + " expected " + std::to_string(want));
                        // igris_atof32 computes in binary32: integers below 2^24 are exact (its accuracy is another property's subject)
                        if (want > -16777216 && want < 16777216 && d != (double)want) o.fail("stod of '" + ref0 + "' = " + std::to_string(d));
                        res = "num";
                        if (regs[r].ref.size() == N) o.tag("stoi-full");
                    }
                }
            }
            else if (c == "sdel")
            {
                if (!has(r)) bad = true;
                else { regs[r].s->~Str(); regs[r].s = nullptr; regs[r].place.reset(); regs[r].ref.clear(); }
            }
            else if (c == "ssplit")
            {
                int d = B(2), vs = R(3), ss = R(4);
                if constexpr (!port || (N > 8)) bad = true; // split is exercised at the small capacities only
                else if (!has(r) || d < 0) bad = true;
                else
                {
                    Str &s = *regs[r].s;
                    const std::string &ref = regs[r].ref;
                    o.result = "";
#define C14_SPLIT(V, S) else if (vs == V && ss == S) do_split<V, S>(s, (char)d, ref, o);
                    if (false) {}
                    C14_SPLIT(1, 1) C14_SPLIT(1, 2) C14_SPLIT(1, 4)
                    C14_SPLIT(2, 1) C14_SPLIT(2, 2) C14_SPLIT(2, 4)
                    C14_SPLIT(3, 1) C14_SPLIT(3, 2) C14_SPLIT(3, 4)
                    else bad = true;
#undef C14_SPLIT
                    res = o.result;
                }
            }
            else
            {
                o.result = "bad-op";
                return;
            }
            if (bad)
            {
                o.result = "bad";
                return;
            }
            std::string st;
            for (int q = 0; q < K; q++)
            {
                if (q) st += " ";
                st += std::to_string(q) + ":";
                if (!regs[q].s) { st += "-"; continue; }
                Str &s = *regs[q].s;
                size_t sz = s.size();
                if (sz > N) { o.fail("size " + std::to_string(sz) + " > N=" + std::to_string(N)); sz = N; }
                if (s.room() != N - s.size()) o.fail("room");
                std::string got;
                for (size_t i = 0; i < sz; i++) got.push_back(s[i]);
                st += std::to_string(s.size()) + "/" + std::to_string(s.room()) + ":" + showb(got);
                if (got != regs[q].ref || s.size() != regs[q].ref.size())
                    o.fail("string " + std::to_string(q) + " is " + showb(got.substr(0, 24)) + " (size " + std::to_string(s.size()) + ") expected " + showb(regs[q].ref.substr(0, 24)) + " (size " + std::to_string(regs[q].ref.size()) + ")");
                if ((size_t)(s.end() - s.begin()) != s.size()) o.fail("end()-begin()");
                if ((const void *)s.begin() != (const void *)&s[0]) o.fail("begin() is not &s[0]");
                if constexpr (port)
                    if ((const void *)s.data() != (const void *)&s[0]) o.fail("data() is not &s[0]");
                if (!regs[q].place->intact()) o.fail("canary around string " + std::to_string(q) + " overwritten");
            }
            o.result = res + " | " + st;
        }
    };

    // ---------------------------------------------------------------- before main()
    // A few operations run from the constructor of a static object with
    // init_priority(101) (before the harness's own statics): the classes must
    // not depend on anything that is initialised later.  The text is stored in
    // a zero-initialised buffer and reported by the op `premain`.
    template <class Twin> void premain_probe(char *out, size_t cap)
    {
        typename Twin::template vec<int, 3> v;
        for (int i = 1; i <= 4; i++) v.push_back(i);
        typename Twin::template vec<int, 3> w(v);
        v.resize(1);
        typename Twin::template str<3> s("abcdef");
        s.push_back('x');
        std::string t;
        auto showv = [&](auto &x) {
            t += std::to_string(x.size()) + "/" + std::to_string(x.room()) + "[";
            for (size_t i = 0; i < x.size() && i < 3; i++) t += (i ? "," : "") + std::to_string(x[i]);
            t += "]";
        };
        showv(v);
        t += " ";
        showv(w);
        t += " " + std::to_string(s.size()) + ":" + std::string(s.c_str());
        snprintf(out, cap, "%s", t.c_str());
    }
    const char *premain_c();
    const char *premain_p();

#define C14_V(n) if (N == n) return trk ? (IMachine *)new VMachine<Twin, Tracked, n>(K, canary) : (IMachine *)new VMachine<Twin, int, n>(K, canary);
#define C14_VT(n) if (N == n && trk) return new VMachine<Twin, Tracked, n>(K, canary);
#define C14_VI(n) if (N == n && !trk) return new VMachine<Twin, int, n>(K, canary);
#define C14_S(n) if (N == n) return new SMachine<Twin, n>(K, canary);
    // One translation unit per group of instantiations and twin (the build runs
    // them in parallel): harness/C14/{c,p}_{small_trk,small_rest,big_trk,big_rest}.cpp.
    // The groups `big_*` hold the boundaries of a narrowed size counter (int8_t:
    // 128 values, uint8_t: 256, uint16_t: 65536): capacities just below, at
    // and above them (Tracked elements at 255..257, int at 65535..65537,
    // strings at all of them).
    template <class Twin> IMachine *make_small_trk(bool str, bool trk, size_t N, int K, bool canary)
    {
        if (str) return nullptr;
        C14_VT(0) C14_VT(1) C14_VT(2) C14_VT(3) C14_VT(8)
        return nullptr;
    }
    template <class Twin> IMachine *make_small_rest(bool str, bool trk, size_t N, int K, bool canary)
    {
        if (str)
        {
            C14_S(0) C14_S(1) C14_S(2) C14_S(3) C14_S(8)
            return nullptr;
        }
        C14_VI(0) C14_VI(1) C14_VI(2) C14_VI(3) C14_VI(8)
        return nullptr;
    }
    template <class Twin> IMachine *make_big_trk(bool str, bool trk, size_t N, int K, bool canary)
    {
        if (str) return nullptr;
        C14_VT(255) C14_VT(256) C14_VT(257)
        return nullptr;
    }
    template <class Twin> IMachine *make_big_rest(bool str, bool trk, size_t N, int K, bool canary)
    {
        if (str)
        {
            C14_S(127) C14_S(128) C14_S(255) C14_S(256) C14_S(257) C14_S(65535) C14_S(65536) C14_S(65537) C14_S(307200)
            return nullptr;
        }
        C14_VI(65535) C14_VI(65536) C14_VI(65537)
        return nullptr;
    }
#undef C14_V
#undef C14_VT
#undef C14_VI
#undef C14_S

    IMachine *make_c_small_trk(bool str, bool trk, size_t N, int K, bool canary);
    IMachine *make_c_small_rest(bool str, bool trk, size_t N, int K, bool canary);
    IMachine *make_c_big_trk(bool str, bool trk, size_t N, int K, bool canary);
    IMachine *make_c_big_rest(bool str, bool trk, size_t N, int K, bool canary);
    IMachine *make_p_small_trk(bool str, bool trk, size_t N, int K, bool canary);
    IMachine *make_p_small_rest(bool str, bool trk, size_t N, int K, bool canary);
    IMachine *make_p_big_trk(bool str, bool trk, size_t N, int K, bool canary);
    IMachine *make_p_big_rest(bool str, bool trk, size_t N, int K, bool canary);
}

#endif
