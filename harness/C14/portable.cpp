// C14 harness, second translation unit: the std_portable.h twins.
// igris/container/std_portable.h defines igris::static_vector / static_string
// again (and its own igris::vector, igris::string, igris::move …); to link it
// into the same program as igris/container/static_vector.h the namespace is
// renamed for this translation unit only.
#include "C14/machine.h"

#define igris igris_portable
#include <igris/container/std_portable.h>

namespace
{
    struct TwinP
    {
        static constexpr bool port = true;
        template <class T, size_t N> using vec = igris::static_vector<T, N>;
        template <size_t N> using str = igris::static_string<N>;
    };
}

namespace c14
{
    IMachine *make_vec_portable(bool trk, size_t N, int K, bool canary) { return make_vec<TwinP>(trk, N, K, canary); }
    IMachine *make_str_portable(size_t N, int K, bool canary) { return make_str<TwinP>(N, K, canary); }
}
