// C14 harness, one group of instantiations: static_vector<int,N> and static_string<N>, N = 1, 2, 3, 8
#include "C14/twin_p.h"
C14_FACTORY(small_rest)
namespace
{
    char premain_buf[128];
    struct PreMain
    {
        PreMain() { c14::premain_probe<TwinP>(premain_buf, sizeof premain_buf); }
    };
    PreMain premain_obj __attribute__((init_priority(101)));
}
namespace c14 { const char *premain_p() { return premain_buf; } }
