// C14 harness, one group of instantiations: static_vector<int,N> and static_string<N>, N = 1, 2, 3, 8
#include "C14/twin_p.h"
C14_FACTORY(small_rest)
