// the std_portable.h twin.  igris/container/std_portable.h defines
// igris::static_vector / static_string again (and its own igris::vector,
// igris::string, igris::move ...); to link it into the same program as
// igris/container/static_vector.h the namespace is renamed for the translation
// units that include this header.
#include "C14/prelude.h"
#define igris igris_portable
#include <igris/container/std_portable.h>
// library and standard headers: the flags of the command line; the harness's own code: no optimisation (see twin_c.h)
#pragma GCC optimize("O0")
#include "C14/machine.h"
namespace
{
    struct TwinP
    {
        static constexpr bool port = true;
        template <class T, size_t N> using vec = igris::static_vector<T, N>;
        template <size_t N> using str = igris::static_string<N>;
        template <size_t N> static int stoi_(const igris::static_string<N> &s) { return igris::stoi(s); }
        template <size_t N> static long stol_(const igris::static_string<N> &s) { return igris::stol(s); }
        template <size_t N> static long long stoll_(const igris::static_string<N> &s) { return igris::stoll(s); }
        template <size_t N> static double stod_(const igris::static_string<N> &s) { return igris::stod(s); }
    };
}
#define C14_TWIN TwinP
#define C14_FACTORY(group) \
    namespace c14 { IMachine *make_p_##group(bool str, bool trk, size_t N, int K, bool canary) { return make_##group<TwinP>(str, trk, N, K, canary); } }
