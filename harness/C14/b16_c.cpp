// C14 harness: igris/container/ twin at the capacities around a narrowed
// 16-bit size counter (65535, 65536, 65537; int vectors also 127, 128).
#include "C14/machine.h"
#include <igris/container/static_vector.h>
#include <igris/container/static_string.h>
namespace
{
    struct TwinC
    {
        static constexpr bool port = false;
        template <class T, size_t N> using vec = igris::static_vector<T, N>;
        template <size_t N> using str = igris::static_string<N>;
    };
}
namespace c14
{
    IMachine *make_b16_c(bool str, bool trk, size_t N, int K, bool canary)
    {
        return str ? make_str_b16<TwinC>(N, K, canary) : make_vec_b16<TwinC>(trk, N, K, canary);
    }
}
