// C14 harness, one group of instantiations: static_vector<int,N>, N = 65535, 65536, 65537; static_string<N>, N = 127, 128, 255, 256, 257, 65535, 65536, 65537
#include "C14/twin_c.h"
C14_FACTORY(big_rest)
