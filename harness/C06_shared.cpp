// C06 harness, shared part (see C06_common.h): write() under fdputc, argument parsing, the variadic shim and
// dispatch, the ISO classifier, helpers used by both the run side and the generator.
#include "C06_common.h"

// ---------------------------------------------------------------- write() under fdputc
// compat/libc/stdio/fdputc.c is compiled with -Dwrite=igv_write: the real
// fdputc runs, its system call lands here.
bytes g_fd_out;
long g_fd_limit = -1;
extern "C" ssize_t igv_write(int fd, const void *buf, size_t n)
{
    (void)fd;
    if (g_fd_limit >= 0 && (long)g_fd_out.size() >= g_fd_limit)
        return -1;
    for (size_t i = 0; i < n; i++)
        g_fd_out.push_back(((const uint8_t *)buf)[i]);
    return (ssize_t)n;
}

// ---------------------------------------------------------------- arguments
bool parse_arg(const std::string &w, Arg &a)
{
    if (w.size() < 2 || w[1] != ':')
        return false;
    a.kind = w[0];
    std::string r = w.substr(2);
    switch (a.kind)
    {
    case 'i':
    case 'l':
        a.v = strtoll(r.c_str(), 0, 10);
        return true;
    case 'p':
        a.v = (long long)strtoull(r.c_str(), 0, 16);
        return true;
    case 'n':
        return true;
    case 's':
    case 'u':
    case 'w':
        a.s = unhex(r);
        return true;
    case 'N':
        a.v = strtoll(r.c_str(), 0, 10);
        return true;
    }
    return false;
}

// ---------------------------------------------------------------- the shim
void sink_cb(void *d, int c)
{
    Sink *s = (Sink *)d;
    s->calls++;
    s->out.push_back((uint8_t)c);
}

static int shim(Call *c, const char *fmt, ...)
{
    va_list ap;
    va_start(ap, fmt);
    int r = 0;
    switch (c->which)
    {
    case W_PRINTF:
        r = __printf(sink_cb, c->sink, fmt, ap);
        break;
    case W_VSPRINTF:
        r = igv_vsprintf(c->buf, fmt, ap);
        break;
    case W_FD:
        r = vfdprintf(7, fmt, ap);
        break;
    case W_GLIBC:
        r = vsnprintf(c->buf, c->bufsz, fmt, ap);
        break;
    case W_VSNPRINTF:
#ifndef C06_NO_VSNPRINTF
        r = igv_vsnprintf(c->buf, c->bufsz, fmt, ap);
#endif
        break;
    default:
        break;
    }
    va_end(ap);
    return r;
}

// Build the variadic call with the right C types, argument by argument.
template <class... A> static int dispatch_t(Call *c, const char *fmt, const std::vector<Arg> &args, size_t i, A... a)
{
    if (i == args.size())
    {
        if (c->which == W_SPRINTF) // igv_sprintf: the variadic entry itself
            return igv_sprintf(c->buf, fmt, a...);
        if (c->which == W_SNPRINTF)
            return igv_snprintf(c->buf, c->bufsz, fmt, a...);
        if (c->which == W_FDPRINTF)
            return fdprintf(7, fmt, a...);
        return shim(c, fmt, a...);
    }
    if constexpr (sizeof...(A) < MAXARGS)
    {
        const Arg &x = args[i];
        switch (x.kind)
        {
        case 'i':
            return dispatch_t(c, fmt, args, i + 1, a..., (int)x.v);
        default:
            // every other argument (long, long long, intmax_t, size_t,
            // ptrdiff_t, char*, void*) is one 64-bit INTEGER-class slot on
            // LP64 SysV/AAPCS64; passing them all as `long long` keeps the
            // number of template instantiations (and the build time) small
            return dispatch_t(c, fmt, args, i + 1, a...,
                            x.kind == 'l' || x.kind == 'p' ? (long long)x.v : x.kind == 'n' ? 0LL : (long long)(uintptr_t)x.buf->p);
        }
    }
    return -777;
}

int dispatch(Call *c, const char *fmt, const std::vector<Arg> &args, size_t i) { return dispatch_t(c, fmt, args, i); }

// ---------------------------------------------------------------- ISO classifier
Parsed classify(const bytes &f, const std::vector<Arg> &args)
{
    Parsed P;
    size_t ai = 0;
    auto bad = [&](const char *w) { if (P.defined) { P.defined = false; P.why = w; } };
    auto next_int = [&](long &out) {
        P.need.push_back('i');
        if (ai >= args.size() || args[ai].kind != 'i') { bad("arg"); ai++; return; }
        out = (long)args[ai++].v;
    };
    for (size_t i = 0; i < f.size(); i++)
    {
        if (f[i] != '%')
            continue;
        Dir d;
        d.start = i;
        i++;
        for (; i < f.size(); i++)
        {
            if (f[i] == '-') d.minus = true;
            else if (f[i] == '+') d.plus = true;
            else if (f[i] == ' ') d.space = true;
            else if (f[i] == '#') d.hash = true;
            else if (f[i] == '0') d.zero = true;
            else break;
        }
        if (i < f.size() && f[i] == '*')
        {
            d.width_kind = 2;
            next_int(d.width);
            if (d.width == INT_MIN) bad("width INT_MIN");
            i++;
            // not ISO syntax, but igris skips digits here (it parses a precision
            // without '.'), so the conversion that follows still takes its argument
            while (i < f.size() && isdigit(f[i])) { bad("digits after *"); i++; }
        }
        else if (i < f.size() && isdigit(f[i]))
        {
            d.width_kind = 1;
            P.has_lit_wp = true;
            unsigned long long exact = 0; // saturating at LONG_MAX, like strtol
            while (i < f.size() && isdigit(f[i]))
            {
                if (d.width <= 100000) d.width = d.width * 10 + (f[i] - '0');
                if (d.width > 100000) bad("huge width");
                exact = exact > (unsigned long long)LONG_MAX / 10 - 1 ? (unsigned long long)LONG_MAX : exact * 10 + (unsigned)(f[i] - '0');
                i++;
            }
            if (exact > (unsigned long long)INT_MAX)
            {
                P.lit_overflow = true;
                int wrapped = (int)(long)exact;
                if (wrapped > 4096 || wrapped < -4096) P.lit_runnable = false;
            }
        }
        if (i < f.size() && f[i] == '.')
        {
            i++;
            d.prec_kind = 1;
            d.prec_written = true;
            if (i < f.size() && f[i] == '*')
            {
                d.prec_kind = 2;
                next_int(d.prec);
                i++;
            }
            else
            {
                if (i < f.size() && isdigit(f[i])) P.has_lit_wp = true;
                unsigned long long exact = 0;
                while (i < f.size() && isdigit(f[i]))
                {
                    if (d.prec <= 100000) d.prec = d.prec * 10 + (f[i] - '0');
                    if (d.prec > 100000) bad("huge precision");
                    exact = exact > (unsigned long long)LONG_MAX / 10 - 1 ? (unsigned long long)LONG_MAX : exact * 10 + (unsigned)(f[i] - '0');
                    i++;
                }
                if (exact > (unsigned long long)INT_MAX)
                {
                    P.lit_overflow = true;
                    int wrapped = (int)(long)exact;
                    if (wrapped > 4096 || wrapped < -4096) P.lit_runnable = false;
                }
            }
            if (d.prec < 0) d.prec_kind = 0; // negative precision: as if omitted
        }
        if (i < f.size() && f[i] == 'L')
        {
            d.len = "L";
            i++;
        }
        else if (i < f.size() && (f[i] == 'h' || f[i] == 'l'))
        {
            d.len = std::string(1, (char)f[i]);
            i++;
            if (i < f.size() && f[i] == (uint8_t)d.len[0]) { d.len += d.len; i++; }
        }
        else if (i < f.size() && (f[i] == 'j' || f[i] == 'z' || f[i] == 't'))
        {
            d.len = std::string(1, (char)f[i]);
            i++;
        }
        if (i >= f.size()) { bad("truncated directive"); P.dirs.push_back(d); break; }
        d.conv = (char)f[i];
        d.pos = i;
        bool plain = !d.minus && !d.plus && !d.space && !d.hash && !d.zero && !d.width_kind && !d.prec_written && d.len.empty();
        switch (d.conv)
        {
        case '%':
            if (!plain) bad("%% with options");
            break;
        case 'd': case 'i': case 'u':
            if (d.hash) bad("# with d/i/u");
            /* fallthrough */
        case 'o': case 'x': case 'X':
        {
            bool wide = d.len == "l" || d.len == "ll" || d.len == "j" || d.len == "z" || d.len == "t";
            if (d.len == "L") bad("L with integer conversion");
            d.argi = (int)ai;
            P.need.push_back(wide ? 'l' : 'i');
            if (ai >= args.size() || args[ai].kind != (wide ? 'l' : 'i')) bad("arg");
            ai++;
            break;
        }
        case 'c':
            if (d.len == "l" && ai < args.size() && args[ai].kind == 'i' && args[ai].v >= 1 && args[ai].v <= 127)
                P.wide = true; // %lc of an ASCII wint_t: defined (wcrtomb in the C locale gives the character)
            else if (!d.len.empty()) bad("option undefined for c");
            if (d.hash || d.zero || d.prec_kind) bad("option undefined for c");
            d.argi = (int)ai;
            P.need.push_back('i');
            if (ai >= args.size() || args[ai].kind != 'i') bad("arg");
            ai++;
            break;
        case 's':
            if (d.len == "l" && ai < args.size() && args[ai].kind == 'w')
            {
                // %ls of a wide string of ASCII characters: defined
                P.wide = true;
                if (d.hash || d.zero) bad("option undefined for s");
                d.argi = (int)ai;
                P.need.push_back('w');
                ai++;
                break;
            }
            if (d.hash || d.zero || !d.len.empty()) bad("option undefined for s");
            d.argi = (int)ai;
            P.need.push_back('s');
            if (ai >= args.size()) { bad("arg"); ai++; break; }
            if (args[ai].kind == 's') {}
            else if (args[ai].kind == 'u')
            {
                // an unterminated array needs a precision that stays inside it
                bool has_nul = false;
                for (auto b : args[ai].s) if (!b) has_nul = true;
                if (!has_nul && !(d.prec_kind && d.prec <= (long)args[ai].s.size())) bad("unterminated string");
            }
            else bad("arg");
            ai++;
            break;
        case 'p':
            P.has_p = true;
            if (d.hash || d.zero || d.plus || d.space || d.prec_kind || !d.len.empty()) bad("option undefined for p");
            d.argi = (int)ai;
            P.need.push_back('p');
            if (ai >= args.size() || args[ai].kind != 'p') bad("arg");
            ai++;
            break;
        case 'n':
            // ISO defines %n (without flags, width, precision); kept out of the glibc diff (glibc refuses %n in
            // a writable format under _FORTIFY_SOURCE), judged by its own oracle in `pn`
            P.has_n = true;
            d.argi = (int)ai;
            P.need.push_back('N');
            if (ai >= args.size() || args[ai].kind != 'N') bad("arg");
            ai++;
            bad("n conversion");
            break;
        default:
            bad("conversion outside the fragment");
        }
        P.dirs.push_back(d);
    }
    if (ai != args.size()) bad("surplus args");
    return P;
}

// ---------------------------------------------------------------- helpers of generator and run side
std::string arg_str(const Arg &a)
{
    switch (a.kind)
    {
    case 'i':
    case 'l':
        return std::string(1, a.kind) + ":" + std::to_string(a.v);
    case 'p':
    {
        char b[40];
        snprintf(b, sizeof b, "p:%llx", (unsigned long long)a.v);
        return b;
    }
    case 'n':
        return "n:";
    case 'N':
        return "N:" + std::to_string(a.v);
    default:
        return std::string(1, a.kind) + ":" + hex(a.s);
    }
}
bytes B(const std::string &s) { return bytes(s.begin(), s.end()); }
Arg AI(long long v) { Arg a; a.kind = 'i'; a.v = (int)v; return a; }
Arg AL(long long v) { Arg a; a.kind = 'l'; a.v = v; return a; }
Arg AP(unsigned long long v) { Arg a; a.kind = 'p'; a.v = (long long)v; return a; }
Arg AS(const bytes &s, bool term) { Arg a; a.kind = term ? 's' : 'u'; a.s = s; return a; }

unsigned long long conv_u(const Dir &d, long long v)
{
    if (d.len == "hh") return (unsigned char)v;
    if (d.len == "h") return (unsigned short)v;
    if (d.len == "" || d.len == "L") return (unsigned int)v;
    return (unsigned long long)v;
}
// the input classes of the recorded findings (see known_findings.d/C06.jsonl).
// The two classes of the first round (`#` with a zero value, %c of NUL) were
// repaired (fix: 8be88bc, ff2efab): they are ordinary ops now and only tagged.
std::string finding_key(const Parsed &P, const std::vector<Arg> &args)
{
    // C06-wide-ls (round 3): %ls reads its wchar_t array as a char string (the `l` is ignored, TODO in the
    // source): wrong as soon as ISO's output has two or more characters
    for (auto &d : P.dirs)
        if (d.conv == 's' && d.len == "l" && d.argi >= 0 && d.argi < (int)args.size() && args[d.argi].kind == 'w' &&
            args[d.argi].s.size() >= 2 && (!d.prec_kind || d.prec >= 2))
            return "C06-wide-ls";
    return "";
}
std::string former_finding_class(const Parsed &P, const std::vector<Arg> &args)
{
    if (!P.defined)
        return "";
    std::string key;
    for (auto &d : P.dirs)
    {
        std::string k;
        if (d.hash && (d.conv == 'o' || d.conv == 'x' || d.conv == 'X'))
        {
            // `#` with a zero value: %#x prints 0x0 (any precision), %#o
            // prints 00 when the effective precision is 1
            unsigned long long u = conv_u(d, args[d.argi].v);
            long prec = d.prec_kind ? d.prec : 1;
            if (u == 0 && (d.conv != 'o' || prec == 1))
                k = "C06-alt-zero";
        }
        if (d.conv == 'c' && (char)args[d.argi].v == 0)
            k = "C06-c-nul";
        if (!k.empty())
            key = k;
    }
    return key;
}

