// C02 harness: the generator (pure text generation, no igris code: optimisation off - it is compiled with the
// sanitizer flags of the other units only because bin/check has one set of flags)
#pragma GCC optimize("O0")
#include "common/hv.h"
#include <string>
#include <vector>
#include <algorithm>
#include <functional>
using namespace hv;

// ------------------------------------------------------------------ generator
struct Gen
{
    rng &R;
    std::vector<int> sz{0, 0, 0}, cap{0, 0, 0};
    bool portable = false;
    explicit Gen(rng &r) : R(r) {}
    std::string once; // prefix for the next emitted line only (`a <k> ` / `al <n> `: allocation failure)
    void emit(const std::string &s)
    {
        puts((once + s).c_str());
        once.clear();
    }
    static std::string S(int x) { return std::to_string(x); }
    int val() { return (int)R.range(0, 9); }
    int pos(int n) // boundary biased position in [0,n]
    {
        if (n == 0)
            return 0;
        switch (R.below(4))
        {
        case 0: return 0;
        case 1: return n;
        case 2: return n - 1;
        default: return (int)R.range(0, n);
        }
    }
    void begin(const char *ty, bool p)
    {
        portable = p;
        emit(std::string("reset ") + ty + (p ? " p" : " v"));
        sz = {0, 0, 0};
        cap = {0, 0, 0};
    }
    void grow(int r, int need)
    {
        if (need > cap[r])
            cap[r] = need;
    }
    // build register r with n elements and `slack` spare slots
    void build(int r, int n, int slack)
    {
        if (n + slack > 0)
        {
            emit("reserve " + S(r) + " " + S(n + slack));
            grow(r, n + slack);
        }
        for (int i = 0; i < n; i++)
        {
            emit((R.chance(50) ? "push " : "eback ") + S(r) + " " + S(1 + (int)R.below(9))); // non-zero: the memory is dirty afterwards
        }
        sz[r] = n;
    }
    // one operation on register r valid for the tracked size; returns false if not applicable.
    // fz >= 0: the operation is run with the exception fuse `x fz` (only kinds with a throwing-capable element
    // operation; the generator predicts whether the exception fires and what the vector holds afterwards)
    bool op(int kind, int r, int fz = -1)
    {
        int n = sz[r];
        std::string X = fz >= 0 ? "x " + S(fz) + " " : "";
        bool one = fz == 0; // kinds with exactly one throwing-capable operation throw iff the fuse is 0
        switch (kind)
        {
        case 0: emit(X + "push " + S(r) + " " + S(val())); if (one) return true; grow(r, n + 1); sz[r]++; return true;
        case 1: emit(X + "eback " + S(r) + " " + S(val())); if (one) return true; grow(r, n + 1); sz[r]++; return true;
        case 2: if (!n) return false; emit("pop " + S(r)); sz[r]--; return true;
        case 3: emit(X + (R.chance(80) ? "ins " : "insi ") + S(r) + " " + S(pos(n)) + " " + S(val())); if (one) return true; grow(r, n + 1); sz[r]++; return true;
        case 4: emit(X + "empl " + S(r) + " " + S(pos(n)) + " " + S(val())); if (one) return true; grow(r, n + 1); sz[r]++; return true;
        case 5: if (!n) return false; emit(X + "pushself " + S(r) + " " + S(pos(n - 1))); if (one) return true; grow(r, n + 1); sz[r]++; return true;
        case 6: if (!n) return false; emit(X + "insself " + S(r) + " " + S(pos(n)) + " " + S(pos(n - 1))); if (one) return true; grow(r, n + 1); sz[r]++; return true;
        case 7: if (!n) return false; emit(X + "ebackself " + S(r) + " " + S(pos(n - 1))); if (one) return true; grow(r, n + 1); sz[r]++; return true;
        case 8: if (!n) return false; emit(X + "emplself " + S(r) + " " + S(pos(n)) + " " + S(pos(n - 1))); if (one) return true; grow(r, n + 1); sz[r]++; return true;
        case 9:
        {
            int f = pos(n), l = pos(n);
            if (f > l) std::swap(f, l);
            int q = pos(n);
            emit(X + "insr " + S(r) + " " + S(q) + " " + S(f) + " " + S(l));
            if (l - f > 0) grow(r, n + l - f);
            if (fz >= 0 && fz < l - f) { sz[r] = q + fz; return true; } // basic guarantee: the prefix and the copies made so far
            sz[r] += l - f; return true;
        }
        case 10:
        {
            int k = (int)R.range(0, 4);
            int q = pos(n);
            std::string s = X + "insx " + S(r) + " " + S(q);
            for (int i = 0; i < k; i++) s += " " + S(val());
            emit(s);
            if (k > 0) grow(r, n + k);
            if (fz >= 0 && fz < k) { sz[r] = q + fz; return true; }
            sz[r] += k; return true;
        }
        case 11:
        {
            int f = pos(n), l = pos(n);
            if (f > l) std::swap(f, l);
            emit("erase " + S(r) + " " + S(f) + " " + S(l)); sz[r] -= l - f; return true;
        }
        case 12: { int k = pos(n); emit("eraseto " + S(r) + " " + S(k)); sz[r] = k; return true; }
        case 13: { int k = (int)R.range(0, n + 3); if (R.chance(30)) k = pos(n); emit(X + "resize " + S(r) + " " + S(k)); grow(r, k); if (fz >= 0 && fz < k - n) return true; sz[r] = k; return true; }
        case 14: { int k = (int)R.range(0, std::max(cap[r], n) + 3); emit("reserve " + S(r) + " " + S(k)); grow(r, k); return true; }
        case 15: emit("clear " + S(r)); sz[r] = 0; return true;
        case 16: emit("inval " + S(r)); sz[r] = 0; cap[r] = 0; return true;
        case 17: { int s = (r + 1 + (int)R.below(2)) % 3; emit(X + "cctor " + S(r) + " " + S(s)); if (fz >= 0 && fz < sz[s]) { sz[r] = 0; cap[r] = 0; return true; } sz[r] = sz[s]; cap[r] = sz[s]; return true; }
        case 18: { int s = (r + 1 + (int)R.below(2)) % 3; emit("mctor " + S(r) + " " + S(s)); sz[r] = sz[s]; cap[r] = cap[s]; sz[s] = 0; cap[s] = 0; return true; }
        case 19: { int s = (int)R.below(3); emit(X + "cas " + S(r) + " " + S(s)); if (s != r) { cap[r] = sz[s]; sz[r] = (fz >= 0 && fz < sz[s]) ? fz : sz[s]; } return true; }
        case 20: { int s = (int)R.below(3); emit("mas " + S(r) + " " + S(s)); if (s != r) { sz[r] = sz[s]; cap[r] = cap[s]; sz[s] = 0; cap[s] = 0; } return true; }
        case 21:
        {
            int s = (r + 1 + (int)R.below(2)) % 3;
            int f = pos(sz[s]), l = pos(sz[s]);
            if (f > l) std::swap(f, l);
            emit(X + "rctor " + S(r) + " " + S(s) + " " + S(f) + " " + S(l));
            if (fz >= 0 && fz < l - f) { sz[r] = 0; cap[r] = 0; return true; }
            sz[r] = l - f; cap[r] = l - f; return true;
        }
        case 22: return false;
        case 23:
        {
            int k = (int)R.range(0, 4);
            std::string s = X + "tctor " + S(r);
            for (int i = 0; i < k; i++) s += " " + S(val());
            emit(s);
            if (fz >= 0 && fz < k) { sz[r] = 0; cap[r] = 0; return true; }
            sz[r] = k; cap[r] = k; return true;
        }
        case 24:
        {
            if (portable) return false;
            int k = (int)R.range(0, 4);
            std::string s = "ilist " + S(r);
            for (int i = 0; i < k; i++) s += " " + S(val());
            emit(s); sz[r] = k; cap[r] = k; return true;
        }
        case 25: { int s = (int)R.below(3); emit(std::string(R.chance(50) ? "eq " : "ne ") + S(r) + " " + S(s)); return true; }
        case 26: { if (portable) return false; int s = (int)R.below(3); emit("lt " + S(r) + " " + S(s)); return true; }
        case 27: { if (portable) return false; emit(std::string(R.chance(50) ? "at " : "cat ") + S(r) + " " + S(R.chance(70) && n ? pos(n - 1) : n + (int)R.below(3))); return true; }
        case 28: if (!n) return false; emit("idx " + S(r) + " " + S(pos(n - 1))); return true;
        case 29: if (!n) return false; emit("fb " + S(r)); return true;
        case 30: emit("iter " + S(r)); return true;
        case 31: { if (portable) return false; emit("inss " + S(r) + " " + S(val())); grow(r, n + 1); sz[r]++; return true; }
        case 32: { int k = (int)R.range(0, 4); emit(X + "szctor " + S(r) + " " + S(k)); if (fz >= 0 && fz < k) { sz[r] = 0; cap[r] = 0; return true; } sz[r] = k; cap[r] = k; return true; }
        }
        return false;
    }
    static const int NKIND = 33;

    void history(const char *ty, bool p, int len)
    {
        bool trk = std::string(ty) == "trk";
        begin(ty, p);
        for (int i = 0; i < len; i++)
        {
            int r = (int)R.below(3);
            // keep sizes small so that every (position, capacity) state recurs
            int k;
            if (sz[r] > 7 && R.chance(60))
                k = R.chance(50) ? 11 : 12;
            else
                k = (int)R.below(NKIND);
            if (k == 22)
                k = 32;
            // exception injection (instrumented element type, vector.h): about one operation in eight of the kinds
            // that contain a throwing-capable element operation runs with a fuse of 0..3
            static const bool throwing[NKIND] = {1, 1, 0, 1, 1, 1, 1, 1, 1, 1, 1, 0, 0, 1, 0, 0, 0, 1, 0, 1, 0, 1, 0, 1, 0, 0, 0, 0, 0, 0, 0, 0, 1};
            if (trk && !p && throwing[k] && R.chance(13))
                op(k, r, (int)R.below(4));
            else
            {
                // allocation failure (all four builds): the k-th allocation of the call, or every request above a limit
                if (R.chance(10))
                    once = R.chance(70) ? "a " + S((int)R.below(2)) + " " : "al " + S((int)R.range(0, 6)) + " ";
                op(k, r);
                once.clear();
            }
        }
        emit("end");
    }

    // every (operation, position, size, spare capacity) for small sizes
    void exhaustive(const char *ty, bool p, int maxn, int stride, int &counter)
    {
        for (int n = 0; n <= maxn; n++)
            for (int slack : {0, 1, 3})
            {
                auto one = [&](const std::function<void()> &f) {
                    if ((counter++ % stride) != 0)
                        return;
                    begin(ty, p);
                    build(0, n, slack);
                    f();
                    emit("iter 0");
                    if (sz[0] > 0)
                        emit("fb 0");
                    emit("end");
                };
                for (int q = 0; q <= n; q++)
                {
                    one([&] { emit("ins 0 " + S(q) + " 7"); sz[0] = n + 1; });
                    one([&] { emit("empl 0 " + S(q) + " 7"); sz[0] = n + 1; });
                    one([&] { emit("eraseto 0 " + S(q)); sz[0] = q; });
                    one([&] { emit("insx 0 " + S(q) + " 7 8"); sz[0] = n + 2; });
                    one([&] { emit("insx 0 " + S(q) + " 7 8 9 6"); sz[0] = n + 4; });
                    for (int i = 0; i < n; i++)
                    {
                        one([&] { emit("insself 0 " + S(q) + " " + S(i)); sz[0] = n + 1; });
                        one([&] { emit("emplself 0 " + S(q) + " " + S(i)); sz[0] = n + 1; });
                    }
                    for (int f = 0; f <= n; f++)
                        for (int l = f; l <= n; l++)
                            one([&] { emit("insr 0 " + S(q) + " " + S(f) + " " + S(l)); sz[0] = n + l - f; });
                }
                for (int f = 0; f <= n; f++)
                    for (int l = f; l <= n; l++)
                    {
                        one([&] { emit("erase 0 " + S(f) + " " + S(l)); sz[0] = n - (l - f); });
                        one([&] { emit("rctor 1 0 " + S(f) + " " + S(l)); emit("eq 1 0"); });
                    }
                for (int i = 0; i < n; i++)
                {
                    one([&] { emit("pushself 0 " + S(i)); sz[0] = n + 1; });
                    one([&] { emit("ebackself 0 " + S(i)); sz[0] = n + 1; });
                }
                for (int k = 0; k <= n + 4; k++)
                {
                    one([&] { emit("resize 0 " + S(k)); sz[0] = k; });
                    one([&] { emit("reserve 0 " + S(k)); });
                }
                // value-initialisation on DIRTY memory: shrink (the slots keep the bytes of the destroyed elements), then
                // grow again inside the capacity; a recycled block (the freed block of the same size class comes back)
                for (int q = 0; q <= n; q++)
                    one([&] { emit("eraseto 0 " + S(q)); emit("resize 0 " + S(n + slack)); sz[0] = n + slack; });
                one([&] { emit("clear 0"); emit("resize 0 " + S(n + slack)); sz[0] = n + slack; });
                if (n)
                    one([&] { emit("pop 0"); emit("resize 0 " + S(n)); sz[0] = n; });
                one([&] { emit("inval 0"); emit("szctor 0 " + S(n + slack)); sz[0] = n + slack; });
                one([&] { emit("mctor 1 0"); emit("inval 1"); emit("szctor 0 " + S(n + slack)); sz[0] = n + slack; });
                one([&] { emit("push 0 5"); sz[0] = n + 1; });
                one([&] { emit("eback 0 5"); sz[0] = n + 1; });
                if (n)
                    one([&] { emit("pop 0"); sz[0] = n - 1; });
                one([&] { emit("clear 0"); sz[0] = 0; emit("push 0 1"); sz[0] = 1; });
                one([&] { emit("inval 0"); sz[0] = 0; emit("push 0 1"); sz[0] = 1; });
                one([&] { emit("cctor 1 0"); emit("eq 0 1"); emit("push 1 3"); emit("ne 0 1"); });
                one([&] { emit("mctor 1 0"); sz[0] = 0; emit("push 0 3"); sz[0] = 1; emit("push 1 4"); });
                // copy / move assignment onto targets of every shape
                for (int tn : {0, 1, 3})
                    for (int ts : {0, 2})
                    {
                        one([&] { build(1, tn, ts); emit("cas 1 0"); emit("eq 1 0"); emit("push 1 2"); });
                        one([&] { build(1, tn, ts); emit("mas 1 0"); sz[0] = 0; emit("push 0 2"); sz[0] = 1; emit("push 1 2"); });
                    }
                one([&] { emit("cas 0 0"); emit("mas 0 0"); });
                if (!p)
                {
                    for (int x = 0; x <= 9; x += 3)
                        one([&] { emit("inss 0 " + S(x)); sz[0] = n + 1; });
                    one([&] { emit("at 0 " + S(n)); emit("at 0 " + S(n + 5)); if (n) emit("at 0 " + S(n - 1)); if (n) emit("cat 0 " + S(n - 1)); });
                }
            }
    }

    // exception injection, exhaustively for small sizes (instrumented element type, vector.h): every operation that
    // contains a throwing-capable element operation, every position, every fuse value that fires; afterwards the
    // vector must be usable (push, iteration, front/back) and destructible without a leak (`end`)
    void exceptions(int maxn, int stride, int &counter)
    {
        for (int n = 0; n <= maxn; n++)
            for (int slack : {0, 1, 3})
            {
                auto one = [&](const std::string &line, int reg = 0) {
                    if ((counter++ % stride) != 0)
                        return;
                    begin("trk", false);
                    build(0, n, slack);
                    if (reg == 1)
                        build(1, 2, 1);
                    emit(line);
                    emit("push " + S(reg) + " 9");
                    emit("iter " + S(reg));
                    emit("fb " + S(reg));
                    emit("eq 0 1");
                    emit("end");
                };
                for (int q = 0; q <= n; q++)
                {
                    one("x 0 ins 0 " + S(q) + " 7");
                    one("x 0 empl 0 " + S(q) + " 7");
                    for (int k = 0; k < 3; k++)
                        one("x " + S(k) + " insx 0 " + S(q) + " 7 8 9");
                    for (int i = 0; i < n; i++)
                        one("x 0 insself 0 " + S(q) + " " + S(i));
                    for (int f = 0; f <= n; f++)
                        for (int l = f + 1; l <= n; l++)
                            for (int k : {0, l - f - 1})
                                if (k == 0 || l - f > 1)
                                    one("x " + S(k) + " insr 0 " + S(q) + " " + S(f) + " " + S(l));
                }
                one("x 0 push 0 5");
                one("x 0 eback 0 5");
                one("x 1 push 0 5"); // fuse not reached
                for (int i = 0; i < n; i++)
                    one("x 0 pushself 0 " + S(i));
                for (int m = n + 1; m <= n + 3; m++)
                    for (int k = 0; k < m - n; k++)
                        one("x " + S(k) + " resize 0 " + S(m));
                for (int k = 0; k < n; k++)
                {
                    one("x " + S(k) + " cas 1 0", 1);
                    one("x " + S(k) + " cctor 1 0", 1);
                    one("x " + S(k) + " rctor 1 0 0 " + S(n), 1);
                }
                for (int k = 0; k < 3; k++)
                {
                    one("x " + S(k) + " tctor 1 4 5 6", 1);
                    one("x " + S(k) + " szctor 1 3", 1);
                }
                if (n)
                    one("x 0 inss 0 4");
            }
    }

    // allocation failure, exhaustively for small sizes, all four builds: every growing operation at every position,
    // the constructors and copy assignment, with the first allocation failing (and a fuse that is not reached, and a
    // size limit); afterwards the object is used further (the retried operation, push, iteration, ==, destructors)
    void allocfail(const char *ty, bool p, int maxn, int stride, int &counter)
    {
        for (int n = 0; n <= maxn; n++)
            for (int slack : {0, 1, 3})
            {
                auto one = [&](const std::string &line, int reg = 0) {
                    if ((counter++ % stride) != 0)
                        return;
                    begin(ty, p);
                    build(0, n, slack);
                    if (reg == 1)
                        build(1, 2, 1);
                    emit(line);
                    emit("push " + S(reg) + " 9");
                    emit("iter " + S(reg));
                    emit("fb " + S(reg));
                    emit("reserve " + S(reg) + " " + S(n + slack + 6));
                    emit("cctor 2 " + S(reg));
                    emit("eq 2 " + S(reg));
                    emit("end");
                };
                for (int q = 0; q <= n; q++)
                {
                    one("a 0 ins 0 " + S(q) + " 7");
                    one("a 0 empl 0 " + S(q) + " 7");
                    one("a 0 insx 0 " + S(q) + " 7 8");
                    one("a 0 insx 0 " + S(q) + " 7 8 9 6");
                    for (int i = 0; i < n; i++)
                        one("a 0 insself 0 " + S(q) + " " + S(i));
                    for (int f = 0; f <= n; f++)
                        for (int l = f + 1; l <= n; l++)
                            if ((f + l + q) % 2 == 0)
                                one("a 0 insr 0 " + S(q) + " " + S(f) + " " + S(l));
                }
                one("a 0 push 0 5");
                one("a 0 eback 0 5");
                one("a 1 push 0 5"); // a second allocation does not exist
                for (int i = 0; i < n; i++)
                {
                    one("a 0 pushself 0 " + S(i));
                    one("a 0 ebackself 0 " + S(i));
                }
                for (int m : {n, n + slack, n + slack + 1, n + slack + 3})
                {
                    one("a 0 reserve 0 " + S(m));
                    one("a 0 resize 0 " + S(m));
                    one("al " + S(n + slack) + " reserve 0 " + S(m)); // the bounded allocator grants what is owned already
                    one("al " + S(n + slack) + " resize 0 " + S(m));
                }
                one("al 0 push 0 5");
                one("a 0 cas 1 0", 1);
                one("a 0 cctor 1 0", 1);
                one("a 0 mas 1 0", 1);
                one("a 0 mctor 1 0", 1);
                one("a 0 tctor 1 4 5 6", 1);
                one("a 0 szctor 1 3", 1);
                one("al 2 szctor 1 3", 1);
                for (int k = 0; k < n; k++)
                    one("a " + S(k) + " rctor 1 0 0 " + S(n), 1);
                if (n && !p)
                    one("a 0 inss 0 4");
            }
    }

    // ==, !=, < with element types whose == is not the equality of the object representation: every pair of vectors
    // of length <= 2 over a small alphabet of codes, plus longer random ones
    void eqx(const char *ty, bool p, const std::vector<int> &alpha, int extra)
    {
        std::vector<std::vector<int>> all{{}};
        for (int x : alpha)
            all.push_back({x});
        for (int x : alpha)
            for (int y : alpha)
                all.push_back({x, y});
        emit(std::string("reset eqx ") + ty + (p ? " p" : " v"));
        auto line = [&](const std::vector<int> &a, const std::vector<int> &b) {
            std::string s = "cmpx";
            for (int x : a) s += " " + S(x);
            s += " |";
            for (int x : b) s += " " + S(x);
            emit(s);
        };
        for (auto &a : all)
            for (auto &b : all)
                line(a, b);
        for (int i = 0; i < extra; i++)
        {
            std::vector<int> a, b;
            int n = (int)R.range(0, 6);
            for (int k = 0; k < n; k++)
                a.push_back(alpha[R.below(alpha.size())]);
            b = a;
            // mostly equal-valued twins that differ in representation, sometimes one element or the length changed
            for (auto &x : b)
                if (R.chance(40))
                    x = alpha[R.below(alpha.size())];
            if (R.chance(20))
                b.push_back(alpha[R.below(alpha.size())]);
            line(a, b);
        }
    }

    // the exception paths the std_portable.h copy shares with vector.h since the round-3 fixes (copy assignment and
    // the constructors; the single-element insertions build their temporary first): same fuses, same demands
    void exceptions_portable(int maxn)
    {
        for (int n = 0; n <= maxn; n++)
            for (int slack : {0, 2})
            {
                auto one = [&](const std::string &line, int reg = 0) {
                    begin("trk", true);
                    build(0, n, slack);
                    if (reg == 1)
                        build(1, 2, 1);
                    emit(line);
                    emit("push " + S(reg) + " 9");
                    emit("iter " + S(reg));
                    emit("eq 0 1");
                    emit("end");
                };
                one("x 0 push 0 5");
                one("x 0 ins 0 " + S(n / 2) + " 7");
                one("x 0 empl 0 " + S(n) + " 7");
                if (n)
                    one("x 0 insself 0 0 " + S(n - 1));
                for (int k = 0; k < n; k++)
                {
                    one("x " + S(k) + " cas 1 0", 1);
                    one("x " + S(k) + " cctor 1 0", 1);
                    one("x " + S(k) + " rctor 1 0 0 " + S(n), 1);
                }
                for (int k = 0; k < 3; k++)
                    one("x " + S(k) + " tctor 1 4 5 6", 1);
                one("x 0 szctor 1 3", 1);
            }
    }

    // comparisons: all pairs of short vectors over {1,2}
    void comparisons(const char *ty, bool p)
    {
        std::vector<std::vector<int>> all{{}};
        for (int len = 1; len <= 3; len++)
            for (int code = 0; code < (1 << len); code++)
            {
                std::vector<int> v;
                for (int i = 0; i < len; i++)
                    v.push_back(1 + ((code >> i) & 1));
                all.push_back(v);
            }
        for (auto &a : all)
        {
            begin(ty, p);
            std::string s = "tctor 0";
            for (int x : a) s += " " + S(x);
            emit(s);
            for (auto &b : all)
            {
                std::string t = "tctor 1";
                for (int x : b) t += " " + S(x);
                emit(t);
                emit("eq 0 1");
                emit("ne 0 1");
                if (!p)
                    emit("lt 0 1");
            }
            emit("end");
        }
    }

    // ---------------- flat_map / flat_set
    // cmp: "" (std::less), "greater", "lastdigit", "sgreater"
    std::string flat_reset(bool compat, const std::string &cmp)
    {
        return std::string("reset flat ") + (compat ? "c" : "h") + (cmp.empty() ? "" : " " + cmp);
    }
    void flat(bool compat, int len, int keys, int off = 0, const std::string &cmp = "")
    {
        emit(flat_reset(compat, cmp));
        for (int i = 0; i < len; i++)
        {
            int k = (int)R.range(0, keys) - off, v = (int)R.range(0, 99);
            // round 3b: one in six operations with an allocation of the storage vector refused (compat build: test
            // allocator; hosted build: std::allocator, the prefix is inert)
            if (R.chance(compat ? 16 : 3))
            {
                std::string pre = "afail " + S((int)R.below(2)) + " ";
                switch (R.below(6))
                {
                case 0: emit(pre + "mset " + S(k) + " " + S(v)); break;
                case 1: emit(pre + "mget " + S(k)); break;
                case 2: emit(pre + "mins " + S(k) + " " + S(v)); break;
                case 3: emit(pre + "mempl " + S(k) + " " + S(v)); break;
                case 4: emit(pre + "minit " + S(k) + " " + S(v) + " " + S(k + 1) + " " + S(v + 1)); break;
                default: emit(pre + "sins " + S(k)); break;
                }
                continue;
            }
            switch (R.below(20))
            {
            case 17: emit(compat || R.chance(60) ? "miter" : R.chance(50) ? "mmisc" : R.chance(50) ? "smisc" : "mview " + S(k)); break;
            case 18: emit(R.chance(40) ? "meq" : "mcget " + S(k)); break;
            case 19: emit(R.chance(45) ? "miter" : R.chance(10) ? "ctrdtr " + S(v) : "mcget " + S(k)); break;
            case 13: emit(R.chance(50) ? "msize" : "ssize"); break;
            case 14: emit("siter"); break;
            case 15: emit("sins " + S(k)); break;
            case 0: emit("mset " + S(k) + " " + S(v)); break;
            case 1: emit("mget " + S(k)); break;
            case 2: case 3: emit("mins " + S(k) + " " + S(v)); break;
            case 4: emit("mempl " + S(k) + " " + S(v)); break;
            case 5: emit("mfind " + S(k)); break;
            case 6: emit("mcount " + S(k)); break;
            case 7: emit("mat " + S(k)); break;
            case 8: if (R.chance(10)) emit("mclear"); else emit("mcopy"); break;
            case 9: case 10: emit("sins " + S(k)); break;
            case 11: emit("scount " + S(k)); break;
            case 12: if (R.chance(10)) emit("sclear"); else emit("scount " + S(k)); break;
            default:
                if (R.chance(15))
                {
                    // initializer list, with duplicate keys in half of the cases (all 27 three-entry
                    // patterns: see flat_init_dups)
                    int n = (int)R.range(0, 4);
                    bool dups = R.chance(50);
                    std::vector<int> ks;
                    std::string s = "minit";
                    for (int j = 0; j < n; j++)
                    {
                        int kk;
                        do kk = (int)R.range(0, dups ? 2 : keys + 4) - off; while (!dups && std::find(ks.begin(), ks.end(), kk) != ks.end());
                        ks.push_back(kk);
                        s += " " + S(kk) + " " + S((int)R.range(0, 99));
                    }
                    emit(s);
                }
                else
                    emit("mcount " + S(k));
            }
        }
    }
    // step = 1: keys 0,1,2; step = 10 (by-last-digit comparator): 0,10,20 are ONE key, probed as 0,1,2 / 10 / 20
    void flat_init_dups(bool compat, const std::string &cmp = "", int step = 1)
    {
        for (int a = 0; a < 3; a++)
            for (int b = 0; b < 3; b++)
                for (int c = 0; c < 3; c++)
                {
                    emit(flat_reset(compat, cmp));
                    emit("minit " + S(a * step) + " 10 " + S(b * step) + " 20 " + S(c * step) + " 30");
                    if (step != 1)
                        for (int k = 0; k < 3; k++)
                        {
                            emit("mcount " + S(k * step));
                            emit("mfind " + S(k * step + 10));
                        }
                    for (int k = 0; k < 3; k++)
                    {
                        emit("mcount " + S(k));
                        emit("mfind " + S(k));
                        emit("mat " + S(k));
                    }
                    emit("mset 1 5");
                    emit("mcount 1");
                    emit("miter");
                    emit("meq");
                    emit("mcget 1");
                    emit("mcget 7");
                }
    }
    // every insertion order of up to 4 distinct keys (set + map insert)
    // round 3b: every insertion path with the first (and the second) allocation of the storage vector refused, the
    // container used further afterwards
    void flat_afail(bool compat, const std::string &cmp = "")
    {
        for (int k = 0; k < 2; k++)
        {
            emit(flat_reset(compat, cmp));
            std::string pre = "afail " + S(k) + " ";
            for (int key : {3, 1, 2, 4, 13})
            {
                emit(pre + "sins " + S(key));
                emit(pre + "mins " + S(key) + " " + S(key * 10));
                emit("siter");
                emit("miter");
            }
            emit(pre + "mset 9 90");
            emit(pre + "mget 7");
            emit(pre + "mempl 8 80");
            emit(pre + "minit 5 50 6 60 5 70");
            emit("miter");
            emit(pre + "mset 1 11");
            emit("msize");
            emit("ssize");
        }
    }
    void flat_orders(bool compat, const std::string &cmp = "")
    {
        std::vector<int> p{1, 2, 3, 4};
        do
        {
            emit(flat_reset(compat, cmp));
            for (int k : p)
            {
                emit("sins " + S(k));
                emit("mins " + S(k) + " " + S(k * 10));
            }
            emit("sins " + S(p[1]));
            emit("mins " + S(p[2]) + " 77");
            emit("miter");
            // the same four keys through the other insertion paths (operator[] write / read, emplace), then one more
            // through insert: every path must keep the storage in key order
            emit("mclear");
            emit("mset " + S(p[0]) + " 1");
            emit("mempl " + S(p[1]) + " 2");
            emit("mget " + S(p[2]));
            emit("mins " + S(p[3]) + " 4");
            emit("mins " + S(p[0] + 4) + " 5");
            emit("miter");
            emit("meq");
            if (!compat)
            {
                emit("mmisc");
                emit("smisc");
            }
            if (!cmp.empty())
            {
                // keys that are equivalent to a stored one under the by-last-digit order, new ones under the others
                emit("sins " + S(p[0] + 10));
                emit("mins " + S(p[3] + 10) + " 88");
                emit("siter");
                emit("ssize");
                emit("msize");
                emit("scount " + S(p[2] + 20));
                emit("mcount " + S(p[1] + 20));
                emit("mat " + S(p[1] + 20));
            }
            for (int k = 0; k <= 5; k++)
            {
                emit("scount " + S(k));
                emit("mcount " + S(k));
            }
        } while (std::next_permutation(p.begin(), p.end()));
    }
};

void c02_gen(rng &r, const std::string &tier)
{
    bool th = tier == "thorough";
    Gen g(r);
    // findings (outside the normal stream)
    for (const char *ty : {"int", "trk"})
        for (bool p : {false, true})
        {
            g.begin(ty, p);
            g.emit("tctor 0 1 2 3 4");
            g.emit("@F:C02-erase-pos erase1 0 1");
            g.emit("end");
            g.begin(ty, p);
            g.emit("tctor 0 1 2 3");
            g.emit("@F:C02-reverse-iterators riter 0");
            g.emit("end");
        }
    // std_portable.h: resize / insert(pos, first, last) have no handler (the header contains no try / catch at all)
    g.begin("trk", true);
    g.emit("push 0 1");
    g.emit("@F:C02-portable-exception-paths x 1 resize 0 3");
    g.emit("@F:C02-portable-exception-paths end"); // the object left behind m_size is never destroyed
    g.begin("trk", true);
    g.emit("tctor 0 1 2 3");
    g.emit("@F:C02-portable-exception-paths x 1 insx 0 1 7 8 9");
    g.emit("@F:C02-portable-exception-paths end");
    int counter = (int)r.below(1000);
    for (const char *ty : {"trk", "int"})
        for (bool p : {false, true})
        {
            bool full = th || (std::string(ty) == "trk" && !p);
            g.exhaustive(ty, p, th ? 5 : 4, full ? 1 : 3, counter);
            if (std::string(ty) == "trk" || th)
                g.comparisons(ty, p);
        }
    g.exceptions(th ? 5 : 4, 1, counter);
    g.exceptions_portable(th ? 4 : 3);
    g.emit("premain");
    g.emit("long v 80000"); // 320 000 bytes of int
    g.emit("long p 80000");
    if (th)
        g.emit("long v 1000000");
    // requests no allocator grants: 2^31, 2^32, 2^61 (n * sizeof(T) = 2^63), 2^62, 2^63 elements
    for (const char *ty : {"trk", "int"})
        for (bool p : {false, true})
            for (const char *big : {"2147483648", "4294967296", "2305843009213693952", "4611686018427387904", "9223372036854775808"})
            {
                g.begin(ty, p);
                g.build(0, 2, 1);
                g.emit(std::string("alx 4096 reserve 0 ") + big);
                g.emit(std::string("alx 4096 resize 0 ") + big);
                g.emit("push 0 5");
                g.emit("iter 0");
                g.emit("end");
            }
    // round 3: type widths, allocation failure, comparison under a non-bytewise element equality
    for (const char *ty : {"trk", "int"})
        for (bool p : {false, true})
        {
            g.begin(ty, p);
            g.emit("widths 0");
            g.emit("end");
            bool full = th || (std::string(ty) == "trk" && !p);
            g.allocfail(ty, p, th ? 4 : 3, full ? 1 : 3, counter);
        }
    for (bool p : {false, true})
    {
        g.eqx("dbl", p, {0, 1, 2, 3}, th ? 400 : 40);
        g.eqx("flt", p, {0, 1, 2, 4}, th ? 400 : 40);
        g.eqx("rec", p, {10, 11, 20}, th ? 400 : 40);
        g.eqx("pad", p, {10, 13, 27}, th ? 400 : 40);
        g.eqx("flag", p, {0, 1, 2}, th ? 400 : 40);
    }
    int hist = th ? 4000 : 260;
    for (int i = 0; i < hist; i++)
    {
        const char *ty = r.chance(70) ? "trk" : "int";
        g.history(ty, r.chance(40), (int)r.range(20, 70));
    }
    for (bool c : {false, true})
    {
        g.flat_init_dups(c);
        g.flat_orders(c);
        g.flat_afail(c);
        for (int i = 0; i < (th ? 600 : 40); i++)
            g.flat(c, (int)r.range(20, 80), r.chance(50) ? 5 : 12);
        // long bisections: up to 41 keys (negative ones included) in the set / the map
        for (int i = 0; i < (th ? 150 : 10); i++)
            g.flat(c, (int)r.range(80, 160), 40, 20);
        // non-default comparators (handed to flat_map / flat_set / the compat std::map / std::set and to the
        // std::map / std::set of the oracle): descending, equivalence classes by last digit, descending text
        for (const char *cmp : {"greater", "lastdigit", "sgreater", "dirdesc"})
        {
            if (c && std::string(cmp) == "dirdesc")
                continue; // hosted only
            g.flat_init_dups(c, cmp, std::string(cmp) == "lastdigit" ? 10 : 1);
            g.flat_orders(c, cmp);
            g.flat_afail(c, cmp);
            for (int i = 0; i < (th ? 200 : 12); i++)
            {
                int keys = r.chance(50) ? 12 : 40;
                g.flat(c, (int)r.range(30, 100), keys, r.chance(50) ? keys / 2 : 0, cmp);
            }
        }
    }
}
