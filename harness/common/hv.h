// Shared helpers for the real-code harnesses (see DESIGN.md §1, §4).
//
// A harness binary has two modes:
//   gen <seed> <tier>   print one operation per line (cases start with a line
//                       beginning with "reset"); pure generation, no igris code
//   run                 read operations from stdin, execute them on the real
//                       igris code and print ONE line per operation:
//                           <result> \t <oracle verdict> \t <tags>
//                       result  = canonical observable, compared with the model
//                       oracle  = "ok" | "FAIL <why>"   (the property evaluated
//                                  directly on the implementation)
//                       tags    = comma separated "interesting branch" markers
// Every line is flushed before the next operation starts, so when a sanitizer
// aborts the process the orchestrator knows which operation did it.
#ifndef IGRIS_VERIF_HV_H
#define IGRIS_VERIF_HV_H

#include <sys/time.h>
#include <cstdint>
#include <cstdio>
#include <cstdlib>
#include <cstring>
#include <string>
#include <vector>
#include <sstream>
#include <iostream>
#include <signal.h>
#include <unistd.h>

namespace hv
{
    struct rng
    {
        uint64_t s;
        explicit rng(uint64_t seed) : s(seed * 0x9E3779B97F4A7C15ull + 0x1234567ull) {}
        uint64_t next()
        {
            uint64_t z = (s += 0x9E3779B97F4A7C15ull);
            z = (z ^ (z >> 30)) * 0xBF58476D1CE4E5B9ull;
            z = (z ^ (z >> 27)) * 0x94D049BB133111EBull;
            return z ^ (z >> 31);
        }
        // uniform in [0, n)
        uint64_t below(uint64_t n) { return n ? next() % n : 0; }
        // uniform in [lo, hi]
        int64_t range(int64_t lo, int64_t hi) { return lo + (int64_t)below((uint64_t)(hi - lo + 1)); }
        bool chance(unsigned pct) { return below(100) < pct; }
        template <class T> const T &pick(const std::vector<T> &v) { return v[below(v.size())]; }
    };

    inline std::string hex(const uint8_t *p, size_t n)
    {
        if (n == 0)
            return "-";
        static const char *d = "0123456789abcdef";
        std::string s;
        s.reserve(2 * n);
        for (size_t i = 0; i < n; i++)
        {
            s.push_back(d[p[i] >> 4]);
            s.push_back(d[p[i] & 15]);
        }
        return s;
    }
    inline std::string hex(const std::vector<uint8_t> &v) { return hex(v.data(), v.size()); }
    inline std::string hex(const std::string &v) { return hex((const uint8_t *)v.data(), v.size()); }

    inline std::string hexn(uint64_t v, int width)
    {
        char buf[32];
        snprintf(buf, sizeof buf, "%0*llx", width, (unsigned long long)v);
        return buf;
    }

    inline int hexval(char c)
    {
        if (c >= '0' && c <= '9') return c - '0';
        if (c >= 'a' && c <= 'f') return c - 'a' + 10;
        if (c >= 'A' && c <= 'F') return c - 'A' + 10;
        return -1;
    }

    inline std::vector<uint8_t> unhex(const std::string &s)
    {
        std::vector<uint8_t> v;
        if (s == "-")
            return v;
        for (size_t i = 0; i + 1 < s.size(); i += 2)
            v.push_back((uint8_t)(hexval(s[i]) * 16 + hexval(s[i + 1])));
        return v;
    }

    inline std::vector<std::string> words(const std::string &line)
    {
        std::vector<std::string> w;
        std::istringstream is(line);
        std::string t;
        while (is >> t)
            w.push_back(t);
        return w;
    }

    // An exactly sized heap copy of `v` placed `align` bytes into its own
    // allocation: ASan flags any access before data() or at/after data()+size().
    struct exact_buf
    {
        uint8_t *base;
        uint8_t *p;
        size_t n;
        exact_buf(const std::vector<uint8_t> &v, size_t align = 0) : n(v.size())
        {
            // malloc gives 16-byte alignment; the payload ends exactly at the
            // end of the allocation so that over-reads are caught.
            base = (uint8_t *)malloc(align + n ? align + n : 1);
            p = base + align;
            if (n)
                memcpy(p, v.data(), n);
        }
        exact_buf(size_t size, size_t align = 0) : n(size)
        {
            base = (uint8_t *)malloc(align + n ? align + n : 1);
            p = base + align;
            memset(p, 0xA5, n);
        }
        ~exact_buf() { free(base); }
        exact_buf(const exact_buf &) = delete;
        std::vector<uint8_t> vec() const { return std::vector<uint8_t>(p, p + n); }
    };

    // ----- per-operation watchdog: non-termination is a result ---------------
    inline void on_alarm(int)
    {
        static const char msg[] = "\n@@TIMEOUT\n";
        (void)!write(1, msg, sizeof msg - 1);
        _exit(97);
    }
    // The limit is CPU time of the harness process (ITIMER_PROF): a loop that never ends burns CPU and is
    // stopped after `sec` seconds however loaded the machine is, while an operation that merely waits for a
    // time slice on a busy host is not mistaken for non-termination.  A generous wall-clock limit (10x)
    // still catches an operation that blocks without using CPU.
    // HV_WATCHDOG_SCALE (set by bin/check when it re-runs a case that hit the limit) multiplies every limit: an
    // operation that only looked endless because the host was overloaded (CPU time includes kernel time spent on
    // page faults of the sanitizer shadow under memory pressure) completes on the retry, a real endless loop does not.
    inline unsigned watchdog_scale()
    {
        static unsigned sc = [] {
            const char *e = getenv("HV_WATCHDOG_SCALE");
            int v = e ? atoi(e) : 1;
            return v < 1 ? 1u : (unsigned)v;
        }();
        return sc;
    }
    inline void arm(unsigned sec = 3)
    {
        sec *= watchdog_scale();
        signal(SIGPROF, on_alarm);
        signal(SIGALRM, on_alarm);
        struct itimerval it;
        memset(&it, 0, sizeof it);
        it.it_value.tv_sec = sec;
        setitimer(ITIMER_PROF, &it, 0);
        alarm(sec * 10);
    }
    inline void disarm()
    {
        struct itimerval it;
        memset(&it, 0, sizeof it);
        setitimer(ITIMER_PROF, &it, 0);
        alarm(0);
    }

    struct out
    {
        std::string result, oracle = "ok", tags;
        void tag(const char *t)
        {
            if (!tags.empty())
                tags += ",";
            tags += t;
        }
        void fail(const std::string &why)
        {
            if (oracle == "ok")
                oracle = "FAIL " + why;
        }
        void emit()
        {
            fputs(result.c_str(), stdout);
            fputc('\t', stdout);
            fputs(oracle.c_str(), stdout);
            fputc('\t', stdout);
            fputs(tags.c_str(), stdout);
            fputc('\n', stdout);
            fflush(stdout);
        }
    };

    // Standard main: dispatches gen / run.
    //   gen_fn(rng&, tier("quick"|"thorough"), emit(const std::string&))
    //   run_fn(const std::vector<std::string>& words, const std::string& line, out&)
    template <class Gen, class Run> int main_(int argc, char **argv, Gen gen_fn, Run run_fn)
    {
        if (argc >= 2 && !strcmp(argv[1], "gen"))
        {
            uint64_t seed = argc >= 3 ? strtoull(argv[2], 0, 10) : 1;
            std::string tier = argc >= 4 ? argv[3] : "quick";
            rng r(seed);
            gen_fn(r, tier);
            fflush(stdout);
            return 0;
        }
        if (argc >= 2 && !strcmp(argv[1], "run"))
        {
            std::string line;
            while (std::getline(std::cin, line))
            {
                out o;
                auto w = words(line);
                arm();
                run_fn(w, line, o);
                disarm();
                o.emit();
            }
            return 0;
        }
        fprintf(stderr, "usage: %s gen <seed> <tier> | run\n", argv[0]);
        return 2;
    }
} // namespace hv

#endif
