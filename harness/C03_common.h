// C03 harness: what the translation units share (round 3b: C03.cpp was split so that the instrumented code
// of the two typed-ring instantiations is compiled in parallel with the rest).
//   C03.cpp        run: C ring, cyclic_buffer, ring_counter, bytering, one-line cases, dispatch
//   C03_tint.cpp   igris::ring<int>   (template in C03_typed.h)
//   C03_tchar.cpp  igris::ring<char>
//   C03_misc.cpp   cyclic_buffer, ring_counter, bytering
//   C03_life.cpp   lifeprobe / lifecount / lifeviol / arr      C03_gen.cpp   gen
#ifndef IGRIS_VERIF_C03_COMMON_H
#define IGRIS_VERIF_C03_COMMON_H
#include "common/hv.h"
#include "C03_acc.h"
#include <deque>
#include <memory>
#include <climits>
#include <cstring>
#include <map>
#include <type_traits>
#include <igris/datastruct/ring.h>
#include <igris/datastruct/ring_counter.h>
#include <igris/container/ring.h>
#include <igris/container/cyclic_buffer.h>
#include <igris/datastruct/bytering.h>
#include <igris/container/array_view.h>

using namespace hv;
typedef std::vector<uint8_t> bytes;

static_assert(sizeof(int) == 4 && sizeof(unsigned) == 4 && sizeof(size_t) == 8, "LP64");
static_assert(CHAR_MIN < 0, "char is signed on this platform");

static inline int64_t emod(int64_t a, int64_t m) { return ((a % m) + m) % m; }
static inline std::string S(int64_t v) { return std::to_string(v); }


// the two typed-ring objects live in their own translation units
//   *_reset: n >= 0: ring<T>(n); n < 0 (int only): default-constructed ring.  Fills o.result / oracle.
void ti_reset(long n, hv::out &o);
void ti_run(const std::vector<std::string> &w, hv::out &o);
void tc_reset(long n, hv::out &o, bool with_state);
void tc_run(const std::vector<std::string> &w, hv::out &o);
// C03_misc.cpp
void reset_cyc(size_t n, hv::out &o);
void reset_rc(long n, hv::out &o);
void reset_bring(size_t size, hv::out &o);
void run_cyc(const std::vector<std::string> &w, hv::out &o);
void run_rc(const std::vector<std::string> &w, hv::out &o);
void run_bring(const std::vector<std::string> &w, hv::out &o);
#endif
