// C07 harness, parser side and the single-call renderer ops (see harness/C07.cpp for the operations)
#include "C07_common.h"
#include <igris/util/numconvert.h>
#include <igris/util/hexascii.h>
#include <igris/util/ctype.h>
#include <igris/defs/vt100.h>
// harness code below: single calls per op, nothing time-critical -> no optimisation (compile time of the
// sanitized translation unit); the sweeps live in harness/C07.cpp at -O1
#pragma GCC optimize("O0")

void run_ato(const std::vector<std::string> &w, out &o)
{
    int k = kind_of(w[1]);
    unsigned base = (unsigned)strtoul(w[2].c_str(), 0, 10);
    bytes s = unhex(w[3]);
    int bits = KBITS[k];
    if (s.empty() || s.back() != 0) { o.result = "bad-op"; return; }
    exact_buf b(s);
    char *e = 0;
    uint64_t v = call_ato(k, (const char *)b.p, (uint8_t)base, &e);
    long end = e ? e - (char *)b.p : -1;
    o.result = hexn(v, bits / 4) + " " + std::to_string(end);
    size_t rend;
    bool wrapped;
    uint64_t rv = ref_parse(s.data(), bits, ksigned(k), base, &rend, &wrapped);
    std::string txt((char *)s.data(), s.size() - 1);
    if (v != rv)
        o.fail(std::string("igris_ato") + KNAME[k] + "(`" + show(txt) + "`, base " + std::to_string(base) + ") = " + hexn(v, bits / 4) + ", digits of that base give " + hexn(rv, bits / 4));
    if (end != (long)rend)
        o.fail(std::string("igris_ato") + KNAME[k] + "(`" + show(txt) + "`, base " + std::to_string(base) + ") reports end offset " + std::to_string(end) +
               ", first character that cannot continue the number is at " + std::to_string(rend));
    // the same call without an end pointer
    uint64_t v2 = call_ato(k, (const char *)b.p, (uint8_t)base, 0);
    if (v2 != v) o.fail("value differs when end == NULL");
    // the usual idiom `p = ...; v = ato(p, base, &p)`: end aliases the caller's own pointer
    {
        char *pp = (char *)b.p;
        uint64_t v3 = call_ato(k, pp, (uint8_t)base, &pp);
        if (v3 != v || pp != e) o.fail("value / end differ when end aliases the string pointer");
    }
    // glibc as a second opinion where its grammar coincides (no sign/space/0x handling involved)
    if (base >= 2 && base <= 36 && !wrapped && rend > 0 && !(base == 16 && s.size() > 1 && (s[1] == 'x' || s[1] == 'X')) && ref_dv(s[0]) < (int)base)
    {
        errno = 0;
        char *ge;
        unsigned long long g = strtoull((const char *)s.data(), &ge, (int)base);
        if (errno == 0 && ((g & wmask(bits)) != rv || (size_t)(ge - (char *)s.data()) != rend))
            o.fail("harness reference disagrees with strtoull");
    }
    o.tag(KNAME[k]);
    size_t first = (ksigned(k) && s[0] == '-') ? 1 : 0;
    if (first) o.tag("minus");
    if (rend == first) o.tag("no-digits");
    if (wrapped) o.tag("wraps");
    uint8_t t = s[rend];
    if (t == 0) o.tag("term-nul");
    else if (ref_dv(t) < 36) o.tag("term-digit-of-larger-base");
    else if (t >= 0x80) o.tag("term-high-bit");
    bool lo = false, up = false;
    for (size_t i = first; i < rend; i++) { if (s[i] >= 'a') lo = true; else if (s[i] >= 'A') up = true; }
    if (lo) o.tag("lower-case");
    if (up) o.tag("upper-case");
    if (base < 2 || base > 36) o.tag("base-out-of-range");
}

void run_lc(const std::vector<std::string> &w, out &o)
{
    const std::string &fn = w[1];
    unsigned base = (unsigned)strtoul(w[2].c_str(), 0, 10);
    uint64_t v = h64(w[3]);
    int bits = (fn == "itoa" || fn == "utoa") ? 32 : 64;
    bool sgn = fn == "itoa" || fn == "ltoa";
    bool valid = base >= 2 && base <= 36;
    char ref[80];
    int len = valid ? ref_text(v, bits, sgn, base, false, ref) : 0;
    ref[len] = 0;
    exact_buf b((size_t)len + 1);
    char *r;
    if (fn == "itoa") r = igv_itoa((int)v, (char *)b.p, (unsigned short)base);
    else if (fn == "utoa") r = igv_utoa((unsigned)v, (char *)b.p, (unsigned short)base);
    else if (fn == "ltoa") r = igv_ltoa((long)v, (char *)b.p, (unsigned short)base);
    else r = igv_ultoa((unsigned long)v, (char *)b.p, (unsigned short)base);
    o.result = hex(b.p, b.n) + " " + std::to_string(r - (char *)b.p);
    if (memcmp(b.p, ref, len + 1))
        o.fail(fn + "(" + hexn(v, 16) + ", base " + std::to_string(base) + ") wrote `" + show(std::string((char *)b.p, len + 1)) + "`, canonical text is `" + ref + "`");
    if (r != (char *)b.p) o.fail(fn + " did not return buf");
    if (!valid) { o.tag("base-out-of-range"); return; }
    o.tag(fn.c_str());
    uint64_t p = v & wmask(bits);
    if (sgn && (p >> (bits - 1)) & 1) o.tag(p == (1ull << (bits - 1)) ? "minimum" : "negative");
}

void run_atol(const std::vector<std::string> &w, out &o)
{
    bytes s = unhex(w[1]);
    if (s.empty() || s.back() != 0) { o.result = "bad-op"; return; }
    exact_buf b(s);
    long l = igv_atol((const char *)b.p);
    int i = igv_atoi((const char *)b.p);
    o.result = hexn((uint64_t)l, 16) + " " + hexn((uint32_t)i, 8);
    errno = 0;
    long g = strtol((const char *)s.data(), 0, 10);
    if (errno == 0)
    {
        if (g != l) o.fail("atol(`" + show(std::string((char *)s.data())) + "`) = " + std::to_string(l) + ", strtol gives " + std::to_string(g));
        if ((int)g != i) o.fail("atoi(`" + show(std::string((char *)s.data())) + "`) = " + std::to_string(i));
    }
    o.tag("atol");
    if (g < 0) o.tag("negative");
    if (g == LONG_MIN) o.tag("minimum");
    if (isspace(s[0])) o.tag("leading-space");
}
void run_vt(const std::vector<std::string> &w, out &o)
{
    int arg = (int)(uint32_t)h64(w[1]);
    char ref[40];
    int len = snprintf(ref, sizeof ref, "\x1b[%dD", arg);
    exact_buf b((size_t)len + 1);
    int r = vt100_left((char *)b.p, arg);
    o.result = hex(b.p, b.n) + " " + std::to_string(r);
    if (memcmp(b.p, ref, len + 1) || r != len) o.fail("vt100_left(" + std::to_string(arg) + ")");
    o.tag("vt100");
}

void run_hxa(const std::vector<std::string> &w, out &o)
{
    int W = atoi(w[1].c_str());
    uint64_t v = h64(w[2]) & wmask(W);
    int n = W / 4;
    if (W != 8 && W != 16 && W != 32 && W != 64) { o.result = "bad-op"; return; }
    exact_buf b((size_t)n);
    switch (W)
    {
    case 8: uint8_to_hex((char *)b.p, (uint8_t)v); break;
    case 16: uint16_to_hex((char *)b.p, (uint16_t)v); break;
    case 32: uint32_to_hex((char *)b.p, (uint32_t)v); break;
    default: uint64_to_hex((char *)b.p, (uint64_t)v); break;
    }
    std::string txt((char *)b.p, n);
    auto back = [&](const std::string &t) -> uint64_t {
        exact_buf c(bytes(t.begin(), t.end()));
        switch (W)
        {
        case 8: return hex_to_uint8((char *)c.p);
        case 16: return hex_to_uint16((char *)c.p);
        case 32: return hex_to_uint32((char *)c.p);
        default: return hex_to_uint64((char *)c.p);
        }
    };
    uint64_t b1 = back(txt), b2 = back(flipcase(txt));
    o.result = hex(txt) + " " + hexn(b1, n) + " " + hexn(b2, n);
    char ref[24];
    snprintf(ref, sizeof ref, "%0*llX", n, (unsigned long long)v);
    if (txt != ref) o.fail("uint" + std::to_string(W) + "_to_hex(" + hexn(v, n) + ") wrote `" + show(txt) + "`, fixed-width upper-case text is `" + ref + "`");
    if (b1 != v) o.fail("hex_to_uint" + std::to_string(W) + "(`" + show(txt) + "`) = " + hexn(b1, n));
    if (b2 != v) o.fail("hex_to_uint" + std::to_string(W) + "(`" + show(flipcase(txt)) + "`) = " + hexn(b2, n) + " (lower-case text of " + hexn(v, n) + ")");
    o.tag(("hexascii-" + std::to_string(W)).c_str());
}

static int ref_len(u128 mag, unsigned base)
{
    int k = 1;
    u128 p = base;
    while (p <= mag) { p *= base; k++; }
    return k;
}
void run_maxlen(const std::vector<std::string> &w, out &o)
{
    int k = kind_of(w[1]);
    unsigned base = (unsigned)strtoul(w[2].c_str(), 0, 10);
    if (base < 2 || base > 36) { o.result = "bad-op"; return; }
    int bits = KBITS[k];
    bool sgn = ksigned(k);
    uint64_t vmax = sgn ? wmask(bits) >> 1 : wmask(bits);
    int lmax = ref_len(vmax, base), lmin = sgn ? 1 + ref_len((u128)vmax + 1, base) : 0;
    long got[2] = {-1, -1};
    for (int i = 0; i < (sgn ? 2 : 1); i++)
    {
        int len = i ? lmin : lmax;
        exact_buf b((size_t)len + 1); // the longest text of the kind fits exactly
        char *r = call_toa(k, extend(i ? vmax + 1 : vmax, bits, sgn), (char *)b.p, (uint8_t)base);
        got[i] = r - (char *)b.p;
        if (got[i] != len || b.p[len] != 0 || strlen((char *)b.p) != (size_t)len)
            o.fail(std::string("longest text of ") + KNAME[k] + " in base " + std::to_string(base) + ": expected " + std::to_string(len) + " characters");
    }
    o.result = std::to_string(got[0]) + " " + (sgn ? std::to_string(got[1]) : std::string("-"));
    o.tag("longest-text-of-kind");
}

void run_atorep(const std::vector<std::string> &w, out &o)
{
    int k = kind_of(w[1]);
    unsigned base = (unsigned)strtoul(w[2].c_str(), 0, 10);
    size_t len = strtoull(w[3].c_str(), 0, 10);
    bytes pat = unhex(w[4]), tail = unhex(w[5]);
    if (tail.empty() || tail.back() != 0) { o.result = "bad-op"; return; }
    bytes s;
    if (!pat.empty())
        for (size_t i = 0; i < len; i++) s.push_back(pat[i % pat.size()]);
    s.insert(s.end(), tail.begin(), tail.end());
    int bits = KBITS[k];
    exact_buf b(s);
    char *e = 0;
    uint64_t v = call_ato(k, (const char *)b.p, (uint8_t)base, &e);
    long end = e - (char *)b.p;
    o.result = hexn(v, bits / 4) + " " + std::to_string(end);
    size_t rend;
    bool wrapped;
    uint64_t rv = ref_parse(s.data(), bits, ksigned(k), base, &rend, &wrapped);
    if (v != rv || end != (long)rend)
        o.fail(std::string("igris_ato") + KNAME[k] + " on " + std::to_string(s.size()) + " bytes, base " + std::to_string(base) + ": " + hexn(v, bits / 4) + " end " +
               std::to_string(end) + ", expected " + hexn(rv, bits / 4) + " end " + std::to_string(rend));
    o.tag("long-text");
    if (rend >= 300 * 1024) o.tag("input-300KiB");
    if (rend >= 65535 && rend <= 65537) o.tag("length-around-65536");
    if (wrapped) o.tag("wraps");
}

void run_seq(const std::vector<std::string> &w, out &o)
{
    int k = kind_of(w[1]);
    uint64_t v = extend(h64(w[2]), KBITS[k], ksigned(k));
    exact_buf b((size_t)72);
    bytes prev = b.vec();
    size_t pos = 0;
    const std::string &bs = w[3];
    while (pos <= bs.size())
    {
        size_t c = bs.find(',', pos);
        if (c == std::string::npos) c = bs.size();
        unsigned base = (unsigned)strtoul(bs.substr(pos, c - pos).c_str(), 0, 10);
        pos = c + 1;
        bool valid = base >= 2 && base <= 36;
        char ref[80];
        int len = valid ? ref_text(v, KBITS[k], ksigned(k), base, !ksigned(k), ref) : 0;
        ref[len] = 0;
        char *r = call_toa(k, v, (char *)b.p, (uint8_t)base);
        if (memcmp(b.p, ref, len + 1) || r != (char *)b.p + len)
            o.fail(std::string("igris_") + KNAME[k] + "toa into a buffer that held an earlier text: base " + std::to_string(base) + " wrote `" + show(std::string((char *)b.p, len + 1)) + "`");
        for (size_t i = len + 1; i < 72; i++)
            if (b.p[i] != prev[i]) { o.fail("bytes behind the terminator changed (offset " + std::to_string(i) + ", base " + std::to_string(base) + ")"); break; }
        prev = b.vec();
    }
    size_t t = 0;
    for (size_t i = 0; i < 72; i++) if (b.p[i] != 0xA5) t = i + 1;
    o.result = t ? hex(b.p, t) : std::string("-");
    o.tag("same-buffer-several-bases");
}

