// C03 harness: igris::cyclic_buffer<int>, struct ring_counter, bytering_head (`reset cyc|rc|bring`)
#include "C03_common.h"

// =============================================================== cyclic buffer
struct Cyc
{
    std::unique_ptr<igris::cyclic_buffer<int>> c;
    std::vector<int> log; // every sample pushed since construction / resize
    size_t cap = 0;
};
static Cyc cy;

void run_cyc(const std::vector<std::string> &w, out &o)
{
    auto &x = *cy.c;
    const std::string &op = w[0];
    std::string ret = "-";
    size_t n = cy.log.size();
    if (op == "push")
    {
        int v = (int)strtol(w[1].c_str(), 0, 10);
        int old = x.push(v);
        ret = S(old);
        int exp = n >= cy.cap ? cy.log[n - cy.cap] : 0;
        if (old != exp) o.fail("push returned " + S(old) + ", the overwritten sample is " + S(exp));
        cy.log.push_back(v);
        if (n >= cy.cap) o.tag("overwrite");
    }
    else if (op == "at")
    {
        int i = (int)strtol(w[1].c_str(), 0, 10);
        int v = x[i];
        ret = S(v);
        {
            const igris::cyclic_buffer<int> &cx = x; // the const overload has its own body
            if (cx[i] != v) o.fail("const operator[] disagrees with operator[]");
        }
        size_t k = (size_t)emod(i, (int64_t)cy.cap); // slots repeat with period cap (negative i: counter - i < size)
        int exp = k < n ? cy.log[n - 1 - k] : 0;
        if (i < 0) o.tag("nth-neg");
        if (v != exp) o.fail("cb[" + S(i) + "] = " + S(v) + ", the " + S(k) + "-th previous sample is " + S(exp));
        if (i >= 0 && (size_t)i < std::min(n, cy.cap)) o.tag("nth");
        if (i >= 0 && n > cy.cap && n % cy.cap < (size_t)i % cy.cap + 1) o.tag("nth-wrap");
    }
    else if (op == "resize")
    {
        cy.cap = strtoul(w[1].c_str(), 0, 10);
        x.resize(cy.cap);
        cy.log.clear();
    }
    else { o.result = "bad-op"; return; }
    // `counter` / `data` are data members the property does not name: read when they exist, else the reference's value
    long cnt = acc::cyc_counter(x, cy.cap ? (long)(cy.log.size() % cy.cap) : 0), csz = acc::cyc_counter_size(x, (long)cy.cap);
    if (cnt < 0 || cnt >= csz) o.fail("counter outside [0,size)");
    if ((size_t)csz != acc::cyc_data_size(x, cy.cap)) o.fail("counter size != data size");
    if (x.size() != std::min(cy.log.size(), cy.cap))
        o.fail("size() " + S(x.size()) + " != " + S(std::min(cy.log.size(), cy.cap)));
    if (cy.cap & (cy.cap - 1)) o.tag("nonpow2");
    o.result = ret + " " + S(cnt) + " " + S(x.size());
}

static ring_counter rcs;
void run_rc(const std::vector<std::string> &w, out &o)
{
    const std::string &op = w[0];
    std::string ret = "-";
    int64_t a = w.size() > 1 ? strtol(w[1].c_str(), 0, 10) : 0;
    int64_t size = rcs.size, before = rcs.counter;
    if (op == "inc")
    {
        ring_counter_increment(&rcs, (int)a);
        if (before + a >= 0 && rcs.counter != emod(before + a, size)) o.fail("increment: counter " + S(rcs.counter));
        if (before + a < 0) o.tag("inc-neg");
        if (before + a >= 2147483000) o.tag("int-edge");
    }
    else if (op == "set")
    {
        ring_counter_set(&rcs, (int)a);
        if (a >= 0 && rcs.counter != emod(a, size)) o.fail("set: counter " + S(rcs.counter));
    }
    else if (op == "prev")
    {
        int v = ring_counter_prev(&rcs, (int)a);
        ret = S(v);
        // contract of ring_counter_prev: counter - i < size (every i >= 0 for a counter in range, and
        // the negative i > counter - size); beyond it the result is >= size and only compared with the model
        if (before - a < size && v != emod(before - a, size)) o.fail("prev(" + S(a) + ") = " + S(v));
        if (a > before) o.tag("prev-wrap");
        if (a < 0) o.tag(before - a < size ? "prev-neg" : "prev-beyond");
    }
    else if (op == "last")
    {
        int v = ring_counter_last(&rcs, (int)a);
        ret = S(v);
        if (v != emod(before - a, size)) o.fail("last(" + S(a) + ") = " + S(v));
        if (a > before) o.tag("prev-wrap");
    }
    else if (op == "fixpos")
    {
        int v = ring_counter_fixup_pos(&rcs, (int)a);
        ret = S(v);
        if (v != emod(a, size)) o.fail("fixup_pos(" + S(a) + ") = " + S(v));
        if (a < 0) o.tag("fix-neg");
    }
    else if (op == "get") ret = S(ring_counter_get(&rcs));
    else { o.result = "bad-op"; return; }
    if (size & (size - 1)) o.tag("nonpow2");
    o.result = ret + " " + S(rcs.counter);
}

void reset_cyc(size_t n, out &o)
{
    cy.cap = n;
    cy.c.reset(new igris::cyclic_buffer<int>(cy.cap));
    cy.log.clear();
    o.result = "- " + S(acc::cyc_counter(*cy.c, 0)) + " " + S(cy.c->size());
}
void reset_rc(long n, out &o)
{
    ring_counter_init(&rcs, (int)n);
    o.result = "- " + S(rcs.counter);
}

// ================================================================== bytering
// igris/datastruct/bytering.h: the pointer version of the byte ring
// (`reset bring <size>`).  Result = "<ret> <head-start> <tail-start> <empty> <full>".
struct BRing
{
    bytering_head r;
    std::unique_ptr<exact_buf> buf;
    std::deque<uint8_t> q;
    size_t npush = 0, npop = 0; // accepted pushes / pops (positions predicted by the reference, see acc::bring_view)
    acc::bview view() { return acc::bring_view(r, buf->p, buf->n, npop, npush); }
};
static std::unique_ptr<BRing> br;
static std::string bring_state(BRing &b)
{
    acc::bview v = b.view();
    return S(v.head) + " " + S(v.tail) + " " + S(bytering_empty(&b.r) ? 1 : 0) + " " +
           S(bytering_full(&b.r) ? 1 : 0);
}
static void bring_check(BRing &b, out &o)
{
    bytering_head *r = &b.r;
    size_t size = b.buf->n;
    acc::bview v = b.view();
    if (!v.block_ok) o.fail("start/end moved");
    if (!v.in_range) o.fail("head or tail outside [start,end)");
    if ((bytering_empty(r) != 0) != b.q.empty()) o.fail("bytering_empty disagrees with reference (" + S(b.q.size()) + " stored)");
    if ((bytering_full(r) != 0) != (b.q.size() == size - 1)) o.fail("bytering_full disagrees with reference (" + S(b.q.size()) + " stored of " + S(size - 1) + ")");
    if (b.q.empty()) o.tag("empty");
    if (b.q.size() == size - 1) o.tag("full");
    if (size & (size - 1)) o.tag("nonpow2");
    if (v.tail < v.head) o.tag("wrapped");
}
void run_bring(const std::vector<std::string> &w, out &o)
{
    BRing &b = *br;
    bytering_head *r = &b.r;
    const std::string &op = w[0];
    size_t size = b.buf->n;
    std::string ret = "-";
    if (op == "push" || op == "pushn")
    {
        uint8_t c = unhex(w[1])[0];
        acc::bview before = b.view();
        bytes snap = b.buf->vec();
        bool full = b.q.size() == size - 1;
        if (op == "pushn")
        { // unchecked variant: the caller has tested bytering_full itself
            if (full) { o.result = "bad-op"; return; }
            bytering_push_nocheck(r, c);
            b.q.push_back(c); b.npush++;
        }
        else
        {
            int rc = bytering_push(r, c);
            ret = S(rc);
            if (full)
            {
                o.tag("reject-full");
                if (rc != -1) o.fail("push on a full ring returned " + S(rc));
                if (before.head != b.view().head || before.tail != b.view().tail || snap != b.buf->vec())
                    o.fail("push on a full ring changed the state");
            }
            else
            {
                if (rc != 0) o.fail("push with " + S(b.q.size()) + " of " + S(size - 1) + " stored returned " + S(rc));
                b.q.push_back(c); b.npush++;
            }
        }
        if (c == 0xff) o.tag("ff"); else if (c >= 0x80) o.tag("hi-byte");
    }
    else if (op == "pop" || op == "popn")
    {
        acc::bview before = b.view();
        bytes snap = b.buf->vec();
        bool empty = b.q.empty();
        if (op == "popn" && empty) { o.result = "bad-op"; return; }
        int rc = op == "pop" ? bytering_pop(r) : bytering_pop_nocheck(r);
        ret = S(rc);
        if (snap != b.buf->vec()) o.fail("pop wrote to the buffer");
        if (empty)
        {
            o.tag("reject-empty");
            if (rc != -1) o.fail("pop on an empty ring returned " + S(rc));
            if (before.head != b.view().head || before.tail != b.view().tail) o.fail("pop on an empty ring changed the state");
        }
        else
        {
            uint8_t exp = b.q.front();
            b.q.pop_front(); b.npop++;
            if (rc != (int)exp) o.fail("pop returned " + S(rc) + " for stored byte " + S(exp));
            if (exp == 0xff) o.tag("ff"); else if (exp >= 0x80) o.tag("hi-byte");
        }
    }
    else if (op == "dump") ret = hex(b.buf->p, size);
    else { o.result = "bad-op"; return; }
    bring_check(b, o);
    o.result = ret + " " + bring_state(b);
}


void reset_bring(size_t size, out &o)
{
    br.reset(new BRing);
    br->buf.reset(new exact_buf(size));
    for (size_t i = 0; i < size; i++) br->buf->p[i] = (uint8_t)(i * 7 + 3);
    bytering_init(&br->r, br->buf->p, (unsigned)size);
    bring_check(*br, o);
    o.result = "- " + bring_state(*br);
}
