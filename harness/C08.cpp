// C08 harness: compat/libc/string/*.c (compiled under igv_* names by
// C08_impl.c) against the Lean model (IgrisModel/C08) and against host glibc.
//
// Op line:   <fn> <buffer>* <arg>*
//   buffer  A=<align>:<hex>   an exactly sized heap allocation; its payload
//                             starts <align> bytes into the malloc block (so
//                             address % 8 == align % 8) and ends at the block's
//                             end; with align 0 it is flush at both ends
//   arg     A+<off> | N | #<int> | <ptr>,<ptr> (one strtok call: str, delim)
// Result:    <ret> <hex of every buffer afterwards>      (see Main.lean)
#include "common/hv.h"
#include "C08_shared.h"
#include <sanitizer/asan_interface.h>
#include <strings.h>
#include <memory>
#include <algorithm>
#include <cctype>

using namespace hv;
typedef std::vector<uint8_t> bytes;

extern "C"
{
    void *igv_memcpy(void *, const void *, size_t);
    void *igv_memmove(void *, const void *, size_t);
    void *igv_memset(void *, int, size_t);
    int igv_memcmp(const void *, const void *, size_t);
    void *igv_memchr(const void *, int, size_t);
    void *igv_memrchr(const void *, int, size_t);
    size_t igv_strlen(const char *);
    size_t igv_strnlen(const char *, size_t);
    char *igv_strcpy(char *, const char *);
    char *igv_strncpy(char *, const char *, size_t);
    size_t igv_strlcpy(char *, const char *, size_t);
    char *igv_strcat(char *, const char *);
    char *igv_strncat(char *, const char *, size_t);
    int igv_strcmp(const char *, const char *);
    int igv_strncmp(const char *, const char *, size_t);
    int igv_strcasecmp(const char *, const char *);
    int igv_strncasecmp(const char *, const char *, size_t);
    char *igv_strchr(const char *, int);
    char *igv_strrchr(const char *, int);
    char *igv_strchrnul(const char *, int);
    char *igv_strstr(const char *, const char *);
    char *igv_strcasestr(const char *, const char *);
    size_t igv_strspn(const char *, const char *);
    size_t igv_strcspn(const char *, const char *);
    char *igv_strpbrk(const char *, const char *);
    char *igv_strtok(char *, const char *);
    char *igv_strtok_r(char *, const char *, char **);
    char *igv_strdup(const char *);
    char *igv_strndup(const char *, size_t);
    char *igv_strlwr(char *);
    char *igv_strupr(char *);
    unsigned igv_block_sz(void);
    unsigned igv_char_bit(void);
    int igv_char_is_signed(void);
    int igv_ct_libc(int which, int c);
    int igv_ct_igris(int which, int c);
    unsigned igv_plat2(int k);
}

#define NOSAN __attribute__((no_sanitize("address", "undefined")))

// ROUND 3b (fragility): every function under test is a WEAK reference.  When a file of compat/libc/string
// is moved / split / removed (C08_impl.c includes each file only if it exists) the check still builds and
// the ops of exactly the missing functions report "missing-function" with a failing oracle.
#pragma weak igv_memcpy
#pragma weak igv_memmove
#pragma weak igv_memset
#pragma weak igv_memcmp
#pragma weak igv_memchr
#pragma weak igv_memrchr
#pragma weak igv_strlen
#pragma weak igv_strnlen
#pragma weak igv_strcpy
#pragma weak igv_strncpy
#pragma weak igv_strlcpy
#pragma weak igv_strcat
#pragma weak igv_strncat
#pragma weak igv_strcmp
#pragma weak igv_strncmp
#pragma weak igv_strcasecmp
#pragma weak igv_strncasecmp
#pragma weak igv_strchr
#pragma weak igv_strrchr
#pragma weak igv_strchrnul
#pragma weak igv_strstr
#pragma weak igv_strcasestr
#pragma weak igv_strspn
#pragma weak igv_strcspn
#pragma weak igv_strpbrk
#pragma weak igv_strtok
#pragma weak igv_strtok_r
#pragma weak igv_strdup
#pragma weak igv_strndup
#pragma weak igv_strlwr
#pragma weak igv_strupr
static const struct { const char *name; const void *fp; } FN_TABLE[] = {
    {"memcpy", (const void *)&igv_memcpy},
    {"memmove", (const void *)&igv_memmove},
    {"memset", (const void *)&igv_memset},
    {"memcmp", (const void *)&igv_memcmp},
    {"memchr", (const void *)&igv_memchr},
    {"memrchr", (const void *)&igv_memrchr},
    {"strlen", (const void *)&igv_strlen},
    {"strnlen", (const void *)&igv_strnlen},
    {"strcpy", (const void *)&igv_strcpy},
    {"strncpy", (const void *)&igv_strncpy},
    {"strlcpy", (const void *)&igv_strlcpy},
    {"strcat", (const void *)&igv_strcat},
    {"strncat", (const void *)&igv_strncat},
    {"strcmp", (const void *)&igv_strcmp},
    {"strncmp", (const void *)&igv_strncmp},
    {"strcasecmp", (const void *)&igv_strcasecmp},
    {"strncasecmp", (const void *)&igv_strncasecmp},
    {"strchr", (const void *)&igv_strchr},
    {"strrchr", (const void *)&igv_strrchr},
    {"strchrnul", (const void *)&igv_strchrnul},
    {"strstr", (const void *)&igv_strstr},
    {"strcasestr", (const void *)&igv_strcasestr},
    {"strspn", (const void *)&igv_strspn},
    {"strcspn", (const void *)&igv_strcspn},
    {"strpbrk", (const void *)&igv_strpbrk},
    {"strtok", (const void *)&igv_strtok},
    {"strtok_r", (const void *)&igv_strtok_r},
    {"strdup", (const void *)&igv_strdup},
    {"strndup", (const void *)&igv_strndup},
    {"strlwr", (const void *)&igv_strlwr},
    {"strupr", (const void *)&igv_strupr},
};
NOSAN static bool fn_present(const std::string &fn)
{
    for (auto &e : FN_TABLE)
        if (fn == e.name)
        {
            const void *volatile p = e.fp;
            return p != nullptr;
        }
    return true;
}

// ------------------------------------------------------------ byte-exact access monitor (round 3)
// C08_impl.c is compiled with `--param asan-instrumentation-with-call-threshold=0`:
// every load/store of the code under test calls __asan_loadN/__asan_storeN.  The
// definitions below take precedence over libasan's: they (1) keep ASan's own
// verdict (poisoned -> the usual report and abort) and (2) compare the access,
// byte by byte, with the payloads of the op's buffers.  ASan's shadow has an
// 8-byte granule and cannot poison the pad bytes in front of a payload that
// starts at a non-zero alignment; this monitor sees a 1-byte under-read at
// every alignment, and it records the extent of all reads and writes per
// buffer so that the oracle can compare them with the ranges the definition
// allows (also when the argument lies inside a larger buffer).
struct Zone
{
    uintptr_t blo, bhi; // the malloc block
    uintptr_t lo, hi;   // the payload
    uintptr_t rlo, rhi, wlo, whi; // extents of the reads / writes seen
};
static Zone g_z[16];
static int g_nz = 0;
static bool g_mon = false;
static char g_viol[200];
static uint64_t g_nacc = 0;
NOSAN static void mon_access(void *a, size_t sz, bool wr, void *pc)
{
    uintptr_t x = (uintptr_t)a;
    if (g_mon)
    {
        g_nacc++;
        bool inside = false;
        int nz = -1;
        for (int i = 0; i < g_nz; i++)
        {
            Zone &z = g_z[i];
            if (x >= z.lo && x + sz <= z.hi)
            {
                inside = true;
                if (wr) { if (x < z.wlo) z.wlo = x; if (x + sz > z.whi) z.whi = x + sz; }
                else { if (x < z.rlo) z.rlo = x; if (x + sz > z.rhi) z.rhi = x + sz; }
                break;
            }
            if (x + sz + 32 > z.blo && x < z.bhi + 32 && nz < 0) nz = i;
        }
        if (!inside && nz >= 0 && !g_viol[0])
            snprintf(g_viol, sizeof g_viol, "%s of %zu byte(s) at %c%+td, outside the object (%zu bytes)", wr ? "store" : "load", sz,
                     (char)('A' + nz), (ptrdiff_t)(x - g_z[nz].lo), (size_t)(g_z[nz].hi - g_z[nz].lo));
    }
    if (__asan_region_is_poisoned(a, sz))
        __asan_report_error(pc, __builtin_frame_address(0), __builtin_frame_address(0), a, wr, sz);
}
extern "C"
{
#define HOOK(n) \
    NOSAN void __asan_load##n(void *a) { mon_access(a, n, false, __builtin_return_address(0)); } \
    NOSAN void __asan_store##n(void *a) { mon_access(a, n, true, __builtin_return_address(0)); }
    HOOK(1) HOOK(2) HOOK(4) HOOK(8) HOOK(16)
    NOSAN void __asan_loadN(void *a, long n) { mon_access(a, (size_t)n, false, __builtin_return_address(0)); }
    NOSAN void __asan_storeN(void *a, long n) { mon_access(a, (size_t)n, true, __builtin_return_address(0)); }
}
static void zone_add(uint8_t *blo, size_t btotal, uint8_t *p, size_t n)
{
    if (g_nz >= 16) return;
    Zone &z = g_z[g_nz++];
    z.blo = (uintptr_t)blo; z.bhi = z.blo + btotal;
    z.lo = (uintptr_t)p; z.hi = z.lo + n;
    z.rlo = z.wlo = ~(uintptr_t)0; z.rhi = z.whi = 0;
}
struct MonScope
{
    MonScope() { g_mon = true; }
    ~MonScope() { g_mon = false; }
};
static uint64_t fnv64(const uint8_t *p, size_t n)
{
    uint64_t h = 0xcbf29ce484222325ull;
    for (size_t i = 0; i < n; i++) { h ^= p[i]; h *= 0x100000001b3ull; }
    return h;
}
static std::string hashed(const uint8_t *p, size_t n)
{
    char b[64];
    snprintf(b, sizeof b, "%zu:%016llx", n, (unsigned long long)fnv64(p, n));
    return b;
}

// ROUND 3b: no static_assert on sizeof(long) / the signedness of char any more.  No result of any op
// depends on them (the model is the LP64 / signed-char INSTANCE of the code; the ISO definitions the
// oracle and the theorems state are the same on every platform), so they are reported as TAGS of the
// ops `plat` / `plat2` and a build with -funsigned-char or another word size stays green.

// ------------------------------------------------------------ allocation hook
// strdup/strndup: `malloc` is a parameter of the check
static bool g_fail = false;
static uint8_t *g_blk = nullptr;
static size_t g_blk_n = 0;
extern "C" void *igv_malloc(size_t n)
{
    if (g_fail)
        return nullptr;
    bool was = g_mon;
    g_mon = false;
    g_blk = (uint8_t *)malloc(n ? n : 1);
    g_blk_n = n;
    memset(g_blk, 0xA5, n);
    zone_add(g_blk, n ? n : 1, g_blk, n);
    g_mon = was;
    return g_blk;
}

extern "C" void *igv_calloc(size_t a, size_t b)
{
    void *p = igv_malloc(a * b);
    if (p) memset(p, 0, a * b);
    return p;
}

// ------------------------------------------------------------ buffers
struct Buf
{
    uint8_t *base, *p;
    size_t n, align;
    size_t total = 0;
    bool poisoned = false;
    Buf(size_t al, const bytes &v) : n(v.size()), align(al)
    {
        total = align + n;
        if (total == 0)
        {
            // a zero-sized object: nothing at all may be accessed
            base = (uint8_t *)malloc(8);
            ASAN_POISON_MEMORY_REGION(base, 8);
            poisoned = true;
            p = base;
        }
        else
        {
            base = (uint8_t *)malloc(total);
            memset(base, 0xEE, align);
            p = base + align;
            if (n)
                memcpy(p, v.data(), n);
        }
    }
    ~Buf()
    {
        if (poisoned)
            ASAN_UNPOISON_MEMORY_REGION(base, 8);
        free(base);
    }
    bool pad_ok() const
    {
        for (size_t i = 0; i < align; i++)
            if (base[i] != 0xEE)
                return false;
        return true;
    }
    Buf(const Buf &) = delete;
};

struct Arg
{
    enum { PTR, NUL, INT, CALL } k;
    int b = 0;          // buffer index
    size_t off = 0;
    uint64_t u = 0;     // integer (bit pattern)
    bool snul = false;  // CALL: str is NULL
    int b2 = 0;
    size_t off2 = 0;
};

static bool parse_ptr(const std::string &t, int &b, size_t &off)
{
    if (t.size() < 3 || t[1] != '+')
        return false;
    b = t[0] - 'A';
    off = strtoull(t.c_str() + 2, 0, 10);
    return true;
}

// buffer contents: hex, or `@<len>,<mul>,<add>[,<pos>=<hh>]*` = byte i is
// 1 + (i*mul + add) % 251 (never NUL), then the patches (long inputs)
static bytes parse_data(const std::string &s)
{
    if (s.empty() || s[0] != '@')
        return unhex(s);
    std::vector<std::string> f;
    size_t st = 1;
    while (st <= s.size())
    {
        size_t c = s.find(',', st);
        if (c == std::string::npos) c = s.size();
        f.push_back(s.substr(st, c - st));
        st = c + 1;
    }
    if (f.size() < 3) return bytes();
    size_t len = strtoull(f[0].c_str(), 0, 10), mul = strtoull(f[1].c_str(), 0, 10), add = strtoull(f[2].c_str(), 0, 10);
    bytes v(len);
    for (size_t i = 0; i < len; i++) v[i] = (uint8_t)(1 + (i * mul + add) % 251);
    for (size_t k = 3; k < f.size(); k++)
    {
        size_t eq = f[k].find('=');
        if (eq == std::string::npos) continue;
        size_t pos = strtoull(f[k].c_str(), 0, 10);
        if (pos < len) v[pos] = (uint8_t)strtoul(f[k].c_str() + eq + 1, 0, 16);
    }
    return v;
}

static int sgn(long long v) { return v < 0 ? -1 : v > 0 ? 1 : 0; }
static const char *sgs(int s) { return s < 0 ? "<" : s > 0 ? ">" : "="; }
static std::string offs(const void *ret, const void *base)
{
    if (!ret)
        return "N";
    ptrdiff_t d = (const uint8_t *)ret - (const uint8_t *)base;
    return d >= 0 ? "+" + std::to_string(d) : "-" + std::to_string(-d);
}

// reference definitions for what glibc 2.36 does not ship
static size_t ref_strlcpy(char *dst, const char *src, size_t size)
{
    size_t l = strlen(src);
    if (size)
    {
        size_t k = l < size - 1 ? l : size - 1;
        memcpy(dst, src, k);
        dst[k] = 0;
    }
    return l;
}
static void ref_case(char *s, bool lower)
{
    for (; *s; s++)
    {
        unsigned char c = (unsigned char)*s;
        if (lower && c >= 'A' && c <= 'Z') *s = (char)(c + 32);
        if (!lower && c >= 'a' && c <= 'z') *s = (char)(c - 32);
    }
}

static bool has_hi(const bytes &v)
{
    for (uint8_t x : v) if (x >= 0x80) return true;
    return false;
}
static bool has_nul(const uint8_t *p, size_t n)
{
    for (size_t i = 0; i < n; i++) if (!p[i]) return true;
    return false;
}

// the "C" locale definition, by the host libc for the arguments ISO C allows
// (EOF, 0..255; the harness never calls setlocale) and by the definition itself
// elsewhere (no int outside 0..127 is in any class; conversions return it unchanged)
static int ct_ref(int which, int c)
{
    bool iso = c == EOF || (c >= 0 && c <= 255);
    switch (which)
    {
    case 0: return iso ? !!isalnum(c) : 0;
    case 1: return iso ? !!isalpha(c) : 0;
    case 2: return iso ? !!isblank(c) : 0;
    case 3: return iso ? !!isdigit(c) : 0;
    case 4: return iso ? !!islower(c) : 0;
    case 5: return iso ? !!isprint(c) : 0;
    case 6: return iso ? !!isspace(c) : 0;
    case 7: return iso ? !!isupper(c) : 0;
    case 8: return iso ? !!isxdigit(c) : 0;
    case 9: return iso ? tolower(c) : c;
    case 10: return iso ? toupper(c) : c;
    case 11: return c >= 0 && c <= 127; // POSIX: defined on all integer values
    default: return c & 0x7f;          // POSIX toascii
    }
}
static int ct_norm(int which, int v) { return which <= 8 || which == 11 ? !!v : v; }

// ops executed BEFORE main() by a constructor of the highest priority (nothing of
// the library may depend on static initialisation: strtok's static, lazily built
// tables, ...); the op `premain <k> <line>` reports what they returned
static char g_pm_result[PREMAIN_N][2048], g_pm_oracle[PREMAIN_N][512];

static void run_op(const std::vector<std::string> &w_, const std::string &line_, out &o)
{
    if (w_.empty()) { o.result = "bad-op"; return; }
    if (w_[0] == "premain")
    {
        // the op line was executed by a constructor that ran before main() (see Premain below)
        o.tag("premain");
        int k = w_.size() > 1 ? atoi(w_[1].c_str()) : -1;
        if (k < 0 || k >= PREMAIN_N) { o.result = "bad-op"; return; }
        std::string rest;
        for (size_t i = 2; i < w_.size(); i++) rest += (i > 2 ? " " : "") + w_[i];
        o.result = g_pm_result[k];
        if (rest != PREMAIN_LINES[k]) o.fail("premain: the generated line is not the one the constructor ran");
        if (strcmp(g_pm_oracle[k], "ok") != 0) o.fail(std::string("before main(): ") + g_pm_oracle[k]);
        return;
    }
    // `L:<fn>`: a long input; buffers are reported as <length>:<FNV-1a 64> instead of hex
    bool lg = w_[0].rfind("L:", 0) == 0;
    std::vector<std::string> w = w_;
    if (lg) w[0] = w[0].substr(2);
    const std::string &fn = w[0];
    g_nz = 0;
    g_viol[0] = 0;
    g_nacc = 0;
    if (fn == "reset") { o.result = "ok"; return; }
    if (fn == "plat2")
    {
        // ROUND 3b: compared = what the property depends on (the width of `int`, the domain of the ctype
        // functions and of the `int c` arguments, and the ASCII codes of the letters); sizeof(long) and
        // sizeof(size_t) are TAGS: no result depends on them
        static const char *const nm[8] = {"long", "size_t", "int", "A", "Z", "a", "z", "delta"};
        for (int k = 2; k < 8; k++) o.result += std::string(k > 2 ? " " : "") + nm[k] + "=" + std::to_string(igv_plat2(k));
        o.tag("plat2");
        for (int k = 0; k < 2; k++) o.tag((std::string(nm[k]) + "=" + std::to_string(igv_plat2(k))).c_str());
        return;
    }
    if (fn == "cttab" || fn == "ctype")
    {
        // cttab <name> <libc|igris>: the function on EOF, 0..255;   ctype #<c>: all 13 on one int, both spellings
        o.tag(fn.c_str());
        if (fn == "cttab")
        {
            if (w.size() != 3) { o.result = "bad-op"; return; }
            int which = -1;
            for (int k = 0; k < 13; k++) if (w[1] == CT_NAMES[k]) which = k;
            if (which < 0) { o.result = "bad-op"; return; }
            bool ig = w[2] == "igris";
            o.tag(CT_NAMES[which]);
            for (int c = -1; c <= 255; c++)
            {
                int v = ig ? igv_ct_igris(which, c) : igv_ct_libc(which, c);
                int e = ct_ref(which, c);
                if (which <= 8 || which == 11) o.result += v ? '1' : '0';
                else o.result += (c == -1 ? "" : ",") + std::to_string(v);
                if (ct_norm(which, v) != e)
                    o.fail(std::string(CT_NAMES[which]) + "(" + std::to_string(c) + ") = " + std::to_string(v) + ", the C locale gives " + std::to_string(e));
            }
            return;
        }
        if (w.size() != 2 || w[1][0] != '#') { o.result = "bad-op"; return; }
        int c = (int)strtoll(w[1].c_str() + 1, 0, 10);
        if (!(c == EOF || (c >= 0 && c <= 255))) o.tag("outside-iso-domain");
        for (int k = 0; k < 13; k++)
        {
            int v = igv_ct_libc(k, c), v2 = igv_ct_igris(k, c), e = ct_ref(k, c);
            o.result += std::string(k ? " " : "") + std::to_string(ct_norm(k, v));
            if (ct_norm(k, v) != ct_norm(k, v2)) o.fail(std::string(CT_NAMES[k]) + " and igris_" + CT_NAMES[k] + " disagree on " + std::to_string(c));
            if (ct_norm(k, v) != e)
                o.fail(std::string(CT_NAMES[k]) + "(" + std::to_string(c) + ") = " + std::to_string(v) + ", the definition gives " + std::to_string(e));
        }
        return;
    }
    if (fn == "plat")
    {
        // ROUND 3b: compared = CHAR_BIT (the model's Byte is BitVec 8); memcpy.c's file-local BLOCK_SZ (0 when the
        // macro no longer exists) and the signedness of plain char are TAGS: no result depends on them
        o.result = "char_bit=" + std::to_string(igv_char_bit());
        o.tag("plat");
        o.tag(("block_sz=" + std::to_string(igv_block_sz())).c_str());
        o.tag(igv_char_is_signed() ? "char=signed" : "char=unsigned");
        return;
    }
    // ---- parse
    std::vector<std::unique_ptr<Buf>> bufs;
    std::vector<bytes> cp; // oracle's copies (8 bytes of slack so data() is never null)
    std::vector<size_t> cn;
    size_t i = 1;
    for (; i < w.size() && w[i].size() >= 2 && w[i][1] == '=' && isupper((unsigned char)w[i][0]); i++)
    {
        size_t colon = w[i].find(':');
        size_t al = strtoul(w[i].c_str() + 2, 0, 10);
        bytes v = parse_data(w[i].substr(colon + 1));
        bufs.emplace_back(new Buf(al, v));
        zone_add(bufs.back()->base, bufs.back()->total ? bufs.back()->total : 8, bufs.back()->p, bufs.back()->n);
        cn.push_back(v.size());
        v.resize(v.size() + 8, 0xCC);
        cp.push_back(v);
    }
    std::vector<Arg> a;
    for (; i < w.size(); i++)
    {
        const std::string &t = w[i];
        Arg x;
        size_t comma = t.find(',');
        if (t[0] == '#')
        {
            x.k = Arg::INT;
            x.u = t[1] == '-' ? (uint64_t)strtoll(t.c_str() + 1, 0, 10) : strtoull(t.c_str() + 1, 0, 10);
        }
        else if (comma != std::string::npos)
        {
            x.k = Arg::CALL;
            std::string s = t.substr(0, comma), d = t.substr(comma + 1);
            x.snul = s == "N";
            if (!x.snul) parse_ptr(s, x.b, x.off);
            parse_ptr(d, x.b2, x.off2);
        }
        else if (t == "N")
            x.k = Arg::NUL;
        else
        {
            x.k = Arg::PTR;
            if (!parse_ptr(t, x.b, x.off)) { o.result = "bad-op"; return; }
        }
        if ((x.k == Arg::PTR || (x.k == Arg::CALL && !x.snul)) && (x.b < 0 || x.b >= (int)bufs.size())) { o.result = "bad-op"; return; }
        if (x.k == Arg::CALL && (x.b2 < 0 || x.b2 >= (int)bufs.size())) { o.result = "bad-op"; return; }
        a.push_back(x);
    }
    auto P = [&](int k) { return (char *)(bufs[a[k].b]->p + a[k].off); };
    auto Q = [&](int k) { return (char *)(cp[a[k].b].data() + a[k].off); };
    auto avail = [&](int k) { return cn[a[k].b] - a[k].off; };
    auto I = [&](int k) { return (size_t)a[k].u; };
    auto C = [&](int k) { return (int)(int64_t)a[k].u; };
    auto sig = [&](const char *pat) {
        // pat: p = pointer, i = integer
        if (strlen(pat) != a.size()) return false;
        for (size_t k = 0; k < a.size(); k++)
            if ((pat[k] == 'p') != (a[k].k == Arg::PTR) || (pat[k] == 'i') != (a[k].k == Arg::INT)) return false;
        return true;
    };
    o.tag(fn.c_str());
    if (lg) o.tag("long");
    if (!fn_present(fn))
    {
        o.result = "missing-function";
        o.fail(fn + " is named by the property but none of the files of compat/libc/string the harness includes defines it");
        return;
    }
    for (size_t k = 0; k < bufs.size(); k++)
    {
        bytes v(bufs[k]->p, bufs[k]->p + bufs[k]->n);
        if (has_hi(v)) { o.tag("highbit"); break; }
    }
    // the ranges the definition allows the call to read / write, per buffer (hull)
    struct Span { uintptr_t lo = ~(uintptr_t)0, hi = 0; };
    Span AR[16], AW[16];
    bool exact = false;
    auto allowR = [&](int k, size_t off, size_t len) {
        exact = true;
        if (!len) return;
        uintptr_t x = (uintptr_t)P(k) + off;
        Span &sp = AR[a[k].b];
        if (x < sp.lo) sp.lo = x;
        if (x + len > sp.hi) sp.hi = x + len;
    };
    auto allowW = [&](int k, size_t off, size_t len) {
        exact = true;
        if (!len) return;
        uintptr_t x = (uintptr_t)P(k) + off;
        Span &sp = AW[a[k].b];
        if (x < sp.lo) sp.lo = x;
        if (x + len > sp.hi) sp.hi = x + len;
    };
    auto qlen = [&](int k) { return strnlen(Q(k), avail(k)); }; // length of the string / array at argument k
    MonScope mon_on;
    std::string ret, exp;
#define BAD() do { o.result = "bad-op"; return; } while (0)
    if (fn == "memcpy" || fn == "memmove")
    {
        if (!sig("ppi")) BAD();
        size_t n = I(2);
        uintptr_t d = (uintptr_t)P(0), s = (uintptr_t)P(1);
        if (n == 0) o.tag("n=0");
        if (n >= 32 && d % 8 == 0 && s % 8 == 0 && !(fn == "memmove" && s < d && d < s + n)) o.tag("word-path");
        if (n >= 32 && (d % 8 || s % 8)) o.tag("unaligned>=32");
        if (s < d && d < s + n) o.tag("overlap-backward");
        else if (d < s && s < d + n) o.tag("overlap-forward");
        else if (d == s && n) o.tag("overlap-same");
        allowR(1, 0, n); allowW(0, 0, n);
        void *r = fn == "memcpy" ? igv_memcpy(P(0), P(1), n) : igv_memmove(P(0), P(1), n);
        ret = offs(r, P(0));
        memmove(Q(0), Q(1), n);
        exp = "+0";
    }
    else if (fn == "memset")
    {
        if (!sig("pii")) BAD();
        if (I(2) == 0) o.tag("n=0");
        if (C(1) < 0 || C(1) > 255) o.tag("c-outside-uchar");
        allowW(0, 0, I(2));
        ret = offs(igv_memset(P(0), C(1), I(2)), P(0));
        memset(Q(0), C(1), I(2));
        exp = "+0";
    }
    else if (fn == "memcmp")
    {
        if (!sig("ppi")) BAD();
        if (I(2) == 0) o.tag("n=0");
        allowR(0, 0, I(2)); allowR(1, 0, I(2));
        int r = sgn(igv_memcmp(P(0), P(1), I(2)));
        int e = sgn(memcmp(Q(0), Q(1), I(2)));
        ret = sgs(r); exp = sgs(e);
        o.tag(e < 0 ? "lt" : e > 0 ? "gt" : "eq");
    }
    else if (fn == "memchr" || fn == "memrchr")
    {
        if (!sig("pii")) BAD();
        size_t n = I(2);
        if (n == 0) o.tag("n=0");
        if (C(1) < 0 || C(1) > 255) o.tag("c-outside-uchar");
        if (n > avail(0)) o.tag("n>object");
        size_t ne = n < avail(0) ? n : avail(0);
        void *e = fn == "memchr" ? memchr(Q(0), C(1), ne) : memrchr(Q(0), C(1), ne);
        // C11 7.24.5.1: memchr behaves as if it read sequentially and stopped at the first match
        allowR(0, 0, fn == "memchr" && e ? (size_t)((char *)e - Q(0)) + 1 : n);
        if (n == ~(size_t)0) o.tag("n=SIZE_MAX");
        void *r = fn == "memchr" ? igv_memchr(P(0), C(1), n) : igv_memrchr(P(0), C(1), n);
        ret = offs(r, P(0)); exp = offs(e, Q(0));
        o.tag(e ? "found" : "notfound");
    }
    else if (fn == "strlen")
    {
        if (!sig("p")) BAD();
        allowR(0, 0, qlen(0) + 1);
        ret = std::to_string(igv_strlen(P(0)));
        exp = std::to_string(strlen(Q(0)));
        if (exp == "0") o.tag("empty");
    }
    else if (fn == "strnlen")
    {
        if (!sig("pi")) BAD();
        size_t n = I(1), ne = n < avail(0) ? n : avail(0);
        if (!has_nul((uint8_t *)Q(0), avail(0))) o.tag("unterminated");
        allowR(0, 0, std::min(qlen(0) + 1, n));
        if (n == ~(size_t)0) o.tag("n=SIZE_MAX");
        ret = std::to_string(igv_strnlen(P(0), n));
        size_t e = strnlen(Q(0), ne);
        exp = std::to_string(e);
        o.tag(n == 0 ? "n=0" : e < n ? "n>len" : "n<=len");
    }
    else if (fn == "strcpy" || fn == "strcat")
    {
        if (!sig("pp")) BAD();
        {
            size_t sl = qlen(1), dl = fn == "strcat" ? qlen(0) : 0;
            allowR(1, 0, sl + 1);
            if (fn == "strcat") allowR(0, 0, dl + sl + 1);
            allowW(0, dl, sl + 1);
        }
        char *r = fn == "strcpy" ? igv_strcpy(P(0), P(1)) : igv_strcat(P(0), P(1));
        ret = offs(r, P(0));
        if (fn == "strcpy") strcpy(Q(0), Q(1)); else strcat(Q(0), Q(1));
        exp = "+0";
        if (*Q(1) == 0) o.tag("empty-src");
    }
    else if (fn == "strncpy" || fn == "strncat")
    {
        if (!sig("ppi")) BAD();
        size_t n = I(2);
        size_t sl = strnlen(Q(1), avail(1));
        if (sl == avail(1)) o.tag("unterminated");
        o.tag(n == 0 ? "n=0" : sl < n ? "n>len" : sl == n ? "n=len" : "n<len");
        allowR(1, 0, std::min(sl + 1, n));
        if (fn == "strncpy") allowW(0, 0, n);
        else
        {
            size_t dl = qlen(0), c = std::min(sl, n);
            allowR(0, 0, dl + c + 1);
            allowW(0, dl, c + 1);
        }
        char *r = fn == "strncpy" ? igv_strncpy(P(0), P(1), n) : igv_strncat(P(0), P(1), n);
        ret = offs(r, P(0));
        if (fn == "strncpy") strncpy(Q(0), Q(1), n); else strncat(Q(0), Q(1), n);
        exp = "+0";
    }
    else if (fn == "strlcpy")
    {
        if (!sig("ppi")) BAD();
        size_t n = I(2), sl = strlen(Q(1));
        o.tag(n == 0 ? "size=0" : sl >= n ? "truncated" : "fits");
        allowR(1, 0, sl + 1);
        if (n) allowW(0, 0, std::min(sl, n - 1) + 1);
        ret = std::to_string(igv_strlcpy(P(0), P(1), n));
        exp = std::to_string(ref_strlcpy(Q(0), Q(1), n));
    }
    else if (fn == "strcmp" || fn == "strcasecmp")
    {
        if (!sig("pp")) BAD();
        allowR(0, 0, qlen(0) + 1); allowR(1, 0, qlen(1) + 1);
        int r = sgn(fn == "strcmp" ? igv_strcmp(P(0), P(1)) : igv_strcasecmp(P(0), P(1)));
        int e = sgn(fn == "strcmp" ? strcmp(Q(0), Q(1)) : strcasecmp(Q(0), Q(1)));
        ret = sgs(r); exp = sgs(e);
        o.tag(e < 0 ? "lt" : e > 0 ? "gt" : "eq");
    }
    else if (fn == "strncmp" || fn == "strncasecmp")
    {
        if (!sig("ppi")) BAD();
        size_t n = I(2);
        if (n == 0) o.tag("n=0");
        if (!has_nul((uint8_t *)Q(0), avail(0)) || !has_nul((uint8_t *)Q(1), avail(1))) o.tag("unterminated");
        allowR(0, 0, std::min(qlen(0) + 1, n)); allowR(1, 0, std::min(qlen(1) + 1, n));
        if (n == ~(size_t)0) o.tag("n=SIZE_MAX");
        int r = sgn(fn == "strncmp" ? igv_strncmp(P(0), P(1), n) : igv_strncasecmp(P(0), P(1), n));
        int e = sgn(fn == "strncmp" ? strncmp(Q(0), Q(1), n) : strncasecmp(Q(0), Q(1), n));
        ret = sgs(r); exp = sgs(e);
        o.tag(e < 0 ? "lt" : e > 0 ? "gt" : "eq");
    }
    else if (fn == "strchr" || fn == "strrchr" || fn == "strchrnul")
    {
        if (!sig("pi")) BAD();
        int c = C(1);
        if (c < 0 || c > 255) o.tag("c-outside-uchar");
        if ((char)c == 0) o.tag("c-is-nul");
        allowR(0, 0, qlen(0) + 1);
        char *r = fn == "strchr" ? igv_strchr(P(0), c) : fn == "strrchr" ? igv_strrchr(P(0), c) : igv_strchrnul(P(0), c);
        char *e = fn == "strchr" ? strchr(Q(0), c) : fn == "strrchr" ? strrchr(Q(0), c) : strchrnul(Q(0), c);
        ret = offs(r, P(0)); exp = offs(e, Q(0));
        o.tag(e && *e ? "found" : "notfound");
    }
    else if (fn == "strstr" || fn == "strcasestr" || fn == "strpbrk")
    {
        if (!sig("pp")) BAD();
        allowR(0, 0, qlen(0) + 1); allowR(1, 0, qlen(1) + 1);
        char *r = fn == "strstr" ? igv_strstr(P(0), P(1)) : fn == "strcasestr" ? igv_strcasestr(P(0), P(1)) : igv_strpbrk(P(0), P(1));
        char *e = fn == "strstr" ? strstr(Q(0), Q(1)) : fn == "strcasestr" ? strcasestr(Q(0), Q(1)) : strpbrk(Q(0), Q(1));
        ret = offs(r, P(0)); exp = offs(e, Q(0));
        o.tag(e ? "found" : "notfound");
        if (*Q(1) == 0) o.tag("empty-arg2");
    }
    else if (fn == "strspn" || fn == "strcspn")
    {
        if (!sig("pp")) BAD();
        allowR(0, 0, qlen(0) + 1); allowR(1, 0, qlen(1) + 1);
        size_t r = fn == "strspn" ? igv_strspn(P(0), P(1)) : igv_strcspn(P(0), P(1));
        size_t e = fn == "strspn" ? strspn(Q(0), Q(1)) : strcspn(Q(0), Q(1));
        ret = std::to_string(r); exp = std::to_string(e);
        o.tag(e == 0 ? "zero" : e == strlen(Q(0)) ? "whole" : "part");
        if (*Q(1) == 0) o.tag("empty-arg2");
    }
    else if (fn == "strlwr" || fn == "strupr")
    {
        if (!sig("p")) BAD();
        allowR(0, 0, qlen(0) + 1); allowW(0, 0, qlen(0) + 1);
        char *r = fn == "strlwr" ? igv_strlwr(P(0)) : igv_strupr(P(0));
        ret = offs(r, P(0));
        ref_case(Q(0), fn == "strlwr");
        exp = "+0";
    }
    else if (fn == "strdup" || fn == "strndup")
    {
        if (!(fn == "strdup" ? sig("pi") : sig("pii"))) BAD();
        g_fail = (fn == "strdup" ? I(1) : I(2)) != 0;
        g_blk = nullptr; g_blk_n = 0;
        char *r, *e;
        if (fn == "strdup")
        {
            allowR(0, 0, qlen(0) + 1);
            r = igv_strdup(P(0));
            e = strdup(Q(0));
        }
        else
        {
            size_t n = I(1), ne = n < avail(0) ? n : avail(0);
            if (!has_nul((uint8_t *)Q(0), avail(0))) o.tag("unterminated");
            size_t sl = strnlen(Q(0), avail(0));
            o.tag(n == 0 ? "n=0" : sl < n ? "n>len" : sl == n ? "n=len" : "n<len");
            allowR(0, 0, std::min(qlen(0) + 1, n));
            r = igv_strndup(P(0), n);
            e = strndup(Q(0), ne);
        }
        exp = g_fail ? "N" : lg ? hashed((uint8_t *)e, strlen(e) + 1) : hex((uint8_t *)e, strlen(e) + 1);
        if (!r) ret = "N";
        else if ((uint8_t *)r != g_blk) ret = "not-the-malloc-block";
        else
        {
            // ROUND 3b: the definition fixes the STRING in the new block, not the size passed to malloc (an
            // implementation may round it up): compared = the block up to and including its first NUL (the
            // whole block when it has none); the size is a tag.  Too small a block is an ASan / monitor report.
            size_t shown = g_blk_n;
            for (size_t q = 0; q < g_blk_n; q++) if (!g_blk[q]) { shown = q + 1; break; }
            if (shown != g_blk_n) o.tag("block>string");
            ret = lg ? hashed(g_blk, shown) : hex(g_blk, shown);
        }
        if (g_fail) o.tag("malloc-fails");
        free(e);
        free(g_blk);
        g_blk = nullptr;
        g_fail = false;
    }
    else if (fn == "strtok" || fn == "strtok_r")
    {
        if (a.empty()) BAD();
        for (auto &x : a) if (x.k != Arg::CALL) BAD();
        uint8_t *base = a[0].snul ? bufs[0]->p : (uint8_t *)P(0);
        uint8_t *qbase = a[0].snul ? cp[0].data() : (uint8_t *)Q(0);
        // allowed: the string (from the lowest pointer passed to its ORIGINAL terminator) is read and
        // written, each delimiter string is read
        {
            int lowk = -1;
            for (size_t k = 0; k < a.size(); k++)
                if (!a[k].snul && (lowk < 0 || (a[k].b == a[lowk].b && a[k].off < a[lowk].off))) lowk = (int)k;
            if (lowk >= 0)
            {
                bool one_buf = true;
                for (size_t k = 0; k < a.size(); k++) if (!a[k].snul && a[k].b != a[lowk].b) one_buf = false;
                if (one_buf)
                {
                    size_t l0 = qlen(lowk) + 1;
                    allowR(lowk, 0, l0); allowW(lowk, 0, l0);
                    for (size_t k = 0; k < a.size(); k++)
                    {
                        const uint8_t *dq = cp[a[k].b2].data() + a[k].off2;
                        size_t dl = strnlen((const char *)dq, cn[a[k].b2] - a[k].off2) + 1;
                        uintptr_t x = (uintptr_t)(bufs[a[k].b2]->p + a[k].off2);
                        Span &sp = AR[a[k].b2];
                        if (x < sp.lo) sp.lo = x;
                        if (x + dl > sp.hi) sp.hi = x + dl;
                    }
                }
                else exact = false;
            }
        }
        char *save = nullptr, *qsave = nullptr;
        bool first = true;
        size_t toks = 0;
        for (size_t k = 0; k < a.size(); k++)
        {
            char *s = a[k].snul ? nullptr : P(k);
            char *d = (char *)(bufs[a[k].b2]->p + a[k].off2);
            char *qs = a[k].snul ? nullptr : Q(k);
            char *qd = (char *)(cp[a[k].b2].data() + a[k].off2);
            char *r = fn == "strtok" ? igv_strtok(s, d) : igv_strtok_r(s, d, &save);
            // glibc's strtok_r dereferences *saveptr when str == NULL
            char *e = (!qs && !qsave) ? nullptr : strtok_r(qs, qd, &qsave);
            if (!first) { ret += ","; exp += ","; }
            first = false;
            ret += offs(r, base); exp += offs(e, qbase);
            if (e) toks++;
            if (!a[k].snul && k) o.tag("restart");
        }
        o.tag(toks == 0 ? "no-token" : toks == 1 ? "one-token" : "tokens");
    }
    else
        BAD();
    // ---- result + oracle
    g_mon = false;
    o.result = ret;
    for (size_t k = 0; k < bufs.size(); k++)
        o.result += " " + (lg ? hashed(bufs[k]->p, bufs[k]->n) : hex(bufs[k]->p, bufs[k]->n));
    if (g_viol[0])
        o.fail(fn + ": " + g_viol);
    if (exact)
        for (size_t k = 0; k < bufs.size() && k < 16; k++)
        {
            const Zone &z = g_z[k];
            auto rel = [&](uintptr_t x) { return std::to_string((ptrdiff_t)(x - z.lo)); };
            std::string nm(1, (char)('A' + k));
            if (z.rhi > z.rlo && (z.rlo < AR[k].lo || z.rhi > AR[k].hi))
                o.fail(fn + " read " + nm + "[" + rel(z.rlo) + "," + rel(z.rhi) + "), the definition allows " +
                       (AR[k].hi > AR[k].lo ? nm + "[" + rel(AR[k].lo) + "," + rel(AR[k].hi) + ")" : "no read of " + nm));
            if (z.whi > z.wlo && (z.wlo < AW[k].lo || z.whi > AW[k].hi))
                o.fail(fn + " wrote " + nm + "[" + rel(z.wlo) + "," + rel(z.whi) + "), the definition allows " +
                       (AW[k].hi > AW[k].lo ? nm + "[" + rel(AW[k].lo) + "," + rel(AW[k].hi) + ")" : "no write to " + nm));
        }
    if (ret != exp)
        o.fail(fn + " returned " + ret + ", the definition (host libc) gives " + exp);
    for (size_t k = 0; k < bufs.size(); k++)
    {
        if (memcmp(bufs[k]->p, cp[k].data(), cn[k]) != 0)
        {
            if (lg)
            {
                size_t at = 0;
                while (at < cn[k] && bufs[k]->p[at] == cp[k][at]) at++;
                o.fail(fn + " left buffer " + std::string(1, (char)('A' + k)) + " different from the definition, first at index " + std::to_string(at) + " of " + std::to_string(cn[k]));
            }
            else
                o.fail(fn + " left buffer " + std::string(1, (char)('A' + k)) + " = " + hex(bufs[k]->p, bufs[k]->n) + ", the definition gives " + hex(cp[k].data(), cn[k]));
        }
        if (!bufs[k]->pad_ok())
            o.fail(fn + " wrote below buffer " + std::string(1, (char)('A' + k)));
    }
}

struct Premain
{
    Premain()
    {
        for (int k = 0; k < PREMAIN_N; k++)
        {
            std::vector<std::string> w;
            std::string line = PREMAIN_LINES[k], t;
            for (char c : line)
            {
                if (c == ' ') { if (!t.empty()) w.push_back(t); t.clear(); }
                else t += c;
            }
            if (!t.empty()) w.push_back(t);
            out o;
            run_op(w, line, o);
            snprintf(g_pm_result[k], sizeof g_pm_result[k], "%s", o.result.c_str());
            snprintf(g_pm_oracle[k], sizeof g_pm_oracle[k], "%s", o.oracle.c_str());
        }
    }
};
__attribute__((init_priority(101))) static Premain g_premain_object;

// the generator lives in C08_gen.cpp (round 3b: two translation units, compiled in parallel by bin/check)
void gen(hv::rng &r, const std::string &tier);

int main(int argc, char **argv) { return main_(argc, argv, gen, run_op); }
