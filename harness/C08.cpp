// C08 harness: compat/libc/string/*.c (compiled under igv_* names by
// C08_impl.c) against the Lean model (IgrisModel/C08) and against host glibc.
//
// Op line:   <fn> <buffer>* <arg>*
//   buffer  A=<align>:<hex>   an exactly sized heap allocation; its payload
//                             starts <align> bytes into the malloc block (so
//                             address % 8 == align % 8) and ends at the block's
//                             end; with align 0 it is flush at both ends
//   arg     A+<off> | N | #<int> | <ptr>,<ptr> (one strtok call: str, delim)
// Result:    <ret> <hex of every buffer afterwards>      (see Main.lean)
#include "common/hv.h"
#include <sanitizer/asan_interface.h>
#include <strings.h>
#include <memory>
#include <algorithm>
#include <cctype>

using namespace hv;
typedef std::vector<uint8_t> bytes;

extern "C"
{
    void *igv_memcpy(void *, const void *, size_t);
    void *igv_memmove(void *, const void *, size_t);
    void *igv_memset(void *, int, size_t);
    int igv_memcmp(const void *, const void *, size_t);
    void *igv_memchr(const void *, int, size_t);
    void *igv_memrchr(const void *, int, size_t);
    size_t igv_strlen(const char *);
    size_t igv_strnlen(const char *, size_t);
    char *igv_strcpy(char *, const char *);
    char *igv_strncpy(char *, const char *, size_t);
    size_t igv_strlcpy(char *, const char *, size_t);
    char *igv_strcat(char *, const char *);
    char *igv_strncat(char *, const char *, size_t);
    int igv_strcmp(const char *, const char *);
    int igv_strncmp(const char *, const char *, size_t);
    int igv_strcasecmp(const char *, const char *);
    int igv_strncasecmp(const char *, const char *, size_t);
    char *igv_strchr(const char *, int);
    char *igv_strrchr(const char *, int);
    char *igv_strchrnul(const char *, int);
    char *igv_strstr(const char *, const char *);
    char *igv_strcasestr(const char *, const char *);
    size_t igv_strspn(const char *, const char *);
    size_t igv_strcspn(const char *, const char *);
    char *igv_strpbrk(const char *, const char *);
    char *igv_strtok(char *, const char *);
    char *igv_strtok_r(char *, const char *, char **);
    char *igv_strdup(const char *);
    char *igv_strndup(const char *, size_t);
    char *igv_strlwr(char *);
    char *igv_strupr(char *);
    unsigned igv_block_sz(void);
    int igv_char_is_signed(void);
}

static_assert(sizeof(long) == 8 && sizeof(void *) == 8, "LP64 expected");
static_assert((char)0xff < 0, "char is expected to be signed");

// ------------------------------------------------------------ allocation hook
// strdup/strndup: `malloc` is a parameter of the check
static bool g_fail = false;
static uint8_t *g_blk = nullptr;
static size_t g_blk_n = 0;
extern "C" void *igv_malloc(size_t n)
{
    if (g_fail)
        return nullptr;
    g_blk = (uint8_t *)malloc(n ? n : 1);
    g_blk_n = n;
    memset(g_blk, 0xA5, n);
    return g_blk;
}

// ------------------------------------------------------------ buffers
struct Buf
{
    uint8_t *base, *p;
    size_t n, align;
    bool poisoned = false;
    Buf(size_t al, const bytes &v) : n(v.size()), align(al)
    {
        size_t total = align + n;
        if (total == 0)
        {
            // a zero-sized object: nothing at all may be accessed
            base = (uint8_t *)malloc(8);
            ASAN_POISON_MEMORY_REGION(base, 8);
            poisoned = true;
            p = base;
        }
        else
        {
            base = (uint8_t *)malloc(total);
            memset(base, 0xEE, align);
            p = base + align;
            if (n)
                memcpy(p, v.data(), n);
        }
    }
    ~Buf()
    {
        if (poisoned)
            ASAN_UNPOISON_MEMORY_REGION(base, 8);
        free(base);
    }
    bool pad_ok() const
    {
        for (size_t i = 0; i < align; i++)
            if (base[i] != 0xEE)
                return false;
        return true;
    }
    Buf(const Buf &) = delete;
};

struct Arg
{
    enum { PTR, NUL, INT, CALL } k;
    int b = 0;          // buffer index
    size_t off = 0;
    uint64_t u = 0;     // integer (bit pattern)
    bool snul = false;  // CALL: str is NULL
    int b2 = 0;
    size_t off2 = 0;
};

static bool parse_ptr(const std::string &t, int &b, size_t &off)
{
    if (t.size() < 3 || t[1] != '+')
        return false;
    b = t[0] - 'A';
    off = strtoull(t.c_str() + 2, 0, 10);
    return true;
}

static int sgn(long long v) { return v < 0 ? -1 : v > 0 ? 1 : 0; }
static const char *sgs(int s) { return s < 0 ? "<" : s > 0 ? ">" : "="; }
static std::string offs(const void *ret, const void *base)
{
    if (!ret)
        return "N";
    ptrdiff_t d = (const uint8_t *)ret - (const uint8_t *)base;
    return d >= 0 ? "+" + std::to_string(d) : "-" + std::to_string(-d);
}

// reference definitions for what glibc 2.36 does not ship
static size_t ref_strlcpy(char *dst, const char *src, size_t size)
{
    size_t l = strlen(src);
    if (size)
    {
        size_t k = l < size - 1 ? l : size - 1;
        memcpy(dst, src, k);
        dst[k] = 0;
    }
    return l;
}
static void ref_case(char *s, bool lower)
{
    for (; *s; s++)
    {
        unsigned char c = (unsigned char)*s;
        if (lower && c >= 'A' && c <= 'Z') *s = (char)(c + 32);
        if (!lower && c >= 'a' && c <= 'z') *s = (char)(c - 32);
    }
}

static bool has_hi(const bytes &v)
{
    for (uint8_t x : v) if (x >= 0x80) return true;
    return false;
}
static bool has_nul(const uint8_t *p, size_t n)
{
    for (size_t i = 0; i < n; i++) if (!p[i]) return true;
    return false;
}

static void run_op(const std::vector<std::string> &w, const std::string &, out &o)
{
    const std::string &fn = w[0];
    if (fn == "reset") { o.result = "ok"; return; }
    if (fn == "plat")
    {
        o.result = "long=" + std::to_string(igv_block_sz()) + " char=" + (igv_char_is_signed() ? "signed" : "unsigned");
        return;
    }
    // ---- parse
    std::vector<std::unique_ptr<Buf>> bufs;
    std::vector<bytes> cp; // oracle's copies (8 bytes of slack so data() is never null)
    std::vector<size_t> cn;
    size_t i = 1;
    for (; i < w.size() && w[i].size() >= 2 && w[i][1] == '=' && isupper((unsigned char)w[i][0]); i++)
    {
        size_t colon = w[i].find(':');
        size_t al = strtoul(w[i].c_str() + 2, 0, 10);
        bytes v = unhex(w[i].substr(colon + 1));
        bufs.emplace_back(new Buf(al, v));
        cn.push_back(v.size());
        v.resize(v.size() + 8, 0xCC);
        cp.push_back(v);
    }
    std::vector<Arg> a;
    for (; i < w.size(); i++)
    {
        const std::string &t = w[i];
        Arg x;
        size_t comma = t.find(',');
        if (t[0] == '#')
        {
            x.k = Arg::INT;
            x.u = t[1] == '-' ? (uint64_t)strtoll(t.c_str() + 1, 0, 10) : strtoull(t.c_str() + 1, 0, 10);
        }
        else if (comma != std::string::npos)
        {
            x.k = Arg::CALL;
            std::string s = t.substr(0, comma), d = t.substr(comma + 1);
            x.snul = s == "N";
            if (!x.snul) parse_ptr(s, x.b, x.off);
            parse_ptr(d, x.b2, x.off2);
        }
        else if (t == "N")
            x.k = Arg::NUL;
        else
        {
            x.k = Arg::PTR;
            if (!parse_ptr(t, x.b, x.off)) { o.result = "bad-op"; return; }
        }
        if ((x.k == Arg::PTR || (x.k == Arg::CALL && !x.snul)) && (x.b < 0 || x.b >= (int)bufs.size())) { o.result = "bad-op"; return; }
        if (x.k == Arg::CALL && (x.b2 < 0 || x.b2 >= (int)bufs.size())) { o.result = "bad-op"; return; }
        a.push_back(x);
    }
    auto P = [&](int k) { return (char *)(bufs[a[k].b]->p + a[k].off); };
    auto Q = [&](int k) { return (char *)(cp[a[k].b].data() + a[k].off); };
    auto avail = [&](int k) { return cn[a[k].b] - a[k].off; };
    auto I = [&](int k) { return (size_t)a[k].u; };
    auto C = [&](int k) { return (int)(int64_t)a[k].u; };
    auto sig = [&](const char *pat) {
        // pat: p = pointer, i = integer
        if (strlen(pat) != a.size()) return false;
        for (size_t k = 0; k < a.size(); k++)
            if ((pat[k] == 'p') != (a[k].k == Arg::PTR) || (pat[k] == 'i') != (a[k].k == Arg::INT)) return false;
        return true;
    };
    o.tag(fn.c_str());
    for (size_t k = 0; k < bufs.size(); k++)
    {
        bytes v(bufs[k]->p, bufs[k]->p + bufs[k]->n);
        if (has_hi(v)) { o.tag("highbit"); break; }
    }
    std::string ret, exp;
#define BAD() do { o.result = "bad-op"; return; } while (0)
    if (fn == "memcpy" || fn == "memmove")
    {
        if (!sig("ppi")) BAD();
        size_t n = I(2);
        uintptr_t d = (uintptr_t)P(0), s = (uintptr_t)P(1);
        if (n == 0) o.tag("n=0");
        if (n >= 32 && d % 8 == 0 && s % 8 == 0 && !(fn == "memmove" && s < d && d < s + n)) o.tag("word-path");
        if (n >= 32 && (d % 8 || s % 8)) o.tag("unaligned>=32");
        if (s < d && d < s + n) o.tag("overlap-backward");
        else if (d < s && s < d + n) o.tag("overlap-forward");
        else if (d == s && n) o.tag("overlap-same");
        void *r = fn == "memcpy" ? igv_memcpy(P(0), P(1), n) : igv_memmove(P(0), P(1), n);
        ret = offs(r, P(0));
        memmove(Q(0), Q(1), n);
        exp = "+0";
    }
    else if (fn == "memset")
    {
        if (!sig("pii")) BAD();
        if (I(2) == 0) o.tag("n=0");
        if (C(1) < 0 || C(1) > 255) o.tag("c-outside-uchar");
        ret = offs(igv_memset(P(0), C(1), I(2)), P(0));
        memset(Q(0), C(1), I(2));
        exp = "+0";
    }
    else if (fn == "memcmp")
    {
        if (!sig("ppi")) BAD();
        if (I(2) == 0) o.tag("n=0");
        int r = sgn(igv_memcmp(P(0), P(1), I(2)));
        int e = sgn(memcmp(Q(0), Q(1), I(2)));
        ret = sgs(r); exp = sgs(e);
        o.tag(e < 0 ? "lt" : e > 0 ? "gt" : "eq");
    }
    else if (fn == "memchr" || fn == "memrchr")
    {
        if (!sig("pii")) BAD();
        size_t n = I(2);
        if (n == 0) o.tag("n=0");
        if (C(1) < 0 || C(1) > 255) o.tag("c-outside-uchar");
        if (n > avail(0)) o.tag("n>object");
        void *r = fn == "memchr" ? igv_memchr(P(0), C(1), n) : igv_memrchr(P(0), C(1), n);
        size_t ne = n < avail(0) ? n : avail(0);
        void *e = fn == "memchr" ? memchr(Q(0), C(1), ne) : memrchr(Q(0), C(1), ne);
        ret = offs(r, P(0)); exp = offs(e, Q(0));
        o.tag(e ? "found" : "notfound");
    }
    else if (fn == "strlen")
    {
        if (!sig("p")) BAD();
        ret = std::to_string(igv_strlen(P(0)));
        exp = std::to_string(strlen(Q(0)));
        if (exp == "0") o.tag("empty");
    }
    else if (fn == "strnlen")
    {
        if (!sig("pi")) BAD();
        size_t n = I(1), ne = n < avail(0) ? n : avail(0);
        if (!has_nul((uint8_t *)Q(0), avail(0))) o.tag("unterminated");
        ret = std::to_string(igv_strnlen(P(0), n));
        size_t e = strnlen(Q(0), ne);
        exp = std::to_string(e);
        o.tag(n == 0 ? "n=0" : e < n ? "n>len" : "n<=len");
    }
    else if (fn == "strcpy" || fn == "strcat")
    {
        if (!sig("pp")) BAD();
        char *r = fn == "strcpy" ? igv_strcpy(P(0), P(1)) : igv_strcat(P(0), P(1));
        ret = offs(r, P(0));
        if (fn == "strcpy") strcpy(Q(0), Q(1)); else strcat(Q(0), Q(1));
        exp = "+0";
        if (*Q(1) == 0) o.tag("empty-src");
    }
    else if (fn == "strncpy" || fn == "strncat")
    {
        if (!sig("ppi")) BAD();
        size_t n = I(2);
        size_t sl = strnlen(Q(1), avail(1));
        if (sl == avail(1)) o.tag("unterminated");
        o.tag(n == 0 ? "n=0" : sl < n ? "n>len" : sl == n ? "n=len" : "n<len");
        char *r = fn == "strncpy" ? igv_strncpy(P(0), P(1), n) : igv_strncat(P(0), P(1), n);
        ret = offs(r, P(0));
        if (fn == "strncpy") strncpy(Q(0), Q(1), n); else strncat(Q(0), Q(1), n);
        exp = "+0";
    }
    else if (fn == "strlcpy")
    {
        if (!sig("ppi")) BAD();
        size_t n = I(2), sl = strlen(Q(1));
        o.tag(n == 0 ? "size=0" : sl >= n ? "truncated" : "fits");
        ret = std::to_string(igv_strlcpy(P(0), P(1), n));
        exp = std::to_string(ref_strlcpy(Q(0), Q(1), n));
    }
    else if (fn == "strcmp" || fn == "strcasecmp")
    {
        if (!sig("pp")) BAD();
        int r = sgn(fn == "strcmp" ? igv_strcmp(P(0), P(1)) : igv_strcasecmp(P(0), P(1)));
        int e = sgn(fn == "strcmp" ? strcmp(Q(0), Q(1)) : strcasecmp(Q(0), Q(1)));
        ret = sgs(r); exp = sgs(e);
        o.tag(e < 0 ? "lt" : e > 0 ? "gt" : "eq");
    }
    else if (fn == "strncmp" || fn == "strncasecmp")
    {
        if (!sig("ppi")) BAD();
        size_t n = I(2);
        if (n == 0) o.tag("n=0");
        if (!has_nul((uint8_t *)Q(0), avail(0)) || !has_nul((uint8_t *)Q(1), avail(1))) o.tag("unterminated");
        int r = sgn(fn == "strncmp" ? igv_strncmp(P(0), P(1), n) : igv_strncasecmp(P(0), P(1), n));
        int e = sgn(fn == "strncmp" ? strncmp(Q(0), Q(1), n) : strncasecmp(Q(0), Q(1), n));
        ret = sgs(r); exp = sgs(e);
        o.tag(e < 0 ? "lt" : e > 0 ? "gt" : "eq");
    }
    else if (fn == "strchr" || fn == "strrchr" || fn == "strchrnul")
    {
        if (!sig("pi")) BAD();
        int c = C(1);
        if (c < 0 || c > 255) o.tag("c-outside-uchar");
        if ((char)c == 0) o.tag("c-is-nul");
        char *r = fn == "strchr" ? igv_strchr(P(0), c) : fn == "strrchr" ? igv_strrchr(P(0), c) : igv_strchrnul(P(0), c);
        char *e = fn == "strchr" ? strchr(Q(0), c) : fn == "strrchr" ? strrchr(Q(0), c) : strchrnul(Q(0), c);
        ret = offs(r, P(0)); exp = offs(e, Q(0));
        o.tag(e && *e ? "found" : "notfound");
    }
    else if (fn == "strstr" || fn == "strcasestr" || fn == "strpbrk")
    {
        if (!sig("pp")) BAD();
        char *r = fn == "strstr" ? igv_strstr(P(0), P(1)) : fn == "strcasestr" ? igv_strcasestr(P(0), P(1)) : igv_strpbrk(P(0), P(1));
        char *e = fn == "strstr" ? strstr(Q(0), Q(1)) : fn == "strcasestr" ? strcasestr(Q(0), Q(1)) : strpbrk(Q(0), Q(1));
        ret = offs(r, P(0)); exp = offs(e, Q(0));
        o.tag(e ? "found" : "notfound");
        if (*Q(1) == 0) o.tag("empty-arg2");
    }
    else if (fn == "strspn" || fn == "strcspn")
    {
        if (!sig("pp")) BAD();
        size_t r = fn == "strspn" ? igv_strspn(P(0), P(1)) : igv_strcspn(P(0), P(1));
        size_t e = fn == "strspn" ? strspn(Q(0), Q(1)) : strcspn(Q(0), Q(1));
        ret = std::to_string(r); exp = std::to_string(e);
        o.tag(e == 0 ? "zero" : e == strlen(Q(0)) ? "whole" : "part");
        if (*Q(1) == 0) o.tag("empty-arg2");
    }
    else if (fn == "strlwr" || fn == "strupr")
    {
        if (!sig("p")) BAD();
        char *r = fn == "strlwr" ? igv_strlwr(P(0)) : igv_strupr(P(0));
        ret = offs(r, P(0));
        ref_case(Q(0), fn == "strlwr");
        exp = "+0";
    }
    else if (fn == "strdup" || fn == "strndup")
    {
        if (!(fn == "strdup" ? sig("pi") : sig("pii"))) BAD();
        g_fail = (fn == "strdup" ? I(1) : I(2)) != 0;
        g_blk = nullptr; g_blk_n = 0;
        char *r, *e;
        if (fn == "strdup")
        {
            r = igv_strdup(P(0));
            e = strdup(Q(0));
        }
        else
        {
            size_t n = I(1), ne = n < avail(0) ? n : avail(0);
            if (!has_nul((uint8_t *)Q(0), avail(0))) o.tag("unterminated");
            size_t sl = strnlen(Q(0), avail(0));
            o.tag(n == 0 ? "n=0" : sl < n ? "n>len" : sl == n ? "n=len" : "n<len");
            r = igv_strndup(P(0), n);
            e = strndup(Q(0), ne);
        }
        exp = g_fail ? "N" : hex((uint8_t *)e, strlen(e) + 1);
        if (!r) ret = "N";
        else if ((uint8_t *)r != g_blk) ret = "not-the-malloc-block";
        else ret = hex(g_blk, g_blk_n);
        if (g_fail) o.tag("malloc-fails");
        free(e);
        free(g_blk);
        g_blk = nullptr;
        g_fail = false;
    }
    else if (fn == "strtok" || fn == "strtok_r")
    {
        if (a.empty()) BAD();
        for (auto &x : a) if (x.k != Arg::CALL) BAD();
        uint8_t *base = a[0].snul ? bufs[0]->p : (uint8_t *)P(0);
        uint8_t *qbase = a[0].snul ? cp[0].data() : (uint8_t *)Q(0);
        char *save = nullptr, *qsave = nullptr;
        bool first = true;
        size_t toks = 0;
        for (size_t k = 0; k < a.size(); k++)
        {
            char *s = a[k].snul ? nullptr : P(k);
            char *d = (char *)(bufs[a[k].b2]->p + a[k].off2);
            char *qs = a[k].snul ? nullptr : Q(k);
            char *qd = (char *)(cp[a[k].b2].data() + a[k].off2);
            char *r = fn == "strtok" ? igv_strtok(s, d) : igv_strtok_r(s, d, &save);
            // glibc's strtok_r dereferences *saveptr when str == NULL
            char *e = (!qs && !qsave) ? nullptr : strtok_r(qs, qd, &qsave);
            if (!first) { ret += ","; exp += ","; }
            first = false;
            ret += offs(r, base); exp += offs(e, qbase);
            if (e) toks++;
            if (!a[k].snul && k) o.tag("restart");
        }
        o.tag(toks == 0 ? "no-token" : toks == 1 ? "one-token" : "tokens");
    }
    else
        BAD();
    // ---- result + oracle
    o.result = ret;
    for (size_t k = 0; k < bufs.size(); k++)
        o.result += " " + hex(bufs[k]->p, bufs[k]->n);
    if (ret != exp)
        o.fail(fn + " returned " + ret + ", the definition (host libc) gives " + exp);
    for (size_t k = 0; k < bufs.size(); k++)
    {
        if (memcmp(bufs[k]->p, cp[k].data(), cn[k]) != 0)
            o.fail(fn + " left buffer " + std::string(1, (char)('A' + k)) + " = " + hex(bufs[k]->p, bufs[k]->n) + ", the definition gives " + hex(cp[k].data(), cn[k]));
        if (!bufs[k]->pad_ok())
            o.fail(fn + " wrote below buffer " + std::string(1, (char)('A' + k)));
    }
}

// ---------------------------------------------------------------- gen
static const std::vector<uint8_t> SPECIAL = {0x01, 0x7f, 0x80, 0xff, 'A', 'Z', 'a', 'z', '@', '[', '`', '{', 0xC1, 0xE1, ' ', ','};

static bytes rbytes(rng &r, size_t n, bool allow_zero)
{
    bytes m(n);
    int mode = (int)r.below(4);
    for (auto &x : m)
    {
        if (mode == 0) x = r.pick(SPECIAL);
        else if (mode == 1) x = (uint8_t)('a' + r.below(3)) ^ (r.chance(30) ? 0x20 : 0);
        else x = (uint8_t)r.next();
        if (allow_zero && mode == 0 && r.chance(10)) x = 0;
        if (!allow_zero && x == 0) x = (uint8_t)(1 + r.below(255));
    }
    return m;
}
static bytes cstr(bytes v) { v.push_back(0); return v; }
static bytes cat(bytes a, const bytes &b) { a.insert(a.end(), b.begin(), b.end()); return a; }
static std::string B(char name, unsigned align, const bytes &v)
{
    return std::string(1, name) + "=" + std::to_string(align) + ":" + hex(v);
}
static std::string cint(rng &r, uint8_t b)
{
    // an `int` whose conversion to (unsigned) char is b
    switch (r.below(5))
    {
    case 0: return "#" + std::to_string((int)b);
    case 1: return "#" + std::to_string((int)(int8_t)b);
    case 2: return "#" + std::to_string((int)b + 256);
    case 3: return "#" + std::to_string((int)b - 512);
    default: return "#" + std::to_string((int)b + 256 * (int)r.range(-3, 3));
    }
}
static void E(const std::string &s) { puts(s.c_str()); }
static std::string N(uint64_t n) { return "#" + std::to_string(n); }
static std::string Pp(char b, size_t off) { return std::string(1, b) + "+" + std::to_string(off); }

// pure generation (no code under test runs here): not instrumenting it cuts the
// harness compile time from 40 s to 15 s
__attribute__((no_sanitize("address", "undefined"))) static void gen(rng &r, const std::string &tier)
{
    bool th = tier == "thorough";
    int K = th ? 6 : 1;
    E("plat");
    bytes all256(256);
    for (int i = 0; i < 256; i++) all256[i] = (uint8_t)i;
    bytes all255(all256.begin() + 1, all256.end());

    // ---- memcpy: every length 0..70 at all 8x8 alignments, exactly sized buffers
    for (int n = 0; n <= 70; n++)
        for (unsigned da = 0; da < 8; da++)
            for (unsigned sa = 0; sa < 8; sa++)
                E("memcpy " + B('A', da, bytes(n, 0xA5)) + " " + B('B', sa, rbytes(r, n, true)) + " A+0 B+0 " + N(n));
    for (unsigned al = 0; al < 8; al++)
    {
        E("memcpy " + B('A', al, bytes(256, 0)) + " " + B('B', 7 - al, all256) + " A+0 B+0 #256");
        E("memmove " + B('A', al, bytes(256, 0)) + " " + B('B', 7 - al, all256) + " A+0 B+0 #256");
    }
    for (int k = 0; k < 300 * K; k++)
    {
        // destination inside a larger buffer: the bytes around it must survive
        size_t n = r.range(0, 70), x = r.range(0, 9), y = r.range(0, 9), u = r.range(0, 9), v = r.range(0, 9);
        E(std::string(r.chance(50) ? "memcpy " : "memmove ") + B('A', r.below(8), rbytes(r, x + n + y, true)) + " " + B('B', r.below(8), rbytes(r, u + n + v, true)) + " " + Pp('A', x) + " " + Pp('B', u) + " " + N(n));
    }
    // ---- memmove inside one buffer: every overlap offset -40..40, every length
    for (int off = -40; off <= 40; off++)
        for (int n = 0; n <= 70; n++)
        {
            size_t d = off > 0 ? off : 0, s = off < 0 ? -off : 0;
            size_t size = (off < 0 ? -off : off) + n;
            for (unsigned al = 0; al < 8; al++)
            {
                // all 8 absolute alignments: dst and src are 8-aligned together
                // (memcpy's word path) only when the offset is a multiple of 8
                E("memmove " + B('A', al, rbytes(r, size, true)) + " " + Pp('A', d) + " " + Pp('A', s) + " " + N(n));
            }
        }
    // ---- the word path of memcpy (n >= 32, both pointers 8-aligned): every
    // length 32..160 (several rounds of the 4x loop, 0..3 rounds of the 1x loop,
    // every tail), disjoint buffers and overlapping ones at multiples of 8
    for (int n = 32; n <= 160; n++)
        for (unsigned al : {0u, 8u})
        {
            E("memcpy " + B('A', al, bytes(n, 0xA5)) + " " + B('B', 8 - al, rbytes(r, n, true)) + " A+0 B+0 " + N(n));
            E("memmove " + B('A', al, bytes(n, 0xA5)) + " " + B('B', al, rbytes(r, n, true)) + " A+0 B+0 " + N(n));
        }
    for (int off : {-64, -40, -32, -24, -16, -8, 8, 16, 32, 64})
        for (int n = 32; n <= 100; n++)
        {
            size_t d = off > 0 ? off : 0, s = off < 0 ? -off : 0;
            size_t size = (off < 0 ? -off : off) + n;
            E("memmove " + B('A', (n % 2) * 8, rbytes(r, size, true)) + " " + Pp('A', d) + " " + Pp('A', s) + " " + N(n));
        }
    for (int n : {0, 1, 7, 8, 9, 31, 32, 33, 40, 63, 64, 65, 70})
        for (unsigned da = 0; da < 8; da++)
            for (unsigned sa = 0; sa < 8; sa++)
                E("memmove " + B('A', da, bytes(n, 0x5A)) + " " + B('B', sa, rbytes(r, n, true)) + " A+0 B+0 " + N(n));
    // ---- memset
    for (int n = 0; n <= 70; n++)
        for (unsigned al = 0; al < 8; al++)
            for (int k = 0; k < 2; k++)
                E("memset " + B('A', al, rbytes(r, n, true)) + " A+0 " + cint(r, k ? (uint8_t)r.next() : r.pick(SPECIAL)) + " " + N(n));
    for (int c = -128; c < 512; c += (th ? 1 : 5))
        E("memset " + B('A', r.below(8), bytes(3, 0x11)) + " A+0 #" + std::to_string(c) + " #3");
    for (int k = 0; k < 200 * K; k++)
    {
        size_t n = r.range(0, 40), x = r.range(0, 9), y = r.range(0, 9);
        E("memset " + B('A', r.below(8), rbytes(r, x + n + y, true)) + " " + Pp('A', x) + " " + cint(r, (uint8_t)r.next()) + " " + N(n));
    }
    // ---- memcmp
    static const uint8_t PAIRS[][2] = {{0, 1}, {0x7f, 0x80}, {0x80, 0x7f}, {0xff, 0}, {0, 0xff}, {0xff, 0xfe}, {'a', 'A'}, {1, 0x81}};
    for (int rep = 0; rep < K; rep++)
        for (int n = 0; n <= 70; n++)
        {
            bytes x = rbytes(r, n, true);
            E("memcmp " + B('A', r.below(8), x) + " " + B('B', r.below(8), x) + " A+0 B+0 " + N(n));
            for (int k : {0, n / 2, n - 1, (int)r.range(0, n ? n - 1 : 0)})
            {
                if (k < 0 || k >= n) continue;
                bytes y = x, z = x;
                auto &pr = PAIRS[r.below(8)];
                if (r.chance(70)) { y[k] = pr[0]; z[k] = pr[1]; } else { z[k] = (uint8_t)(y[k] + 1 + r.below(255)); }
                // everything after the first difference is random
                for (int j = k + 1; j < n; j++) if (r.chance(50)) z[j] = (uint8_t)r.next();
                E("memcmp " + B('A', r.below(8), y) + " " + B('B', r.below(8), z) + " A+0 B+0 " + N(n));
            }
            // a difference just behind n must not be looked at
            bytes y = cat(x, {0x10}), z = cat(x, {0x20});
            E("memcmp " + B('A', r.below(8), y) + " " + B('B', r.below(8), z) + " A+0 B+0 " + N(n));
        }
    // ---- memchr / memrchr
    for (int rep = 0; rep < K; rep++)
        for (int n = 0; n <= 70; n++)
            for (const char *fn : {"memchr", "memrchr"})
            {
                uint8_t c = r.chance(50) ? r.pick(SPECIAL) : (uint8_t)r.next();
                bytes x = rbytes(r, n, true);
                for (auto &b : x) if (b == c) b ^= 0x55;
                E(std::string(fn) + " " + B('A', r.below(8), x) + " A+0 " + cint(r, c) + " " + N(n));
                for (int k : {0, n / 2, n - 1})
                {
                    if (k < 0 || k >= n) continue;
                    bytes y = x;
                    y[k] = c;
                    if (r.chance(40)) y[r.below(n)] = c; // a second occurrence
                    E(std::string(fn) + " " + B('A', r.below(8), y) + " A+0 " + cint(r, c) + " " + N(n));
                }
            }
    for (int k = 0; k < 200 * K; k++)
    {
        // C11 7.24.5.1: memchr stops at the first match, so n may exceed the object then
        size_t n = r.range(1, 30), at = r.below(n);
        uint8_t c = (uint8_t)r.next();
        bytes x = rbytes(r, n, true);
        for (auto &b : x) if (b == c) b ^= 0x55;
        x[at] = c;
        x.resize(at + 1);
        E("memchr " + B('A', r.below(8), x) + " A+0 " + cint(r, c) + " " + N(n + r.range(0, 100)));
    }
    // ---- strlen / strnlen
    for (int len = 0; len <= 70; len++)
        for (unsigned al = 0; al < 8; al++)
            E("strlen " + B('A', al, cstr(rbytes(r, len, false))) + " A+0");
    E("strlen " + B('A', 0, cstr(all255)) + " A+0");
    for (int k = 0; k < 100 * K; k++)
    {
        size_t len = r.range(0, 30), x = r.range(0, 9);
        E("strlen " + B('A', r.below(8), cat(rbytes(r, x, true), cstr(rbytes(r, len, false)))) + " " + Pp('A', x));
    }
    for (int rep = 0; rep < K; rep++)
        for (int len = 0; len <= 40; len++)
        {
            bytes s = rbytes(r, len, false);
            for (uint64_t n : {(uint64_t)0, (uint64_t)1, (uint64_t)(len ? len - 1 : 0), (uint64_t)len, (uint64_t)len + 1, (uint64_t)len + 9, (uint64_t)1 << 20, ~(uint64_t)0})
                E("strnlen " + B('A', r.below(8), cstr(s)) + " A+0 " + N(n));
            // not NUL-terminated: exactly n bytes exist
            E("strnlen " + B('A', r.below(8), s) + " A+0 " + N(len));
            if (len) E("strnlen " + B('A', r.below(8), s) + " A+0 " + N(len - 1));
        }
    // ---- strcpy
    for (int len = 0; len <= 70; len++)
        for (unsigned da = 0; da < 8; da++)
            for (unsigned sa = 0; sa < 8; sa++)
                if (th || len <= 12 || (da == (unsigned)(len % 8)) || (sa == (unsigned)((len / 8 + da) % 8)))
                    E("strcpy " + B('A', da, bytes(len + 1, 0xA5)) + " " + B('B', sa, cstr(rbytes(r, len, false))) + " A+0 B+0");
    E("strcpy " + B('A', 0, bytes(256, 0x11)) + " " + B('B', 0, cstr(all255)) + " A+0 B+0");
    // ---- strncpy / strlcpy
    for (int rep = 0; rep < K; rep++)
        for (int sl = 0; sl <= 20; sl++)
            for (int n = 0; n <= 24; n++)
            {
                bytes s = rbytes(r, sl, false);
                E("strncpy " + B('A', r.below(8), rbytes(r, n, true)) + " " + B('B', r.below(8), cstr(s)) + " A+0 B+0 " + N(n));
                if (sl >= n) // the source array need not be terminated when it has n characters
                    E("strncpy " + B('A', r.below(8), rbytes(r, n, true)) + " " + B('B', r.below(8), bytes(s.begin(), s.begin() + n)) + " A+0 B+0 " + N(n));
                E("strlcpy " + B('A', r.below(8), rbytes(r, n, true)) + " " + B('B', r.below(8), cstr(s)) + " A+0 B+0 " + N(n));
            }
    for (int k = 0; k < 100 * K; k++)
    {
        // destination inside a larger buffer
        size_t sl = r.range(0, 12), n = r.range(0, 16), x = r.range(1, 5), y = r.range(1, 5);
        bytes s = cstr(rbytes(r, sl, false));
        E("strncpy " + B('A', r.below(8), rbytes(r, x + n + y, true)) + " " + B('B', r.below(8), s) + " " + Pp('A', x) + " B+0 " + N(n));
        E("strlcpy " + B('A', r.below(8), rbytes(r, x + n + y, true)) + " " + B('B', r.below(8), s) + " " + Pp('A', x) + " B+0 " + N(n));
    }
    // ---- strcat / strncat
    for (int rep = 0; rep < K; rep++)
        for (int dl = 0; dl <= 12; dl++)
            for (int sl = 0; sl <= 12; sl++)
            {
                bytes d = cat(cstr(rbytes(r, dl, false)), rbytes(r, sl, true));
                E("strcat " + B('A', r.below(8), d) + " " + B('B', r.below(8), cstr(rbytes(r, sl, false))) + " A+0 B+0");
            }
    for (int rep = 0; rep < K; rep++)
        for (int dl = 0; dl <= 6; dl++)
            for (int sl = 0; sl <= 11; sl++)
                for (int n = 0; n <= 13; n++)
                {
                    int cpy = sl < n ? sl : n;
                    bytes d = cat(cstr(rbytes(r, dl, false)), rbytes(r, cpy, true));
                    bytes s = rbytes(r, sl, false);
                    if (sl >= n && r.chance(50))
                        E("strncat " + B('A', r.below(8), d) + " " + B('B', r.below(8), bytes(s.begin(), s.begin() + n)) + " A+0 B+0 " + N(n));
                    else
                        E("strncat " + B('A', r.below(8), d) + " " + B('B', r.below(8), cstr(s)) + " A+0 B+0 " + N(n));
                }
    // ---- strcmp / strncmp / strcasecmp / strncasecmp
    static const uint8_t SP[][2] = {{0x7f, 0x80}, {0x80, 0x7f}, {0xff, 0x01}, {0x01, 0xff}, {'a', 'A'}, {'Z', 'z'}, {'@', '`'}, {'[', '{'}, {0xC1, 0xE1}, {'a', 'B'}, {'B', 'a'}, {'Z', '['}, {'z', '{'}, {'A', '@'}, {'_', 'a'}, {'_', 'A'}};
    for (int rep = 0; rep < 600 * K; rep++)
    {
        size_t pl = r.range(0, 20);
        bytes p = rbytes(r, pl, false), q = p;
        bool flip = r.chance(50);
        if (flip)
            for (auto &c : q) if (isalpha(c) && r.chance(50)) c ^= 0x20;
        bytes x = p, y = q;
        int kind = (int)r.below(5);
        if (kind == 1) y = cat(y, rbytes(r, r.range(1, 4), false));       // x is a proper prefix
        else if (kind == 2) x = cat(x, rbytes(r, r.range(1, 4), false));  // y is a proper prefix
        else if (kind >= 3)
        {
            auto &pr = SP[r.below(16)];
            uint8_t u = pr[0], v = pr[1];
            if (kind == 4) { u = (uint8_t)(1 + r.below(255)); v = (uint8_t)(1 + r.below(255)); }
            x.push_back(u); y.push_back(v);
            x = cat(x, rbytes(r, r.range(0, 4), false));
            y = cat(y, rbytes(r, r.range(0, 4), false));
        }
        std::string bx = B('A', r.below(8), cstr(x)), by = B('B', r.below(8), cstr(y));
        E("strcmp " + bx + " " + by + " A+0 B+0");
        E("strcasecmp " + bx + " " + by + " A+0 B+0");
        for (uint64_t n : {(uint64_t)0, (uint64_t)pl, (uint64_t)pl + 1, (uint64_t)(pl ? pl - 1 : 0), (uint64_t)r.range(0, 30), ~(uint64_t)0})
        {
            if (!th && r.chance(40)) continue;
            E("strncmp " + bx + " " + by + " A+0 B+0 " + N(n));
            E("strncasecmp " + bx + " " + by + " A+0 B+0 " + N(n));
        }
        // arrays of exactly n characters, no terminator: decided within n, or equal on all n
        size_t n = x.size() < y.size() ? x.size() : y.size();
        bytes xa(x.begin(), x.begin() + n), ya(y.begin(), y.begin() + n);
        E("strncmp " + B('A', r.below(8), xa) + " " + B('B', r.below(8), ya) + " A+0 B+0 " + N(n));
        E("strncasecmp " + B('A', r.below(8), xa) + " " + B('B', r.below(8), ya) + " A+0 B+0 " + N(n));
    }
    // every byte against its case partner / neighbour: tolower must be the C-locale ASCII map
    for (int c = 1; c < 256; c++)
        for (int d : {c ^ 0x20, c, (c + 1) & 0xff})
        {
            if (d == 0) continue;
            bytes x = {(uint8_t)c, 0}, y = {(uint8_t)d, 0};
            E("strcasecmp " + B('A', 0, x) + " " + B('B', 0, y) + " A+0 B+0");
            E("strncasecmp " + B('A', 0, x) + " " + B('B', 0, y) + " A+0 B+0 #1");
            E("strcmp " + B('A', 0, x) + " " + B('B', 0, y) + " A+0 B+0");
            E("strcasestr " + B('A', 0, x) + " " + B('B', 0, y) + " A+0 B+0");
        }
    // ---- strchr / strrchr / strchrnul
    for (int rep = 0; rep < K; rep++)
        for (int len = 0; len <= 40; len++)
            for (const char *fn : {"strchr", "strrchr", "strchrnul"})
            {
                uint8_t c = r.chance(50) ? r.pick(SPECIAL) : (uint8_t)(1 + r.below(255));
                bytes x = rbytes(r, len, false);
                for (auto &b : x) if (b == c) b = (uint8_t)(b == 0x55 ? 0x56 : 0x55);
                std::string f(fn);
                E(f + " " + B('A', r.below(8), cstr(x)) + " A+0 " + cint(r, c));          // absent
                E(f + " " + B('A', r.below(8), cstr(x)) + " A+0 " + cint(r, 0));          // the terminator
                for (int k : {0, len / 2, len - 1})
                {
                    if (k < 0 || k >= len) continue;
                    bytes y = x;
                    y[k] = c;
                    if (r.chance(50)) y[r.below(len)] = c;
                    E(f + " " + B('A', r.below(8), cstr(y)) + " A+0 " + cint(r, c));
                }
            }
    for (int c = -300; c <= 600; c += (th ? 1 : 3))
        for (const char *fn : {"strchr", "strrchr", "strchrnul"})
            E(std::string(fn) + " " + B('A', 0, cstr({0x2c, 0xac, 0x01, 0xff, 0x2c, 0x80})) + " A+0 #" + std::to_string(c));
    // ---- strstr / strcasestr: all haystacks up to 5 and needles up to 3 over {a,b}
    auto enumerate = [&](const char *fn, const std::vector<uint8_t> &al, int hmax, int nmax) {
        std::vector<bytes> hs{{}}, ns;
        for (size_t i = 0; i < hs.size(); i++)
            if ((int)hs[i].size() < hmax)
                for (uint8_t c : al) hs.push_back(cat(hs[i], {c}));
        for (auto &h : hs) if ((int)h.size() <= nmax) ns.push_back(h);
        for (auto &h : hs)
            for (auto &n : ns)
                E(std::string(fn) + " " + B('A', 0, cstr(h)) + " " + B('B', 0, cstr(n)) + " A+0 B+0");
    };
    enumerate("strstr", {'a', 'b'}, 5, 3);
    enumerate("strcasestr", {'a', 'B', 'b'}, 4, 2);
    for (int k = 0; k < 1200 * K; k++)
    {
        size_t hl = r.range(0, 24), nl = r.range(0, 6);
        bytes h = rbytes(r, hl, false), n;
        if (hl && r.chance(60))
        {
            size_t at = r.below(hl), l = std::min(nl, hl - at);
            n = bytes(h.begin() + at, h.begin() + at + l);
            if (r.chance(30)) n.push_back((uint8_t)(1 + r.below(255))); // almost a match / runs off the end
        }
        else n = rbytes(r, nl, false);
        bytes nc = n;
        for (auto &c : nc) if (r.chance(50)) c ^= 0x20; // case partner or not a letter at all
        for (auto &c : nc) if (!c) c = 0x20;
        E("strstr " + B('A', r.below(8), cstr(h)) + " " + B('B', r.below(8), cstr(n)) + " A+0 B+0");
        E("strcasestr " + B('A', r.below(8), cstr(h)) + " " + B('B', r.below(8), cstr(nc)) + " A+0 B+0");
    }
    // ---- strspn / strcspn / strpbrk
    enumerate("strspn", {'a', 0xE1}, 4, 2);
    enumerate("strcspn", {'a', 0xE1}, 4, 2);
    enumerate("strpbrk", {'a', 0xE1}, 4, 2);
    for (int k = 0; k < 800 * K; k++)
    {
        static const std::vector<uint8_t> AL = {'a', 'b', ',', 0x80, 0xff, 0x01, 'A'};
        size_t sl = r.range(0, 20), al = r.range(0, 5);
        bytes s(sl), set(al);
        for (auto &c : set) c = r.pick(AL);
        for (auto &c : s) c = r.chance(70) ? r.pick(AL) : (uint8_t)(1 + r.below(255));
        for (const char *fn : {"strspn", "strcspn", "strpbrk"})
            E(std::string(fn) + " " + B('A', r.below(8), cstr(s)) + " " + B('B', r.below(8), cstr(set)) + " A+0 B+0");
    }
    // ---- strtok / strtok_r
    for (int k = 0; k < 1500 * K; k++)
    {
        static const std::vector<uint8_t> AL = {',', ';', 'a', 'b', ' ', 0xE1, ','};
        static const std::vector<bytes> DS = {{','}, {';'}, {',', ';'}, {}, {' ', ','}, {0xE1}, {',', ',', 'a'}};
        size_t sl = r.range(0, 16);
        bytes s(sl);
        for (auto &c : s) c = r.pick(AL);
        std::string line = std::string(r.chance(50) ? "strtok " : "strtok_r ") + B('A', r.below(8), cstr(s));
        // up to three delimiter strings
        int nd = (int)r.range(1, 3);
        for (int i = 0; i < nd; i++) line += " " + B((char)('B' + i), r.below(8), cstr(r.pick(DS)));
        int calls = (int)r.range(1, 8);
        bool reent = line[6] == '_';
        for (int i = 0; i < calls; i++)
        {
            std::string d = Pp((char)('B' + (r.chance(75) ? 0 : r.below(nd))), 0);
            if (i == 0 && (!reent || r.chance(90))) line += " A+0," + d;
            else if (r.chance(8)) line += " " + Pp('A', r.below(sl + 1)) + "," + d; // start over somewhere
            else line += " N," + d;
        }
        E(line);
    }
    // ---- strdup / strndup
    for (int rep = 0; rep < K; rep++)
        for (int len = 0; len <= 40; len++)
        {
            bytes s = rbytes(r, len, false);
            E("strdup " + B('A', r.below(8), cstr(s)) + " A+0 #0");
            if (len % 8 == 0) E("strdup " + B('A', r.below(8), cstr(s)) + " A+0 #1");
            for (uint64_t n : {(uint64_t)0, (uint64_t)(len ? len - 1 : 0), (uint64_t)len, (uint64_t)len + 1, (uint64_t)len + 20, (uint64_t)r.range(0, len)})
                E("strndup " + B('A', r.below(8), cstr(s)) + " A+0 " + N(n) + " #" + (r.chance(5) ? "1" : "0"));
            // an array of exactly n characters without terminator
            E("strndup " + B('A', r.below(8), s) + " A+0 " + N(len) + " #0");
            if (len > 2) E("strndup " + B('A', r.below(8), s) + " A+0 " + N(len - 2) + " #0");
        }
    // ---- strlwr / strupr
    E("strlwr " + B('A', 0, cstr(all255)) + " A+0");
    E("strupr " + B('A', 0, cstr(all255)) + " A+0");
    for (int k = 0; k < 300 * K; k++)
    {
        size_t len = r.range(0, 40), x = r.range(0, 3);
        bytes s = cat(rbytes(r, x, true), cat(cstr(rbytes(r, len, false)), rbytes(r, r.range(0, 3), true)));
        E(std::string(r.chance(50) ? "strlwr " : "strupr ") + B('A', r.below(8), s) + " " + Pp('A', x));
    }
}

int main(int argc, char **argv) { return main_(argc, argv, gen, run_op); }
