// C03 harness: the igris::ring<char> object (`reset tchar <n>`, `reset histt`)
#include "C03_typed.h"
static TR<char> tc;
void tc_reset(long n, hv::out &o, bool with_state)
{
    tc.t.reset(new igris::ring<char>((int)n));
    tc.q.clear();
    if (with_state) { tc.check(o); o.result = "- " + tc.state(); }
}
void tc_run(const std::vector<std::string> &w, hv::out &o) { tc.run(w, o); }
