// C16 harness, generator half (round 3b: split off harness/C16.cpp so that the two translation units compile in
// parallel; this one includes no library header).  `gen <seed> <tier>` prints the op lines described at the top of
// harness/C16.cpp.
#include "common/hv.h"
#include <string>
#include <vector>
#include <algorithm>
#include <climits>
#include <cstdint>
#include <cstdio>

typedef int64_t i64;
void c16_gen(hv::rng &r, const std::string &tier);

// ---------------------------------------------------------------------------
// generator
// ---------------------------------------------------------------------------
static void emit(const std::string &s) { puts(s.c_str()); }
static std::string S(i64 v) { return std::to_string(v); }

// the directed cases every run starts with
static void gen_directed()
{
    // widths / signedness / constants of the compiled code against what the model embeds
    emit("reset C");
    emit("consts");
    emit("premain");
    // the library's own scenario shape: two periodic timers, one stops itself
    emit("reset 2");
    emit("plan 0 0 1000");
    emit("plan 1 0 2000");
    emit("exec 1001 -");
    emit("exec 2001 -");
    emit("exec 3001 -");
    emit("unplan 0");
    emit("exec 4001 1@*:u1");
    emit("plan1 0 6001 1000");
    emit("exec 8001 -");
    // equal deadlines, FIFO among ties, catch-up across many periods
    emit("reset 3");
    emit("plan 0 0 3");
    emit("plan 1 0 3");
    emit("plan 2 1 2");
    emit("exec 10 -");
    emit("exec 12 0@*:p0.12.5");      // a callback re-plans itself
    emit("exec 13 1@*:u1;2@*:u2");    // callbacks unplan themselves
    emit("exec 40 0@0:u0,p0.40.1");
    // round 3b: the order among EQUAL deadlines is open.  Harmless ties (compared with the model): every member of the
    // tie makes the same calls on timers outside the tie (rule 1) / each member only unplans or re-plans ITSELF into the
    // future (rule 2); then a tie whose outcome depends on the order (tie-dependent: oracle only for the rest of the case)
    emit("reset 4");
    emit("plan 0 0 5");
    emit("plan 1 1 4");
    emit("plan 2 2 3");
    emit("plan 3 0 9");
    emit("exec 5 *@1:u3");                 // rule 1: whoever runs second unplans timer 3 (outside the tie)
    emit("plan 3 5 1");
    emit("exec 10 0@*:u0;1@*:p1.10.7");    // rule 2: 0 unplans itself, 1 re-plans itself into the future, 2 left alone
    emit("q 10");
    emit("plan 0 10 3");                   // deadline 13 = timer 2's
    emit("exec 13 *@0:p3.10.3");           // rule 1: the first callback plans 3 INTO the tie (deadline 13): it joins the group
    emit("exec 16 0@0:u2");                // order-dependent: does 0 run before 2?  -> tie-dependent from here on
    emit("exec 17 -");
    emit("q 17");
    // callbacks acting on other timers
    emit("reset 4");
    emit("plan 0 0 2");
    emit("plan 1 0 4");
    emit("plan 2 0 4");
    emit("plan 3 5 5");
    emit("exec 4 0@0:u1;2@*:p1.4.1,p3.0.1");
    emit("exec 4 -");
    emit("exec 11 *@2:p0.3.2");       // re-plan into the past from the third callback
    emit("q 20");
    // unplanned timers never fire, empty manager
    emit("reset 2");
    emit("exec 100 -");
    emit("plan 0 5 5");
    emit("unplan 0");
    emit("unplan 0");
    emit("exec 100 -");
    emit("plan 1 1000000000000 7");
    emit("exec 1000000000006 -");
    emit("exec 1000000000007 -");
    emit("exec 1000000000700 1@99:u1");
    emit("qmin 1000000000700");
    // recorded finding: minimal_interval() on an empty manager (each probe ends its case: ASan abort)
    emit("reset 1");
    emit("@F:C16-minimal-interval-empty qmin 5");
    emit("reset 2");
    emit("plan 0 1 1");
    emit("unplan 0");
    emit("@F:C16-minimal-interval-empty qmin 0");
}

static std::string gen_rules(hv::rng &r, int n, i64 now, const std::vector<i64> &ivs)
{
    if (r.chance(45)) return "-";
    std::string s;
    int nr = (int)r.range(1, 3);
    for (int q = 0; q < nr; q++)
    {
        bool anyk = r.chance(55);
        std::string sel = (r.chance(25) ? std::string("*") : S(r.below(n))) + "@" + (anyk ? std::string("*") : S(r.below(4)));
        std::string acts;
        int na = (int)r.range(1, 2);
        for (int a = 0; a < na; a++)
        {
            if (!acts.empty()) acts += ",";
            int j = (int)r.below(n);
            if (r.chance(35)) acts += "u" + S(j);
            else
            {
                i64 iv = r.pick(ivs);
                i64 st;
                if (!anyk && r.chance(40)) st = now - iv - (i64)r.below(7); // into the past: only from a single callback
                else st = now - iv + 1 + (i64)r.below(6);                    // deadline strictly after now
                acts += "p" + S(j) + "." + S(st) + "." + S(iv);
            }
        }
        if (!s.empty()) s += ";";
        s += sel + ":" + acts;
    }
    return s;
}

static void gen_random_case(hv::rng &r, bool big)
{
    int n = (int)r.range(1, 6);
    emit("reset " + S(n));
    static const std::vector<i64> bases = {0, 0, 0, 1000000000000LL, -1000, 4611686018427387LL};
    i64 base = big ? r.pick(bases) : 0;
    std::vector<i64> ivs = {1, 1, 2, 2, 3, 5, 7, 10, 100};
    std::vector<i64> steps = {0, 0, 1, 1, 2, 2, 3, 7, 7, 50, 1000};
    if (!big) { ivs = {1, 2, 3, 5}; steps = {0, 1, 2, 7}; }
    i64 now = base;
    std::vector<i64> lastfin(n, base);
    int len = (int)r.range(4, 28);
    for (int q = 0; q < len; q++)
    {
        unsigned c = (unsigned)r.below(100);
        if (c < 38 || q < 2)
        {
            int i = (int)r.below(n);
            i64 iv = r.pick(ivs);
            i64 st;
            unsigned m = (unsigned)r.below(100);
            if (m < 40) st = now + r.range(-3, 3);
            else if (m < 65) st = lastfin[r.below(n)] - iv; // same deadline as another timer
            else if (m < 80) st = now;
            else st = now - (i64)r.below(40);
            lastfin[i] = st + iv;
            emit(std::string(r.chance(12) ? "plan1 " : "plan ") + S(i) + " " + S(st) + " " + S(iv));
        }
        else if (c < 50) emit("unplan " + S(r.below(n)));
        else if (c < 94)
        {
            now += r.pick(steps);
            emit("exec " + S(now) + " " + gen_rules(r, n, now, ivs));
        }
        else emit("q " + S(now + r.range(0, 3)));
    }
}

// 3 timers, starts/intervals from {1,2,3,5} (or unplanned), steps from {0,1,2,7}
static void gen_exhaustive_configs(hv::rng &r, bool thorough)
{
    static const i64 V[4] = {1, 2, 3, 5};
    static const i64 ST[4] = {0, 1, 2, 7};
    for (int c0 = 0; c0 < 17; c0++)
        for (int c1 = 0; c1 < 17; c1++)
            for (int c2 = 0; c2 < 17; c2++)
            {
                int cs[3] = {c0, c1, c2};
                int nseq = thorough ? 16 : 1;
                for (int sq = 0; sq < nseq; sq++)
                {
                    emit("reset 3");
                    for (int i = 0; i < 3; i++)
                        if (cs[i] < 16) emit("plan " + S(i) + " " + S(V[cs[i] / 4]) + " " + S(V[cs[i] % 4]));
                    i64 now = 0;
                    int a = thorough ? sq / 4 : (int)r.below(4), b = thorough ? sq % 4 : (int)r.below(4);
                    // first exec somewhere in 1..8 so that some timers are due and some not
                    now = 1 + ST[a];
                    emit("exec " + S(now) + " -");
                    now += ST[b];
                    emit("exec " + S(now) + " -");
                    now += ST[(a + b + sq) % 4] + (thorough ? 0 : (i64)r.below(2) * 7);
                    emit("exec " + S(now) + " -");
                }
            }
}

// every pair of callback scripts for timers 0 and 1 over small configurations
static void gen_exhaustive_callbacks(hv::rng &r, bool thorough)
{
    static const i64 V[3] = {1, 2, 3};
    static const i64 NOWS[3] = {2, 3, 7};
    int nv = thorough ? 3 : 2;
    for (int c = 0; c < nv * nv * nv * nv; c++)
    {
        i64 s0 = V[c % nv], i0 = V[c / nv % nv], s1 = V[c / nv / nv % nv], i1 = V[c / nv / nv / nv % nv];
        for (int ni = 0; ni < 3; ni++)
        {
            i64 now = NOWS[ni];
            // scripts for the callback of timer x acting on itself / on y / on timer 2 at time t
            auto scripts = [&](int x, int y, i64 t) {
                std::vector<std::string> v;
                std::string X = S(x), Y = S(y);
                v.push_back("");
                v.push_back(X + "@*:u" + X);
                v.push_back(X + "@*:u" + Y);
                v.push_back(X + "@*:p" + X + "." + S(t) + ".1");
                v.push_back(X + "@*:p" + X + "." + S(t - 1) + ".3");
                v.push_back(X + "@*:p" + Y + "." + S(t) + ".2");
                v.push_back(X + "@*:p2." + S(t - 1) + ".2");
                v.push_back(X + "@*:u" + X + ",p" + X + "." + S(t) + ".2");
                v.push_back(X + "@*:p" + X + "." + S(t) + ".2,u" + X);
                v.push_back("*@1:p" + X + "." + S(t - 2) + ".1"); // second callback re-plans x into the past
                v.push_back("*@0:p" + Y + ".0.1");                  // first callback plans y far into the past
                v.push_back(X + "@0:p" + X + "." + S(s0) + "." + S(i0)); // re-plan with (possibly) identical values
                return v;
            };
            auto join = [](const std::string &a, const std::string &b) {
                std::string rs = a;
                if (!b.empty()) rs += (rs.empty() ? "" : ";") + b;
                return rs.empty() ? std::string("-") : rs;
            };
            auto A = scripts(0, 1, now), B = scripts(1, 0, now);
            auto A2 = scripts(0, 1, now + 7), B2 = scripts(1, 0, now + 7);
            for (size_t a = 0; a < A.size(); a++)
                for (size_t b = 0; b < B.size(); b++)
                {
                    if (!thorough && !r.chance(50)) continue;
                    emit("reset 3");
                    emit("plan 0 " + S(s0) + " " + S(i0));
                    emit("plan 1 " + S(s1) + " " + S(i1));
                    emit("plan 2 1 5");
                    emit("exec " + S(now) + " " + join(A[a], B[b]));
                    emit("exec " + S(now + 1) + " -");
                    emit("exec " + S(now + 7) + " " + join(A2[a], B2[b]));
                }
        }
    }
}

static void gen_stimer(hv::rng &r, int cases)
{
    static const std::vector<i64> vals = {0, 1, 2, 3, 5, 7, 10, 100, -1, -5, 1000000000000LL, -1000000000000LL, 4611686018427387LL};
    for (int c = 0; c < cases; c++)
    {
        emit("reset s");
        i64 now = r.pick(vals);
        i64 st = 0, ivl = 0; // what the generator believes the timer holds (only to aim at the boundary)
        int len = (int)r.range(4, 14);
        for (int q = 0; q < len; q++)
        {
            unsigned m = (unsigned)r.below(100);
            i64 iv = r.pick(vals);
            if (iv <= 0) iv = 1 + (i64)r.below(9);
            if (m < 15) { st = now + r.range(-3, 3); ivl = iv; emit("splan " + S(st) + " " + S(iv)); }
            else if (m < 22) { st = now + r.range(-3, 3); ivl = iv; emit("sinit " + S(st) + " " + S(iv)); }
            else if (m < 30) { st = now + r.range(-3, 3); emit("sstart " + S(st)); }
            else if (m < 36) { st += ivl; emit("sswift"); }
            else if (m < 44) emit("sfinish");
            else
            {
                // half of the polls aim at deadline-1 / deadline / deadline+1 (time stays non-decreasing)
                i64 t = now + r.range(0, 4) * (r.chance(20) ? 5 : 1);
                if (r.chance(50) && st + ivl + 1 >= now) t = std::max(now, st + ivl + r.range(-1, 1));
                now = t;
                if (m < 70) emit("scheck " + S(now));
                else { emit("speriodic " + S(now)); if (now >= st + ivl) st += ivl; }
            }
        }
    }
}

// ---------------------------------------------------------------------------
// extensions: the unsigned 32-bit manager across the wrap, setters / plan(tim) / destruction /
// nested exec, unarmed delegate, stimer across LONG_MAX
// ---------------------------------------------------------------------------
static const i64 P32 = 4294967296LL, P31 = 2147483648LL, P30 = 1073741824LL;

static void gen_wrap_directed()
{
    // a deadline before the wrap and one after it: the one before must run first and on time
    emit("reset u 3");
    emit("plan 0 4294967264 16");   // deadline 2^32 - 16
    emit("plan 1 4294967264 37");   // deadline 2^32 + 5
    emit("exec 4294967272 -");
    emit("exec 4294967282 -");
    emit("exec 4294967295 -");
    emit("exec 4294967296 -");
    emit("exec 4294967301 -");
    emit("exec 4294967340 -");
    // periodic timers running through the wrap with a long gap, ties exactly at 2^32
    emit("reset u 3");
    emit("plan 0 4294967196 100");  // deadline 2^32
    emit("plan 1 4294967286 10");   // deadline 2^32
    emit("plan 2 4294967290 3");
    emit("exec 4294967294 -");
    emit("exec 4294967296 -");
    emit("exec 4294967297 2@*:p2.4294967297.7");
    emit("exec 4294967500 0@0:u1");
    emit("q 4294967500");
    // second and third wrap, planning from a callback across the wrap
    emit("reset u 2");
    emit("plan 0 8589934580 5");
    emit("exec 8589934590 0@1:p1.8589934589.9");
    emit("exec 8589934600 -");
    emit("reset u 2");
    emit("plan 0 12884901870 5");
    emit("exec 12884901879 -");
    emit("plan 1 12884901880 1000");
    emit("exec 12884901888 -");
    emit("exec 12884902900 -");
    // half-range boundary of the signed difference: deadlines 2^30 + 2^30 - 2 apart are still ordered
    emit("reset u 2");
    emit("plan 0 1073741824 1073741823");
    emit("plan 1 1073741823 1073741820");
    emit("exec 1073741825 -");
    emit("exec 2147483643 -");
    emit("exec 2147483646 -");
    emit("exec 2147483647 -");
    emit("exec 2147483648 -");
}

static std::string gen_rules_wrap(hv::rng &r, int n, i64 now, const std::vector<i64> &ivs)
{
    if (r.chance(50)) return "-";
    std::string s;
    int nr = (int)r.range(1, 2);
    for (int q = 0; q < nr; q++)
    {
        bool anyk = r.chance(55);
        std::string sel = (r.chance(25) ? std::string("*") : S(r.below(n))) + "@" + (anyk ? std::string("*") : S(r.below(4)));
        std::string acts;
        int na = (int)r.range(1, 2);
        for (int a = 0; a < na; a++)
        {
            if (!acts.empty()) acts += ",";
            int j = (int)r.below(n);
            if (r.chance(35)) acts += "u" + S(j);
            else
            {
                i64 iv = r.pick(ivs);
                i64 st;
                if (!anyk && r.chance(40)) st = now - iv - (i64)r.below(7); // deadline in [now-6, now]: only from a single callback
                else st = now - (i64)r.below(std::min<i64>(iv, 6));          // start <= now, deadline after now
                acts += "p" + S(j) + "." + S(st) + "." + S(iv);
            }
        }
        if (!s.empty()) s += ";";
        s += sel + ":" + acts;
    }
    return s;
}

// histories that respect the window precondition: starts <= the clock, every deadline >= the time of the
// previous exec, (gap between execs) + (interval) < 2^31
static void gen_wrap_case_m(hv::rng &r, const std::string &mode, const std::string &suffix, const std::vector<i64> &bases);
static void gen_wrap_case(hv::rng &r)
{
    static const std::vector<i64> bases = {P32 - 40, P32 - 40, P32 - 1000, 3 * P32 - 25, P31 - 30, P32 - P30, 2 * P32 - P30 - 500, 0};
    gen_wrap_case_m(r, "u", "", bases);
}
static void gen_wrap_case_m(hv::rng &r, const std::string &mode, const std::string &suffix, const std::vector<i64> &bases)
{
    int n = (int)r.range(1, 5);
    emit("reset " + mode + " " + S(n) + suffix);
    // a case has either small intervals and small steps, or large intervals and steps of up to a quarter of
    // the range (a large step over a small interval would mean 10^9 callbacks)
    bool bigiv = r.chance(35);
    std::vector<i64> ivs = {1, 2, 3, 5, 7, 10, 100};
    std::vector<i64> steps = {0, 1, 1, 2, 3, 7, 7, 50, 1000};
    if (bigiv)
    {
        ivs = {P30 - 1, P30 / 2 + 12345, P30 / 4, P30 / 4 + 1, 300000000};
        steps = {0, 1, 7, 1000, P30 / 4, P30 / 2, P30 - 3, P30, 300000000};
    }
    i64 now = r.pick(bases) + r.range(0, 30);
    i64 lo = now; // time of the previous exec (or of the creation)
    std::vector<i64> lastfin(n, now);
    int len = (int)r.range(4, 24);
    for (int q = 0; q < len; q++)
    {
        unsigned c = (unsigned)r.below(100);
        if (c < 36 || q < 2)
        {
            int i = (int)r.below(n);
            i64 iv = r.pick(ivs);
            // the clock may have advanced a little since the previous exec
            if (r.chance(30)) now += (i64)r.below(4);
            i64 st;
            unsigned m = (unsigned)r.below(100);
            if (m < 45) st = now - (i64)r.below(std::min<i64>(iv, 4));
            else if (m < 70) st = lastfin[r.below(n)] - iv; // same deadline as another timer
            else st = now;
            if (st > now) st = now;
            if (st + iv < lo) st = lo - iv + (i64)r.below(3);
            if (st > now) st = now;
            lastfin[i] = st + iv;
            emit(std::string(r.chance(12) ? "plan1 " : "plan ") + S(i) + " " + S(st) + " " + S(iv));
        }
        else if (c < 46) emit("unplan " + S(r.below(n)));
        else if (c < 94)
        {
            i64 step = r.pick(steps);
            if (now + step - lo > P30) step = 0;
            now += step;
            lo = now;
            emit("exec " + S(now) + " " + gen_rules_wrap(r, n, now, ivs));
        }
        else emit("q " + S(now));
    }
}

// histories OUTSIDE the precondition (model comparison only): gaps / intervals of half the range and more,
// starts in the future.  Intervals are never 0 modulo 2^32 and a timer whose start lies in the future gets a
// large interval (an unsigned `check` sees a future start as "almost 2^32 ticks ago": it fires at once and
// keeps firing until start has caught up).
static void gen_wrap_outside_case_m(hv::rng &r, const std::string &mode);
static void gen_wrap_outside_case(hv::rng &r) { gen_wrap_outside_case_m(r, "U"); }
static void gen_wrap_outside_case_m(hv::rng &r, const std::string &mode)
{
    int n = (int)r.range(1, 4);
    emit("reset " + mode + " " + S(n));
    bool small = r.chance(20);
    std::vector<i64> ivs = {P31 - 1, P31, P31 + 1, P32 - 1, P30, 3 * P30, P32 + P30 + 5, P32 - 2};
    if (small) ivs = {7, 100, P32 + 5, P32 - 1, P31};
    std::vector<i64> steps = {0, 1, 7, P31 - 2, P31, P31 + 7, P32 - 1, P32, P32 + 3, P30};
    i64 now = r.pick(std::vector<i64>{0, P32 - 40, P31 - 5, 5 * P32 - 3}) + r.range(0, 9);
    int len = (int)r.range(3, 14);
    for (int q = 0; q < len; q++)
    {
        unsigned c = (unsigned)r.below(100);
        if (c < 45 || q < 2)
        {
            i64 iv = r.pick(ivs);
            i64 st = now - (i64)r.below(5);
            if (r.chance(25)) { st = now + 1 + (i64)r.below(50); if (iv % P32 < P30) iv = P30 + (i64)r.below(1000); }
            // a signed instance reads an interval >= 2^31 as negative: always due, exec would never return
            if ((mode == "I" || mode == "V") && (iv % P32 >= P31 || iv % P32 == 0)) iv = P30 + iv % P30;
            emit("plan " + S(r.below(n)) + " " + S(st) + " " + S(iv));
        }
        else if (c < 52) emit("unplan " + S(r.below(n)));
        else
        {
            // (a small interval with a step of half the range would mean 10^8 callbacks: small intervals are
            // only planned in cases whose steps are small)
            now += small ? r.pick(std::vector<i64>{0, 1, 7, 300}) : r.pick(steps);
            emit("exec " + S(now) + " -");
        }
    }
}

// the two-timer witness scenarios of the Lean theorems as cases of the stream
static void gen_wrap_outside_directed()
{
    // gap < 2^31 and interval < 2^31 is NOT enough: 2^31 - 2 after the last exec a timer with interval
    // 2^31 - 1 is planned while timer 0 is overdue; the signed difference of the deadlines wraps
    emit("reset U 2");
    emit("plan 0 0 5");
    emit("plan 1 2147483646 2147483647");
    emit("q 2147483646");
    // a start in the future is read as a start almost 2^32 ticks ago: fires at once
    emit("reset U 1");
    emit("plan 0 110 1073741824");
    emit("exec 100 -");
}

// setters, plan(tim), destruction, nested exec; int64 manager
// hasiv[j]: timer j is known to hold a positive interval (plan(tim) of a timer with interval 0 - a fresh or a
// destroyed one - would make exec spin forever: outside "positive intervals")
static std::string gen_rules_ext(hv::rng &r, int n, i64 now, const std::vector<i64> &ivs, bool &nested, std::vector<bool> &hasiv)
{
    std::vector<bool> destroyed(n, false);
    bool later = false; // a nested exec with a LATER time is in the rules: no rule may then repeat for every callback
                        // (a plan "after now" repeated by every callback can lie before the nested time: endless loop)
    std::string s;
    int nr = (int)r.range(1, 3);
    for (int q = 0; q < nr; q++)
    {
        int id = (int)r.below(n);
        int k = (int)r.below(4);
        bool anyk = r.chance(40);
        std::string acts;
        unsigned m = (unsigned)r.below(100);
        int j = (int)r.below(n);
        if (n > 1 && j == id && r.chance(50)) j = (j + 1) % n;
        i64 iv = r.pick(ivs);
        if (later) anyk = false;
        if (m < 46) anyk = false; // a setter / plan(tim) repeated by EVERY callback can pin a deadline in the past: exec would never return
        if (m < 14) acts = "s" + S(j) + "." + S(now - (i64)r.below(5));
        else if (m < 26) acts = "i" + S(j) + "." + S(iv);
        else if (m < 38) acts = "u" + S(j) + ",s" + S(j) + "." + S(now - (i64)r.below(3)) + ",i" + S(j) + "." + S(iv) + ",r" + S(j); // the legal way
        else if (m < 46) acts = (hasiv[j] && !destroyed[j]) ? "r" + S(j) : "u" + S(j);
        else if (m < 62)
        {
            if (j == id) j = (j + 1) % n;
            if (j == id) acts = "u" + S(id);
            else if (nested) acts = "u" + S(j); // (a nested callback could be destroying the outer callback's timer)
            else
            {
                // destroy ANOTHER timer (pending or not, possibly the next one); no plan(tim) of it in this exec
                acts = "d" + S(j);
                destroyed[j] = true;
                size_t pos;
                while ((pos = s.find("r" + S(j))) != std::string::npos) s[pos] = 'u';
            }
        }
        else if (m < 82 && !nested && s.find(":d") == std::string::npos)
        {
            // nested exec after the callback took its own timer out of the way (unplanned, or re-planned into the future)
            nested = true;
            anyk = false;
            i64 now2 = now + (r.chance(50) ? 0 : (i64)r.below(9)) - (r.chance(15) ? 3 : 0);
            if (now2 > now)
            {
                if (s.find("@*") != std::string::npos) now2 = now;
                else later = true;
            }
            if (r.chance(50)) acts = "u" + S(id) + ",x" + S(now2);
            else acts = "p" + S(id) + "." + S(std::max(now, now2)) + "." + S(iv) + ",x" + S(now2);
        }
        else acts = "p" + S(j) + "." + S(now - (i64)r.below(std::min<i64>(iv, 3))) + "." + S(iv);
        if (!s.empty()) s += ";";
        s += S(id) + "@" + (anyk ? std::string("*") : S(k)) + ":" + acts;
    }
    for (int j = 0; j < n; j++)
        if (destroyed[j]) hasiv[j] = false;
    return s;
}

static void gen_ext_case(hv::rng &r)
{
    int n = (int)r.range(2, 5);
    emit("reset " + S(n));
    std::vector<i64> ivs = {1, 2, 3, 5, 7, 10};
    std::vector<i64> steps = {0, 1, 1, 2, 3, 7, 20};
    i64 now = r.chance(50) ? 0 : 1000;
    int len = (int)r.range(5, 24);
    std::vector<bool> hasiv(n, false);
    for (int q = 0; q < len; q++)
    {
        unsigned c = (unsigned)r.below(100);
        int i = (int)r.below(n);
        if (c < 25 || q < 2) { emit("plan " + S(i) + " " + S(now - (i64)r.below(3)) + " " + S(r.pick(ivs))); hasiv[i] = true; }
        else if (c < 31) emit("unplan " + S(i));
        else if (c < 38) emit("sets " + S(i) + " " + S(now + r.range(-4, 2)));
        else if (c < 44) { emit("seti " + S(i) + " " + S(r.pick(ivs))); hasiv[i] = true; }
        else if (c < 52) emit((hasiv[i] ? "replan " : "unplan ") + S(i));
        else if (c < 57) { emit("destroy " + S(i)); hasiv[i] = false; }
        else if (c < 60) emit("dropmgr");
        else if (c < 95)
        {
            now += r.pick(steps);
            bool nested = false;
            emit("exec " + S(now) + " " + (r.chance(30) ? std::string("-") : gen_rules_ext(r, n, now, ivs, nested, hasiv)));
        }
        else emit("q " + S(now));
    }
}

static void gen_ext_directed()
{
    // set_start / set_interval on a planned timer: the list is no longer sorted, a due timer waits behind a later one
    emit("reset 3");
    emit("plan 0 0 5");
    emit("plan 1 0 7");
    emit("sets 0 10");         // timer 0 now has deadline 15 but is still in front
    emit("exec 8 -");          // timer 1 (deadline 7) is due and does not run
    emit("replan 0");          // plan(tim) puts it where it belongs
    emit("exec 8 -");
    emit("seti 1 1");
    emit("exec 30 -");
    // the legal sequence: unplan, set, set, plan(tim)
    emit("reset 2");
    emit("plan 0 0 5");
    emit("plan 1 0 6");
    emit("unplan 0");
    emit("sets 0 3");
    emit("seti 0 2");
    emit("replan 0");
    emit("exec 5 -");
    emit("exec 6 1@*:u0,s0.6,i0.1,r0");
    emit("exec 9 -");
    // destroying timers from callbacks: an unplanned one, a pending one, the NEXT one in the list
    emit("reset 4");
    emit("plan 0 0 5");
    emit("plan 1 0 5");
    emit("plan 2 0 6");
    emit("exec 5 0@0:d1");     // timer 1 is the next in the list when timer 0's callback destroys it
    emit("exec 6 2@*:d3");     // an unplanned one
    emit("plan 3 6 4");
    emit("exec 10 0@*:d3,d2"); // two pending ones
    emit("destroy 0");
    emit("exec 20 -");
    // destroying the manager with planned timers, and again when it is empty
    emit("reset 3");
    emit("plan 0 0 5");
    emit("plan 1 0 6");
    emit("dropmgr");
    emit("exec 10 -");
    emit("plan 1 10 1");
    emit("exec 11 -");
    emit("dropmgr");
    emit("dropmgr");
    emit("q 11");
    // nested exec from a callback that has unplanned / re-planned its own timer
    emit("reset 3");
    emit("plan 0 0 5");
    emit("plan 1 0 5");
    emit("plan 2 0 8");
    emit("exec 5 0@0:u0,x5");
    emit("exec 8 2@0:p2.8.8,x9;1@*:p0.8.1");
    emit("exec 20 1@0:p1.20.5,x3");   // nested exec with an EARLIER time: nothing is due for it
    emit("exec 30 -");
    // planning from a callback with deadlines before / at / after now; minimal_interval after each
    emit("reset 3");
    emit("plan 0 0 5");
    emit("exec 5 0@0:p1.0.3");   // before now: runs in this exec
    emit("exec 10 0@0:p2.5.5");  // at now: runs in this exec
    emit("exec 15 0@0:p1.15.1"); // after now
    emit("exec 16 -");
    // (round 3b) a callback changes its OWN timer's interval / start with the setters and relies on exec to sort it in
    // again (no equal deadlines anywhere: the seeded change C16-exec-no-resort-after-setter without help from tie order)
    emit("reset 2");
    emit("plan 0 0 2");
    emit("plan 1 0 5");
    emit("exec 4 0@0:i0.10");   // timer 0: deadline 2 -> 10, behind timer 1 (deadline 5)
    emit("exec 5 -");           // timer 1 is due and must run
    emit("exec 9 1@0:s1.7");    // (nothing due) 
    emit("exec 10 0@0:s0.8");   // timer 0 runs at 10, moves itself to 18; timer 1 (deadline 10) runs in this exec
    emit("exec 12 -");
    // recorded findings (each probe ends its case)
    emit("reset 2");
    emit("plan 0 0 5");
    emit("plan 1 0 6");
    emit("@F:C16-nested-exec-refires exec 5 0@0:x5");
    emit("reset 2");
    emit("plan 0 0 5");
    emit("plan 1 0 5");
    emit("@F:C16-destroy-self-in-callback exec 5 0@0:d0");
    // (round 3b) the same probe without a tie: with equal deadlines an implementation is free to run timer 1 first
    emit("reset 2");
    emit("plan 0 0 5");
    emit("plan 1 0 6");
    emit("@F:C16-destroy-self-in-callback exec 5 0@0:d0");
}

static void gen_unarmed_case(hv::rng &r)
{
    int n = (int)r.range(2, 4);
    emit("reset z " + S(n));
    std::vector<i64> ivs = {1, 2, 3, 5, 7};
    i64 now = 0;
    int len = (int)r.range(4, 14);
    for (int q = 0; q < len; q++)
    {
        unsigned c = (unsigned)r.below(100);
        int i = (q == 0) ? n - 1 : (int)r.below(n);
        if (c < 40 || q < 2) emit("plan " + S(i) + " " + S(now - (i64)r.below(2)) + " " + S(r.pick(ivs)));
        else if (c < 48) emit("unplan " + S(i));
        else
        {
            now += r.pick(std::vector<i64>{0, 1, 2, 5, 12});
            std::string rules = "-";
            if (r.chance(40))
            {
                int j = (int)r.below(n);
                rules = (r.chance(50) ? std::string("*") : S(r.below(n))) + "@*:" + (r.chance(50) ? "u" + S(j) : "p" + S(j) + "." + S(now) + "." + S(r.pick(ivs)));
            }
            emit("exec " + S(now) + " " + rules);
        }
    }
}

// stimer with the tick counter running through LONG_MAX (and through 2^64)
static std::string BIG(__int128 v)
{
    if (v == 0) return "0";
    bool neg = v < 0;
    if (neg) v = -v;
    std::string s;
    while (v > 0) { s.insert(s.begin(), (char)('0' + (int)(v % 10))); v /= 10; }
    return neg ? "-" + s : s;
}
static void gen_stimer_wide_directed()
{
    emit("reset S");
    emit("splan 9223372036854775802 10");  // start LONG_MAX - 5, deadline beyond LONG_MAX
    emit("scheck 9223372036854775806");
    emit("sfinish");
    emit("scheck 9223372036854775811");
    emit("scheck 9223372036854775812");
    emit("speriodic 9223372036854775813");
    emit("speriodic 9223372036854775813");
    emit("speriodic 9223372036854775840");
    emit("speriodic 9223372036854775840");
    emit("sswift");
    emit("sfinish");
}
static void gen_stimer_wide(hv::rng &r, int cases)
{
    const __int128 P63 = (__int128)1 << 63, P64 = (__int128)1 << 64;
    for (int c = 0; c < cases; c++)
    {
        emit("reset S");
        __int128 base = r.pick(std::vector<__int128>{P63 - 20, P63 - 1000, P64 - 15, P64 + P63 - 9, 0, 3 * P64 - 100});
        __int128 now = base + (i64)r.below(20);
        __int128 st = 0, ivl = 0;
        int len = (int)r.range(4, 16);
        for (int q = 0; q < len; q++)
        {
            unsigned m = (unsigned)r.below(100);
            i64 iv = r.pick(std::vector<i64>{1, 2, 3, 7, 10, 25, 100, 1000000, 4611686018427387000LL});
            if (m < 18 || q == 0) { st = now - (i64)r.below(4); ivl = iv; emit("splan " + BIG(st) + " " + S(iv)); }
            else if (m < 22) { st = now - (i64)r.below(4); ivl = iv; emit("sinit " + BIG(st) + " " + S(iv)); }
            else if (m < 28) { st = now - (i64)r.below(4); emit("sstart " + BIG(st)); }
            else if (m < 33) { st += ivl; emit("sswift"); }
            else if (m < 40) emit("sfinish");
            else
            {
                __int128 t = now + (i64)r.range(0, 4) * (r.chance(20) ? 9 : 1);
                if (r.chance(50) && st + ivl + 1 >= now) t = std::max(now, st + ivl + (i64)r.range(-1, 1));
                // stay inside the window: the start is at most 2^62 behind
                if (t - st > ((__int128)1 << 62)) t = now;
                now = t;
                if (m < 65) emit("scheck " + BIG(now));
                else { emit("speriodic " + BIG(now)); if (now >= st + ivl) st += ivl; }
            }
        }
    }
}


// ---------------------------------------------------------------------------
// round 3: stimer on raw `long` values (reset T) - every combination of
//   interval {0, 1, 2, 250, LONG_MAX-1, LONG_MAX, LONG_MIN, -1} x start {0, 5250, near 2^63, near 2^64 (= -1 as long)}
//   x curtime {start-250, start-2, start-1, start, start+1, deadline-1, deadline, deadline+1, half the range away, ...}
// all computed modulo 2^64.  A start point AHEAD of the clock with a huge "never" interval is the shape the
// seeded change C16-stimer-check-via-finish needs.
// ---------------------------------------------------------------------------
static long wadd(long a, long b) { return (long)((unsigned long)a + (unsigned long)b); }
static void gen_stimer_long(hv::rng &r, bool th)
{
    static const std::vector<long> ivs = {0, 1, 2, 250, LONG_MAX - 1, LONG_MAX, LONG_MIN, -1, LONG_MIN + 1, 1000};
    static const std::vector<long> starts = {0, 5250, LONG_MAX - 3, LONG_MAX, LONG_MIN, LONG_MIN + 5, -1, -3, -250};
    static const std::vector<long> offs = {-250, -2, -1, 0, 1, 2, 250, LONG_MAX, LONG_MIN, LONG_MAX - 1, LONG_MIN + 1};
    // the parked flag timer of the seeded change, first
    emit("reset T");
    emit("splan 5250 " + S(LONG_MAX));
    emit("scheck 5000");
    emit("scheck 5248");
    emit("scheck 5249");
    emit("scheck 5250");
    emit("speriodic 5000");
    emit("sfinish");
    for (long iv : ivs)
        for (long st : starts)
        {
            emit("reset T");
            emit("splan " + S(st) + " " + S(iv));
            emit("sfinish");
            long dl = wadd(st, iv);
            for (long o : offs) emit("scheck " + S(wadd(st, o)));
            for (long o : {-1L, 0L, 1L}) emit("scheck " + S(wadd(dl, o)));
            // one object, parameters changed between the calls
            emit("speriodic " + S(wadd(st, -2)));
            emit("speriodic " + S(wadd(dl, -1)));
            emit("speriodic " + S(dl));
            emit("speriodic " + S(dl));
            emit("speriodic " + S(wadd(dl, iv)));
            emit("sstart " + S(wadd(st, 7)));
            emit("scheck " + S(wadd(st, 6)));
            emit("scheck " + S(wadd(wadd(st, 7), iv)));
            emit("sswift");
            emit("sfinish");
            emit("sinit " + S(st) + " " + S(iv));
            emit("scheck " + S(dl));
        }
    int cases = th ? 4000 : 300;
    for (int c = 0; c < cases; c++)
    {
        emit("reset T");
        long st = wadd(r.pick(starts), r.range(-5, 5));
        long iv = r.chance(50) ? r.pick(ivs) : (long)r.range(1, 40);
        emit("splan " + S(st) + " " + S(iv));
        int len = (int)r.range(3, 10);
        long now = wadd(st, r.range(-260, 5));
        for (int q = 0; q < len; q++)
        {
            unsigned m = (unsigned)r.below(100);
            if (m < 10) { st = wadd(now, r.range(-3, 260)); iv = r.chance(50) ? r.pick(ivs) : (long)r.range(1, 40); emit("splan " + S(st) + " " + S(iv)); }
            else if (m < 16) { st = wadd(now, r.range(-3, 3)); emit("sstart " + S(st)); }
            else if (m < 22) { st = wadd(st, iv); emit("sswift"); }
            else if (m < 28) emit("sfinish");
            else
            {
                now = r.chance(40) ? wadd(wadd(st, iv), r.range(-1, 1)) : wadd(now, r.range(0, 300));
                if (m < 60) emit("scheck " + S(now));
                else emit("speriodic " + S(now));
            }
        }
    }
}

// ---------------------------------------------------------------------------
// round 3: timer_spec<int32_t> (signed 32-bit ticks: the counter wraps after 2^31 ticks) and the shipped
// timer_spec<int64_t> run across the wrap of its 64-bit counter (reset l <n> <off>: every tick value of the op
// lines is moved by <off> modulo 2^64 before the code sees it; the reference scheduler keeps the small values)
// ---------------------------------------------------------------------------
static void gen_signed_directed()
{
    // 10 ticks before the wrap of int32_t: deadlines before / after / exactly at 2^31, periodic through it
    emit("reset i 3");
    emit("plan 0 2147483638 5");    // deadline 2^31 - 5
    emit("plan 1 2147483638 20");   // deadline 2^31 + 10
    emit("plan 2 2147483638 10");   // deadline 2^31 exactly
    emit("exec 2147483642 -");
    emit("exec 2147483644 -");
    emit("exec 2147483647 -");
    emit("exec 2147483648 -");
    emit("exec 2147483650 0@*:p1.2147483650.3");
    emit("exec 2147483700 -");
    emit("q 2147483700");
    // the bit pattern passes 0 (2^32) and the sign bit again (3 * 2^31)
    emit("reset i 2");
    emit("plan 0 4294967286 4");
    emit("plan 1 4294967286 25");
    emit("exec 4294967295 -");
    emit("exec 4294967296 -");
    emit("exec 4294967330 1@0:u0");
    emit("reset i 2");
    emit("plan 0 6442450934 7");
    emit("exec 6442450950 -");
    emit("plan 1 6442450950 1000");
    emit("exec 6442452000 -");
    // int64_t: 10 ticks before 2^63 and 10 ticks before 2^64
    emit("reset l 3 9223372036854775798");
    emit("plan 0 0 5");
    emit("plan 1 0 20");
    emit("plan 2 0 10");
    emit("exec 4 -");
    emit("exec 6 -");
    emit("exec 9 -");
    emit("exec 10 -");
    emit("exec 12 0@*:p1.12.3");
    emit("exec 62 -");
    emit("q 62");
    emit("reset l 2 18446744073709551606");
    emit("plan 0 0 4");
    emit("plan 1 0 25");
    emit("exec 9 -");
    emit("exec 10 -");
    emit("exec 44 1@0:u0");
    // a start in the FUTURE on a signed instance is not due (the unsigned instance fires at once)
    emit("reset I 1");
    emit("plan 0 110 1073741824");
    emit("exec 100 -");
    emit("exec 1073741933 -");
    emit("exec 1073741934 -");
}
static void gen_signed(hv::rng &r, bool th)
{
    gen_signed_directed();
    static const std::vector<i64> b32 = {P31 - 10, P31 - 10, P31 - 40, P31 - 1000, P32 + P31 - 25, P32 - 10, 3 * P32 + P31 - 12, P31 - P30, 0};
    static const std::vector<i64> b64 = {0, 0, 3, 1000};
    static const std::vector<std::string> offs = {" 9223372036854775798", " 9223372036854775798", " 9223372036854775000", " 18446744073709551606",
                                                  " 9223372036853775808", " 0", " 4611686018427387904"};
    for (int c = 0; c < (th ? 8000 : 350); c++) gen_wrap_case_m(r, "i", "", b32);
    for (int c = 0; c < (th ? 1000 : 60); c++) gen_wrap_outside_case_m(r, "I");
    // timer_spec<uint32_t, int32_t>
    emit("reset v 2");
    emit("plan 0 4294967286 4");
    emit("plan 1 4294967286 25");
    emit("exec 4294967295 -");
    emit("exec 4294967296 -");
    emit("exec 4294967330 1@0:u0");
    emit("reset V 1");
    emit("plan 0 110 1073741824"); // start in the future: the signed difference says "not due"
    emit("exec 100 -");
    emit("exec 1073741934 -");
    {
        static const std::vector<i64> bu = {P32 - 10, P32 - 40, P31 - 10, 3 * P32 - 25, 0};
        for (int c = 0; c < (th ? 4000 : 150); c++) gen_wrap_case_m(r, "v", "", bu);
        for (int c = 0; c < (th ? 600 : 40); c++) gen_wrap_outside_case_m(r, "V");
    }
    for (int c = 0; c < (th ? 6000 : 300); c++) gen_wrap_case_m(r, "l", r.pick(offs), b64);
}

// ---------------------------------------------------------------------------
// round 3: exec() called from callbacks without any precaution (any callback, any time: earlier, the same, later;
// the calling timer still planned and due) mixed with plan / unplan of itself and of others - a re-entrant exec
// returns at once (fix-C16), so the history behaves as if those calls were not there
// ---------------------------------------------------------------------------
static void gen_nested_directed()
{
    emit("reset 2");
    emit("plan 0 0 5");
    emit("plan 1 0 6");
    emit("exec 5 0@0:x5");          // the former finding probe: own timer still at the head
    emit("exec 6 *@*:x100");        // every callback calls exec with a far later time
    emit("exec 30 0@*:x30,p1.30.2,x31;1@*:u0,x29");
    emit("exec 40 -");
    emit("qmin 40");
    emit("reset 1");
    emit("qmin 5");                 // the former finding probe: empty manager
    emit("plan 0 1 1");
    emit("qmin 1");
    emit("unplan 0");
    emit("qmin 0");
}
static void gen_nested_case(hv::rng &r)
{
    int n = (int)r.range(1, 4);
    emit("reset " + S(n));
    std::vector<i64> ivs = {1, 2, 3, 5, 7};
    i64 now = r.chance(50) ? 0 : 500;
    int len = (int)r.range(4, 16);
    for (int q = 0; q < len; q++)
    {
        unsigned c = (unsigned)r.below(100);
        int i = (int)r.below(n);
        if (c < 30 || q < 2) emit("plan " + S(i) + " " + S(now - (i64)r.below(3)) + " " + S(r.pick(ivs)));
        else if (c < 38) emit("unplan " + S(i));
        else if (c < 44) emit("qmin " + S(now));
        else
        {
            now += r.pick(std::vector<i64>{0, 1, 2, 5, 12, 40});
            std::string rules;
            int nr = (int)r.range(1, 3);
            for (int k = 0; k < nr; k++)
            {
                std::string sel = (r.chance(40) ? std::string("*") : S(r.below(n))) + "@" + (r.chance(60) ? std::string("*") : S(r.below(3)));
                std::string acts;
                int na = (int)r.range(1, 3);
                for (int a = 0; a < na; a++)
                {
                    if (!acts.empty()) acts += ",";
                    unsigned m = (unsigned)r.below(100);
                    int j = (int)r.below(n);
                    if (m < 50) acts += "x" + S(now + r.pick(std::vector<i64>{-3, 0, 0, 1, 7, 1000}));
                    else if (m < 70) acts += "u" + S(j);
                    else acts += "p" + S(j) + "." + S(now - (i64)r.below(2)) + "." + S(r.pick(ivs) + 1); // deadline after now
                }
                if (!rules.empty()) rules += ";";
                rules += sel + ":" + acts;
            }
            emit("exec " + S(now) + " " + rules);
        }
    }
}

// ---------------------------------------------------------------------------
// round 3: 3 timers, EVERY sequence of four callback actions (the k-th callback of the exec, k = 0..3, whichever
// timer it belongs to, performs one of: nothing | unplan j | plan j with a deadline after now | plan j with a
// deadline at / before now (j runs again in this exec), j in {0,1,2}: 10^4 sequences) over two configurations
// (three EQUAL deadlines; staggered deadlines), followed by an exec with the time going BACKWARDS, an exec at the
// same time, and an exec that jumps many periods ahead.  thorough: all 20000; quick: a random tenth.
// ---------------------------------------------------------------------------
static void gen_exhaustive3(hv::rng &r, bool th)
{
    const i64 now = 6;
    auto actstr = [&](int a, int k) -> std::string {
        if (a == 0) return "";
        int j = (a - 1) / 3, kind = (a - 1) % 3;
        std::string sel = "*@" + S(k) + ":";
        if (kind == 0) return sel + "u" + S(j);
        if (kind == 1) return sel + "p" + S(j) + "." + S(now - 1) + "." + S(2 + j); // deadline now+1+j
        return sel + "p" + S(j) + "." + S(now - 3 - k) + ".3";                         // deadline now-k: at or before now
    };
    for (int cfg = 0; cfg < 2; cfg++)
        for (int code = 0; code < 10000; code++)
        {
            if (!th && !r.chance(4)) continue;
            int a[4] = {code % 10, code / 10 % 10, code / 100 % 10, code / 1000};
            emit("reset 3");
            if (cfg == 0) { emit("plan 0 0 4"); emit("plan 1 1 3"); emit("plan 2 2 2"); }   // three deadlines 4 (FIFO 0,1,2)
            else { emit("plan 2 0 3"); emit("plan 0 1 4"); emit("plan 1 0 6"); }            // deadlines 3, 5, 6
            std::string rules;
            for (int k = 0; k < 4; k++)
            {
                std::string x = actstr(a[k], k);
                if (x.empty()) continue;
                if (!rules.empty()) rules += ";";
                rules += x;
            }
            if (rules.empty()) rules = "-";
            emit("exec " + S(now) + " " + rules);
            emit("exec " + S(now - 2) + " " + rules); // time goes backwards: nothing may run
            emit("exec " + S(now) + " -");
            emit("exec " + S(now + 100) + " -");      // many periods missed: one firing per period, no drift
        }
}

static void gen_delegate(hv::rng &r, bool th)
{
    // every kind once, invoked, copied, compared, reset, inside a timer
    emit("reset D");
    emit("dinv 0 5");
    emit("dnew 0 f 1"); emit("dinv 0 7");
    emit("dnew 1 m 2 1"); emit("dinv 1 -3");
    emit("dnew 2 m 3 3"); emit("dinv 2 9");
    emit("dnew 3 x 2 1"); emit("dinv 3 11");
    emit("deq 0 1"); emit("dcopy 0 1"); emit("deq 0 1"); emit("dinv 0 4");
    emit("dnew 1 x 1 0"); emit("dinv 1 2");
    emit("dnew 2 l 1"); emit("dinv 2 13"); emit("dtim 2 6 3");
    emit("dreset 2 8"); emit("dinv 2 8"); emit("dreset 2 8");
    emit("dtim 0 21 4"); emit("dtim 3 22 2"); emit("dtim 2 23 2");
    emit("dmove 3 1"); emit("dinv 3 1"); emit("dclean 3"); emit("dinv 3 1");
    for (int c = 0; c < (th ? 3000 : 250); c++)
    {
        emit("reset D");
        int len = (int)r.range(4, 18);
        for (int q = 0; q < len; q++)
        {
            unsigned m = (unsigned)r.below(100);
            if (q < 3) m = (unsigned)r.below(30); // the first operations arm slots
            int a = q < 3 ? q : (int)r.below(4), b = (int)r.below(4);
            int arg = (int)r.pick(std::vector<i64>{0, 1, -1, 7, 2147483647, -2147483647 - 1, 1000});
            if (m < 30)
            {
                unsigned k = (unsigned)r.below(100);
                if (k < 10) emit("dnew " + S(a) + " 0");
                else if (k < 35) emit("dnew " + S(a) + " f " + S(r.range(1, 3)));
                else if (k < 65) emit("dnew " + S(a) + " m " + S(r.range(1, 3)) + " " + S(r.range(1, 3)));
                else if (k < 88) emit("dnew " + S(a) + " x " + S(r.range(1, 3)) + " " + S(r.range(0, 3)));
                else emit("dnew " + S(a) + " l " + S(r.range(1, 2)));
            }
            else if (m < 42) emit(std::string(r.chance(60) ? "dcopy " : "dmove ") + S(a) + " " + S(b));
            else if (m < 46) emit("dclean " + S(a));
            else if (m < 72) emit("dinv " + S(a) + " " + S(arg));
            else if (m < 80) emit("dreset " + S(a) + " " + S(arg));
            else if (m < 90) emit("deq " + S(a) + " " + S(b));
            else emit("dtim " + S(a) + " " + S(arg) + " " + S(r.range(0, 5)));
        }
    }
}

// ---------------------------------------------------------------------------
// round 3: long inputs - one exec that catches up 28500 periods (a result line of 450 KB; exec is linear in the
// number of firings), and long histories on ONE manager object (thousands of operations, parameters changing)
// ---------------------------------------------------------------------------
static void gen_long(hv::rng &r, bool th)
{
    emit("reset 2");
    emit("plan 0 1000000000000 1");
    emit("plan 1 1000000000000 2");
    emit("exec 1000000019000 -");
    emit("exec 1000000019001 1@*:x5");
    emit("q 1000000019001");
    for (int c = 0; c < (th ? 12 : 2); c++)
    {
        int n = 6;
        emit("reset " + S(n));
        i64 now = 0;
        std::vector<i64> ivs = {1, 2, 3, 5, 7, 10, 100, 255, 256, 257, 65535, 65536};
        int len = th ? 4000 : 1500;
        for (int q = 0; q < len; q++)
        {
            unsigned m = (unsigned)r.below(100);
            int i = (int)r.below(n);
            if (m < 35) emit("plan " + S(i) + " " + S(now - (i64)r.below(4)) + " " + S(r.pick(ivs)));
            else if (m < 45) emit("unplan " + S(i));
            else if (m < 50) emit("qmin " + S(now));
            else
            {
                now += r.pick(std::vector<i64>{0, 1, 1, 2, 3, 7, 50, 255, 256, 257, 1000});
                emit("exec " + S(now) + " " + gen_rules(r, n, now, std::vector<i64>{1, 2, 3, 5, 7, 10, 100, 256}));
            }
        }
    }
}

static void gen_extensions(hv::rng &r, bool th)
{
    gen_wrap_directed();
    gen_wrap_outside_directed();
    gen_ext_directed();
    gen_stimer_wide_directed();
    for (int c = 0; c < (th ? 12000 : 1500); c++) gen_wrap_case(r);
    for (int c = 0; c < (th ? 2000 : 300); c++) gen_wrap_outside_case(r);
    for (int c = 0; c < (th ? 12000 : 1500); c++) gen_ext_case(r);
    for (int c = 0; c < (th ? 1500 : 200); c++) gen_unarmed_case(r);
    gen_stimer_wide(r, th ? 3000 : 400);
    gen_stimer_long(r, th);
    gen_signed(r, th);
    gen_delegate(r, th);
    gen_long(r, th);
    gen_nested_directed();
    gen_exhaustive3(r, th);
    for (int c = 0; c < (th ? 6000 : 400); c++) gen_nested_case(r);
}

void c16_gen(hv::rng &r, const std::string &tier)
{
    bool th = tier == "thorough";
    gen_directed();
    gen_exhaustive_configs(r, th);
    gen_exhaustive_callbacks(r, th);
    int nrand = th ? 30000 : 5000;
    for (int c = 0; c < nrand; c++) gen_random_case(r, c % 3 != 0);
    gen_stimer(r, th ? 5000 : 1000);
    gen_extensions(r, th);
}

