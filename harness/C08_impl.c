/* C08: the bundled libc's mem and str functions, compiled from the repo's own
 * files under renamed symbols (igv_NAME) so that neither the host libc nor the
 * ASan interceptors stand in for the function under test.
 *
 * Compiled as C with -ffreestanding -fno-builtin (checks/C08.json "cflags").
 * The files' own `#include <string.h>` etc. must not pull in the host's
 * declarations: the repo's headers are included first by path and the host's
 * header guards are pre-defined. */

#define memcpy igv_memcpy
#define memmove igv_memmove
#define memset igv_memset
#define memcmp igv_memcmp
#define memchr igv_memchr
#define memrchr igv_memrchr
#define strlen igv_strlen
#define strnlen igv_strnlen
#define strcpy igv_strcpy
#define strncpy igv_strncpy
#define strlcpy igv_strlcpy
#define strcat igv_strcat
#define strncat igv_strncat
#define strcmp igv_strcmp
#define strncmp igv_strncmp
#define strcasecmp igv_strcasecmp
#define strncasecmp igv_strncasecmp
#define strchr igv_strchr
#define strrchr igv_strrchr
#define strchrnul igv_strchrnul
#define strstr igv_strstr
#define strcasestr igv_strcasestr
#define strspn igv_strspn
#define strcspn igv_strcspn
#define strpbrk igv_strpbrk
#define strtok igv_strtok
#define strtok_r igv_strtok_r
#define strdup igv_strdup
#define strndup igv_strndup
#define strlwr igv_strlwr
#define strupr igv_strupr
#define strerror igv_strerror
#define ffs igv_ffs
#define tolower igv_tolower
#define toupper igv_toupper
#define isalnum igv_isalnum
#define isalpha igv_isalpha
#define isblank igv_isblank
#define isdigit igv_isdigit
#define islower igv_islower
#define isprint igv_isprint
#define isspace igv_isspace
#define isupper igv_isupper
#define isxdigit igv_isxdigit
/* strdup/strndup: allocation is a parameter of the check (C08.cpp supplies it) */
#define malloc igv_malloc
#define calloc igv_calloc

#include <stddef.h>
#include <stdint.h>
#include <compat/libc/include/string.h>
#include <compat/libc/include/strings.h>
#include <compat/libc/include/ctype.h>
extern void *igv_malloc(size_t);
extern void *igv_calloc(size_t, size_t);

/* host header guards (glibc): the .c files' includes now add nothing */
#define _STRING_H 1
#define _STRINGS_H 1
#define _CTYPE_H 1
#define _STDLIB_H 1
#define _MATH_H 1

/* ROUND 3b (fragility): the anchor is the glob compat/libc/string/[*].c, the property names FUNCTIONS, not
 * files.  Every file is optional (__has_include), a file named after a function that today shares a file
 * (strtok_r.c) is picked up when it appears, and every igv_NAME is a weak reference in both translation
 * units: a moved / split / removed file degrades to "function missing" verdicts of the ops of exactly the
 * functions that are gone instead of a build failure of the whole check. */
#pragma weak igv_memchr
#pragma weak igv_memcmp
#pragma weak igv_memcpy
#pragma weak igv_memmove
#pragma weak igv_memrchr
#pragma weak igv_memset
#pragma weak igv_strcasecmp
#pragma weak igv_strcasestr
#pragma weak igv_strcat
#pragma weak igv_strchr
#pragma weak igv_strchrnul
#pragma weak igv_strcmp
#pragma weak igv_strcpy
#pragma weak igv_strcspn
#pragma weak igv_strdup
#pragma weak igv_strlcpy
#pragma weak igv_strlen
#pragma weak igv_strlwr
#pragma weak igv_strncasecmp
#pragma weak igv_strncat
#pragma weak igv_strncmp
#pragma weak igv_strncpy
#pragma weak igv_strndup
#pragma weak igv_strnlen
#pragma weak igv_strpbrk
#pragma weak igv_strrchr
#pragma weak igv_strspn
#pragma weak igv_strstr
#pragma weak igv_strtok
#pragma weak igv_strupr
#pragma weak igv_strtok_r
#if __has_include(<compat/libc/string/memchr.c>)
#include <compat/libc/string/memchr.c>
#endif
#if __has_include(<compat/libc/string/memcmp.c>)
#include <compat/libc/string/memcmp.c>
#endif
#if __has_include(<compat/libc/string/memcpy.c>)
#include <compat/libc/string/memcpy.c>
#endif
#if __has_include(<compat/libc/string/memmove.c>)
#include <compat/libc/string/memmove.c>
#endif
#if __has_include(<compat/libc/string/memrchr.c>)
#include <compat/libc/string/memrchr.c>
#endif
#if __has_include(<compat/libc/string/memset.c>)
#include <compat/libc/string/memset.c>
#endif
#if __has_include(<compat/libc/string/strcasecmp.c>)
#include <compat/libc/string/strcasecmp.c>
#endif
#if __has_include(<compat/libc/string/strcasestr.c>)
#include <compat/libc/string/strcasestr.c>
#endif
#if __has_include(<compat/libc/string/strcat.c>)
#include <compat/libc/string/strcat.c>
#endif
#if __has_include(<compat/libc/string/strchr.c>)
#include <compat/libc/string/strchr.c>
#endif
#if __has_include(<compat/libc/string/strchrnul.c>)
#include <compat/libc/string/strchrnul.c>
#endif
#if __has_include(<compat/libc/string/strcmp.c>)
#include <compat/libc/string/strcmp.c>
#endif
#if __has_include(<compat/libc/string/strcpy.c>)
#include <compat/libc/string/strcpy.c>
#endif
#if __has_include(<compat/libc/string/strcspn.c>)
#include <compat/libc/string/strcspn.c>
#endif
#if __has_include(<compat/libc/string/strdup.c>)
#include <compat/libc/string/strdup.c>
#endif
#if __has_include(<compat/libc/string/strlcpy.c>)
#include <compat/libc/string/strlcpy.c>
#endif
#if __has_include(<compat/libc/string/strlen.c>)
#include <compat/libc/string/strlen.c>
#endif
#if __has_include(<compat/libc/string/strlwr.c>)
#include <compat/libc/string/strlwr.c>
#endif
#if __has_include(<compat/libc/string/strncasecmp.c>)
#include <compat/libc/string/strncasecmp.c>
#endif
#if __has_include(<compat/libc/string/strncat.c>)
#include <compat/libc/string/strncat.c>
#endif
#if __has_include(<compat/libc/string/strncmp.c>)
#include <compat/libc/string/strncmp.c>
#endif
#if __has_include(<compat/libc/string/strncpy.c>)
#include <compat/libc/string/strncpy.c>
#endif
#if __has_include(<compat/libc/string/strndup.c>)
#include <compat/libc/string/strndup.c>
#endif
#if __has_include(<compat/libc/string/strnlen.c>)
#include <compat/libc/string/strnlen.c>
#endif
#if __has_include(<compat/libc/string/strpbrk.c>)
#include <compat/libc/string/strpbrk.c>
#endif
#if __has_include(<compat/libc/string/strrchr.c>)
#include <compat/libc/string/strrchr.c>
#endif
#if __has_include(<compat/libc/string/strspn.c>)
#include <compat/libc/string/strspn.c>
#endif
#if __has_include(<compat/libc/string/strstr.c>)
#include <compat/libc/string/strstr.c>
#endif
#if __has_include(<compat/libc/string/strtok.c>)
#include <compat/libc/string/strtok.c>
#endif
#if __has_include(<compat/libc/string/strupr.c>)
#include <compat/libc/string/strupr.c>
#endif
#if __has_include(<compat/libc/string/strtok_r.c>)
#include <compat/libc/string/strtok_r.c>
#endif

/* what the compiled code believes about the platform (op `plat`) */
/* BLOCK_SZ is a file-local macro of memcpy.c, not part of the property: optional, reported as a TAG only */
#ifdef BLOCK_SZ
unsigned igv_block_sz(void) { return (unsigned)BLOCK_SZ; }
#else
unsigned igv_block_sz(void) { return 0; }
#endif
unsigned igv_char_bit(void) { return (unsigned)__CHAR_BIT__; }
int igv_char_is_signed(void) { return (char)0xff < 0; }

/* ---- round 3: ctype through both spellings (the libc names of
 * compat/libc/include/ctype.h, renamed to igv_* by the macros above, and the
 * igris_* functions of igris/util/ctype.h they forward to), the isascii /
 * toascii macros, and the platform constants the model embeds (op `plat2`) */
int igv_ct_libc(int which, int c)
{
    switch (which)
    {
    case 0: return isalnum(c);
    case 1: return isalpha(c);
    case 2: return isblank(c);
    case 3: return isdigit(c);
    case 4: return islower(c);
    case 5: return isprint(c);
    case 6: return isspace(c);
    case 7: return isupper(c);
    case 8: return isxdigit(c);
    case 9: return tolower(c);
    case 10: return toupper(c);
    case 11: return isascii(c);
    case 12: return toascii(c);
    }
    return -12345;
}
int igv_ct_igris(int which, int c)
{
    switch (which)
    {
    case 0: return igris_isalnum(c);
    case 1: return igris_isalpha(c);
    case 2: return igris_isblank(c);
    case 3: return igris_isdigit(c);
    case 4: return igris_islower(c);
    case 5: return igris_isprint(c);
    case 6: return igris_isspace(c);
    case 7: return igris_isupper(c);
    case 8: return igris_isxdigit(c);
    case 9: return igris_tolower(c);
    case 10: return igris_toupper(c);
    case 11: return isascii(c);
    case 12: return toascii(c);
    }
    return -12345;
}
unsigned igv_plat2(int k)
{
    switch (k)
    {
    case 0: return (unsigned)sizeof(long);
    case 1: return (unsigned)sizeof(size_t);
    case 2: return (unsigned)sizeof(int);
    case 3: return 'A';
    case 4: return 'Z';
    case 5: return 'a';
    case 6: return 'z';
    case 7: return 'a' - 'A';
    }
    return 0;
}
