// C02 harness: hosted flat_map / flat_set, comparator 3 = std::greater<std::string> on the decimal text and
// comparator 4 = "dirdesc" (a stateful comparator object handed to flat_set(const Compare&))
#include "C02/common.h"
#include <igris/container/vector.h>
#include <igris/container/flat_map.h>
#include <igris/container/flat_set.h>
#include "C02/flat_ops.h"
static FlatOps<igris::flat_map<std::string, int, std::greater<std::string>>, igris::flat_set<std::string, std::greater<std::string>>, int, std::string, std::string> g_flat3;
// comparator 4 = "dirdesc": the set is constructed from a comparator OBJECT, flat_set<int, Dir>(Dir(true)); the map
// has no such constructor and keeps the default-constructed (ascending) Dir
struct FlatOpsDir : FlatOps<igris::flat_map<int, int, Dir>, igris::flat_set<int, Dir>, int, int>
{
    void reset() override
    {
        fm = igris::flat_map<int, int, Dir>();
        fs = igris::flat_set<int, Dir>(Dir(true));
    }
};
static FlatOpsDir g_flat4;
FlatBase *c02_flat_b(int ci) { return ci == 3 ? (FlatBase *)&g_flat3 : (FlatBase *)&g_flat4; }
