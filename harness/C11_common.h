// C11 harness: what the run side (C11.cpp) and the generator (C11_gen.cpp) share
#pragma once
#include "common/hv.h"
#include <algorithm>
#include <cinttypes>
#include <climits>
#include <set>

using namespace hv;
typedef std::vector<uint8_t> bytes;
typedef unsigned __int128 u128;
static const char *const FNS_[8] = {"l", "ul", "ll", "ull", "imax", "umax", "q", "uq"};

// comparator kinds (all are consistent weak orders on the key byte)
static int cmp_keys(int kind, int a, int b)
{
    switch (kind)
    {
    case 0: return a - b;                                   // ascending, varying magnitude
    case 1: return b - a;                                   // descending
    case 2: return (a / 2 < b / 2) ? -1 : (a / 2 > b / 2);  // classes {2k,2k+1}
    case 3: return 0;                                       // everything equal
    case 5: return a / 16 - b / 16;                         // large classes: 16 keys each
    case 6: return (a & 15) - (b & 15);                     // only a part of the key (low nibble) is compared
    default: return a < b ? INT_MIN : a > b ? INT_MAX : 0;  // extreme magnitudes
    }
}

