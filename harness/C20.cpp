// C20 — system lock, wait queues, safe_queue under controlled thread schedules.
//
// One op line = one case:   c <prog0>/<prog1>/... <init-items|-> <schedule digits|->
//   prog  = comma separated ops:  L U S R  W0 W1  O<f> A<f>  P<x> G Z   ('-' = empty)
//   L/U   system_lock / system_unlock          S/R  system_lock_save / _restore
//   W<p>  wait_current_schedee(head, p, &fut)  O<f>/A<f>  unwait_one/all(head, f)
//   P<x>  safe_queue::push(x)   G pop()   Z size()
// Real threads execute the programs on the real igris code.  Every
// IGRIS_VERIF_POINT of the library parks the calling thread; the scheduler
// (main thread of the case) releases exactly the thread the schedule names and
// waits until every thread is parked at a point, finished, or asleep in a
// futex on the primitive it was about to use (read from /proc, no timing).
// The scheduler's own synchronisation is invisible to ThreadSanitizer
// (no_sanitize functions + raw futex), so TSan sees exactly the
// happens-before edges the library creates.
//
// result  = trace of scheduler tokens + per-thread observations (compared with
//           the Lean model, which must predict it byte for byte)
// oracle  = mutual exclusion / depth, wake-up bookkeeping, FIFO linearisation,
//           event liveness, lost wake-up at deadlock, TSan — all evaluated on
//           the real run, without the model.
//
// Process structure: `run` = supervisor (single threaded) + a forked worker
// process that executes cases; a TSan report, a deadlock or a hang ends the
// worker (the supervisor turns it into a result line and forks a new one).
#include "common/hv.h"

#include <igris/container/dlist.h>
#include <igris/event/safe_queue.h>
#include <igris/osinter/wait.h>
#include <igris/sync/syslock.h>
#include <igris/syncxx/event.h>
#include <mutex>
#include <igris/util/verif_point.h>

#include <algorithm>
#include <atomic>
#include <condition_variable>
#include <deque>
#include <dlfcn.h>
#include <fcntl.h>
#include <linux/futex.h>
#include <map>
#include <poll.h>
#include <setjmp.h>
#include <signal.h>
#include <queue>
#include <set>
#include <sys/syscall.h>
#include <sys/wait.h>
#include <thread>
#include <time.h>

#define NOTSAN __attribute__((no_sanitize("thread"))) __attribute__((noinline))

// ---------------------------------------------------------------------------
// scheduler state (only touched from NOTSAN functions)
// ---------------------------------------------------------------------------
enum { MAXT = 6, RUNNING = 0, PARKED = 1, DONE = 2 };
struct Slot
{
    int st;            // RUNNING / PARKED / DONE
    int go;            // futex word: 1 = released
    int ktid;          // kernel tid
    char hook;         // code of the point the thread is parked at / left last
    const void *obj;   // its object
    unsigned long seq; // arrival stamp
    int cnt;           // syslock_counter() of the thread at arrival
    bool pending;      // left its point, did not arrive anywhere yet
    bool nocv;         // inside event::wait(0): the expired wait passes through futex() without sleeping
};
static Slot slot[MAXT];
static int nthreads = 0;
static unsigned long arrivals = 0;
static int sched_word = 0;
static thread_local int my_t = -1;

// oracle bookkeeping (NOTSAN side)
static const void *shared_ev = nullptr; // the shared event of an `e` case (alive for the whole case)
static const void *live_ev[MAXT]; // event object of thread t while inside wait_current_schedee
static const void *signalled[64];
static int nsignalled = 0;
static char oracle_msg[512];
static bool worker_must_exit = false;

NOTSAN static void oracle_fail(const char *why)
{
    if (!oracle_msg[0])
        snprintf(oracle_msg, sizeof oracle_msg, "%s", why);
    // early note for the supervisor (the process may be killed by TSan next)
    char b[600];
    int n = snprintf(b, sizeof b, "@@O %s\n", why);
    (void)!write(1, b, n);
}

NOTSAN static long futex(int *addr, int op, int val)
{
    return syscall(SYS_futex, addr, op, val, nullptr, nullptr, 0);
}

// Round 3b: the point NAMES are the contract between library and harness, and a harmless change of the library may add,
// rename, move or remove a point.  (1) A point whose name is not in this table is IGNORED by the scheduler (the thread
// does not park, no token, no schedule digit is consumed).  (2) Which of the known points the compiled library really
// has is PROBED before main(): the pre-main object below walks through every library call once (my_t < 0: nothing
// parks) and igris_verif_point records the names it is passed.  A case whose programs need a point that was not seen
// is generated as `x <case>`: it is still run on the real code under ThreadSanitizer and the watchdogs, but its compared
// result is the constant `oracle-only` (the driver prints the same) and it carries the tag `point-absent`; the
// trace-derived oracle clauses (they are built from the points) are not judged for it.
static const struct { const char *n; char c; } HOOKS[] = {
        {"syslock.lock", 'L'}, {"syslock.unlock", 'U'}, {"syslock.save", 'S'}, {"syslock.restore", 'R'},
        {"wait.enqueue", 'q'}, {"event.wait.lock", 'w'}, {"event.wait.cv", 'c'}, {"event.wait.unlock", 'u'},
        {"wait.return", 'r'}, {"unwait.unlink", 'k'}, {"event.signal.lock", 's'}, {"event.signal.unlock", 't'},
        {"event.signal.notify", 'n'}, {"sq.push.wait", 'a'}, {"sq.pop.wait", 'a'}, {"sq.size.wait", 'a'},
        {"sq.push.post", 'p'}, {"sq.pop.post", 'g'}, {"sq.size.post", 'z'},
        {"event.twait.lock", 'd'}, {"event.twait.cv", 'e'}, {"event.twait.unlock", 'f'},
        {"event.reset.lock", 'x'}, {"event.reset.unlock", 'y'}};
enum { NHOOKS = sizeof(HOOKS) / sizeof(HOOKS[0]) };
static unsigned points_seen = 0;   // bit i: HOOKS[i].n was passed at least once by the pre-main walk (atomic: two threads)
static unsigned unknown_points = 0; // calls with a name that is not in the table (ignored)
static int hook_index(const char *name)
{
    for (int i = 0; i < NHOOKS; i++)
        if (!strcmp(HOOKS[i].n, name))
            return i;
    return -1;
}
static bool point_present(const char *name)
{
    int i = hook_index(name);
    return i >= 0 && (__atomic_load_n(&points_seen, __ATOMIC_RELAXED) >> i & 1);
}

NOTSAN static void park(int t, char code, const void *obj, int cnt)
{
    Slot &s = slot[t];
    s.hook = code;
    s.obj = obj;
    s.cnt = cnt;
    s.seq = __atomic_add_fetch(&arrivals, 1, __ATOMIC_SEQ_CST);
    // --- oracle: mutual exclusion evaluated on the real thread-local counts.
    if (cnt > 0)
        for (int u = 0; u < nthreads; u++)
            if (u != t && __atomic_load_n(&slot[u].st, __ATOMIC_ACQUIRE) == PARKED && slot[u].cnt > 0)
            {
                char b[128];
                snprintf(b, sizeof b, "mutual exclusion: threads %d (count %d) and %d (count %d) hold the system lock together", t, cnt, u, slot[u].cnt);
                oracle_fail(b);
            }
    // --- oracle: nobody passes event.wait unless its event was signalled
    // (a spurious return of the condition variable must not get through)
    if (code == 'u')
    {
        bool sig = false;
        for (int i = 0; i < nsignalled; i++)
            if (signalled[i] == obj)
                sig = true;
        if (!sig)
        {
            char b[200];
            snprintf(b, sizeof b, "spurious wake-up: thread %d passed event.wait although nobody signalled its event (it is still in the wait queue)", t);
            oracle_fail(b);
        }
    }
    if (code == 'q')
    {
        live_ev[t] = obj; // a new event object (possibly at the address of an earlier one)
        for (int i = 0; i < nsignalled; i++)
            if (signalled[i] == obj)
                signalled[i] = nullptr;
    }
    __atomic_store_n(&s.st, PARKED, __ATOMIC_RELEASE);
    __atomic_store_n(&sched_word, 1, __ATOMIC_RELEASE);
    futex(&sched_word, FUTEX_WAKE, 1);
    while (__atomic_load_n(&s.go, __ATOMIC_ACQUIRE) == 0)
        futex(&s.go, FUTEX_WAIT, 0);
    __atomic_store_n(&s.go, 0, __ATOMIC_RELEASE);
    // --- oracle: the object about to be touched must belong to a waiter that
    // is still inside wait_current_schedee.
    if (code == 's' || code == 't' || code == 'n')
    {
        bool alive = (obj == shared_ev);
        for (int u = 0; u < nthreads; u++)
            if (live_ev[u] == obj)
                alive = true;
        if (!alive)
        {
            char b[160];
            snprintf(b, sizeof b, "thread %d touches a waiter's event at point '%c' after that waiter returned from wait_current_schedee (event destroyed)", t, code);
            oracle_fail(b);
        }
        if (code == 's' && nsignalled < 64)
            signalled[nsignalled++] = obj;
    }
}

extern "C" void igris_verif_point(const char *name, const void *obj)
{
    int i = hook_index(name);
    if (my_t < 0)
    {
        if (i >= 0) __atomic_fetch_or(&points_seen, 1u << i, __ATOMIC_RELAXED);
        else __atomic_fetch_add(&unknown_points, 1u, __ATOMIC_RELAXED);
        return;
    }
    if (i < 0)
        return; // unknown point name: ignored by the scheduler
    park(my_t, HOOKS[i].c, obj, syslock_counter());
}

NOTSAN static void mark_done(int t)
{
    slot[t].seq = __atomic_add_fetch(&arrivals, 1, __ATOMIC_SEQ_CST);
    __atomic_store_n(&slot[t].st, DONE, __ATOMIC_RELEASE);
    __atomic_store_n(&sched_word, 1, __ATOMIC_RELEASE);
    futex(&sched_word, FUTEX_WAKE, 1);
}
NOTSAN static void set_shared_ev(const void *e) { shared_ev = e; }
NOTSAN static void set_nocv(int t, bool v) { slot[t].nocv = v; }
// a point of the harness itself (before a call that has no point of its own)
static void hpoint(char code, const void *obj)
{
    if (my_t >= 0)
        park(my_t, code, obj, syslock_counter());
}
NOTSAN static void set_ktid(int t) { slot[t].ktid = (int)syscall(SYS_gettid); }
NOTSAN static void event_dead(int t) { live_ev[t] = nullptr; }
// the thread whose waiter owns event `o` (-1: none)
NOTSAN static int owner_of_event(const void *o)
{
    for (int u = 0; u < nthreads; u++)
        if (live_ev[u] == o)
            return u;
    return -1;
}

static size_t prim_size(char code)
{
    switch (code)
    {
    case 'L': case 'R': return sizeof(std::recursive_mutex);
    case 'a': return sizeof(igris::semaphore);
    case 'w': case 'c': case 's': case 'd': case 'e': case 'x': case 'i': return sizeof(igris::event);
    default: return 0;
    }
}

// ---------------------------------------------------------------------------
// spurious returns of the condition-variable wait (POSIX permits them).
// The scheduler produces one on command: it broadcasts on the waiter's
// condition variable WITHOUT setting the flag — for the waiter this is
// indistinguishable from a spurious return of pthread_cond_wait.  The
// broadcast goes to glibc directly (not through TSan's interceptor): like
// everything the scheduler does it must stay invisible to the race detector.
// ---------------------------------------------------------------------------
struct EvMirror // layout of igris::event (its members are private)
{
    bool flag;
    std::mutex m;
    std::condition_variable c;
};
// round 3b: NOT a static_assert any more (a harmless change of the private members must not break the build): when the
// layout differs the spurious-return injector and the flag peek are switched off and every case is generated as
// `x <case>` (oracle-only, tag `layout-absent`)
static constexpr bool ev_mirror_ok = sizeof(EvMirror) == sizeof(igris::event) && alignof(EvMirror) == alignof(igris::event);
typedef int (*cond_fn)(pthread_cond_t *);
static cond_fn real_broadcast = nullptr;
static void init_real_broadcast()
{
    void *h = dlopen("libc.so.6", RTLD_LAZY | RTLD_NOLOAD);
    if (!h)
        h = dlopen("libc.so.6", RTLD_LAZY);
    real_broadcast = h ? (cond_fn)dlsym(h, "pthread_cond_broadcast") : nullptr;
    if (!real_broadcast)
    {
        fprintf(stderr, "C20 harness: cannot resolve glibc's pthread_cond_broadcast\n");
        abort();
    }
}

// is thread t asleep in futex() on an address inside the primitive it was about to use?
NOTSAN static bool asleep_on_primitive(int t)
{
    Slot &s = slot[t];
    size_t sz = prim_size(s.hook);
    if (!sz)
        return false;
    char path[64], buf[256];
    snprintf(path, sizeof path, "/proc/self/task/%d/syscall", s.ktid);
    int fd = open(path, O_RDONLY);
    if (fd < 0)
        return false;
    ssize_t n = read(fd, buf, sizeof buf - 1);
    close(fd);
    if (n <= 0)
        return false;
    buf[n] = 0;
    unsigned long nr = 0, a0 = 0;
    if (sscanf(buf, "%lu %lx", &nr, &a0) != 2 || nr != SYS_futex)
        return false;
    unsigned long lo = (unsigned long)s.obj;
    if (a0 < lo || a0 >= lo + sz)
        return false;
    if (s.nocv && ev_mirror_ok && a0 >= lo + offsetof(EvMirror, c))
        return false; // a zero time-out never sleeps in the condition variable (it may be seen inside futex() on its way out)
    snprintf(path, sizeof path, "/proc/self/task/%d/stat", s.ktid);
    fd = open(path, O_RDONLY);
    if (fd < 0)
        return false;
    n = read(fd, buf, sizeof buf - 1);
    close(fd);
    if (n <= 0)
        return false;
    buf[n] = 0;
    char *p = strrchr(buf, ')');
    return p && p[1] == ' ' && p[2] == 'S';
}

NOTSAN static bool mirror_flag(const void *e) { return ev_mirror_ok && ((const EvMirror *)e)->flag; }
// address the thread sleeps on in futex(), 0 if it is not in futex()
NOTSAN static unsigned long futex_addr(int t)
{
    char path[64], buf[256];
    snprintf(path, sizeof path, "/proc/self/task/%d/syscall", slot[t].ktid);
    int fd = open(path, O_RDONLY);
    if (fd < 0)
        return 0;
    ssize_t n = read(fd, buf, sizeof buf - 1);
    close(fd);
    if (n <= 0)
        return 0;
    buf[n] = 0;
    unsigned long nr = 0, a0 = 0;
    if (sscanf(buf, "%lu %lx", &nr, &a0) != 2 || nr != SYS_futex)
        return 0;
    return a0;
}
// asleep inside the condition variable of its own event (not on the event's mutex)
NOTSAN static bool asleep_in_cv(int t)
{
    if (!ev_mirror_ok || __atomic_load_n(&slot[t].st, __ATOMIC_ACQUIRE) != RUNNING || (slot[t].hook != 'c' && slot[t].hook != 'e') || !asleep_on_primitive(t))
        return false;
    const EvMirror *m = (const EvMirror *)slot[t].obj;
    unsigned long a = futex_addr(t), lo = (unsigned long)&m->c;
    return a >= lo && a < lo + sizeof(m->c);
}
// number of voluntary context switches of thread t (it grows by one each time the thread goes to sleep)
NOTSAN static long nvcsw(int t)
{
    char path[64], buf[2048];
    snprintf(path, sizeof path, "/proc/self/task/%d/status", slot[t].ktid);
    int fd = open(path, O_RDONLY);
    if (fd < 0)
        return -1;
    ssize_t n = read(fd, buf, sizeof buf - 1);
    close(fd);
    if (n <= 0)
        return -1;
    buf[n] = 0;
    const char *p = strstr(buf, "\nvoluntary_ctxt_switches:");
    return p ? atol(p + 26) : -1;
}

static double now_s()
{
    timespec ts;
    clock_gettime(CLOCK_MONOTONIC, &ts);
    return ts.tv_sec + ts.tv_nsec * 1e-9;
}

// wait until every thread is parked, done, or asleep on its primitive.
// returns false on watchdog expiry.
NOTSAN static bool quiesce()
{
    double t0 = now_s(), deadline = t0 + 20.0;
    unsigned spins = 0;
    for (;;)
    {
        bool anyrun = false;
        for (int t = 0; t < nthreads; t++)
            if (__atomic_load_n(&slot[t].st, __ATOMIC_ACQUIRE) == RUNNING)
                anyrun = true;
        if (!anyrun)
            return true;
        spins++;
        if (spins < 2000 && (spins & 127) != 0)
            continue; // short busy wait: the usual case is an arrival within microseconds
        double t1 = now_s();
        if (t1 - t0 > 30e-6)
        {
            // look the running threads up in /proc; two identical looks with no arrival in between
            unsigned long a0 = __atomic_load_n(&arrivals, __ATOMIC_SEQ_CST);
            bool all = true;
            for (int pass = 0; pass < 2 && all; pass++)
                for (int t = 0; t < nthreads && all; t++)
                    if (__atomic_load_n(&slot[t].st, __ATOMIC_ACQUIRE) == RUNNING && !asleep_on_primitive(t))
                        all = false;
            if (all && a0 == __atomic_load_n(&arrivals, __ATOMIC_SEQ_CST))
                return true;
            __atomic_store_n(&sched_word, 0, __ATOMIC_RELEASE);
            timespec ts = {0, 40000};
            syscall(SYS_futex, &sched_word, FUTEX_WAIT, 0, &ts, nullptr, 0);
            if (t1 > deadline)
                return false;
        }
    }
}

// make the condition-variable wait of thread t (asleep in it) return without
// the flag having been set; wait until the thread has slept again somewhere
// (in the condition variable: predicate loop; on the event mutex: a waker
// holds it) or arrived at a point (it got through)
// the threads asleep in the condition variable of event `obj`, with their sleep counters
struct Sleepers
{
    bool was[MAXT];
    long v0[MAXT];
};
NOTSAN static void note_sleepers(const void *obj, Sleepers &sl)
{
    for (int u = 0; u < nthreads; u++)
    {
        sl.was[u] = asleep_in_cv(u) && slot[u].obj == obj;
        sl.v0[u] = sl.was[u] ? nvcsw(u) : 0;
    }
}
// after a broadcast: wait until each of them has woken and has slept again
// somewhere (in the condition variable: predicate loop; on the event mutex: a
// waker holds it) or arrived at a point (it got through)
NOTSAN static bool wait_woken(const Sleepers &sl)
{
    double deadline = now_s() + 20.0;
    for (;;)
    {
        bool all = true;
        for (int u = 0; u < nthreads; u++)
            if (sl.was[u] && __atomic_load_n(&slot[u].st, __ATOMIC_ACQUIRE) == RUNNING &&
                !(asleep_on_primitive(u) && nvcsw(u) > sl.v0[u]))
                all = false;
        if (all)
            break;
        if (now_s() > deadline)
            return false;
        timespec ts = {0, 20000};
        nanosleep(&ts, nullptr);
    }
    return quiesce();
}
// make the condition-variable wait of thread t (asleep in it) return without
// the flag having been set (on a shared event the broadcast reaches every sleeper)
NOTSAN static bool spur_wake(int t)
{
    Sleepers sl;
    note_sleepers(slot[t].obj, sl);
    EvMirror *m = (EvMirror *)slot[t].obj;
    real_broadcast(m->c.native_handle());
    return wait_woken(sl);
}

NOTSAN static int get_st(int t) { return __atomic_load_n(&slot[t].st, __ATOMIC_ACQUIRE); }
NOTSAN static Slot get_slot(int t) { return slot[t]; }
NOTSAN static void set_pending(int t, bool v) { slot[t].pending = v; }
NOTSAN static void release(int t)
{
    slot[t].pending = true;
    __atomic_store_n(&slot[t].st, RUNNING, __ATOMIC_RELEASE);
    __atomic_store_n(&slot[t].go, 1, __ATOMIC_RELEASE);
    futex(&slot[t].go, FUTEX_WAKE, 1);
}
NOTSAN static void reset_slots(int n)
{
    memset(slot, 0, sizeof slot);
    memset(live_ev, 0, sizeof live_ev);
    shared_ev = nullptr;
    nsignalled = 0;
    nthreads = n;
    arrivals = 0;
    oracle_msg[0] = 0;
}
NOTSAN static bool was_signalled(const void *o)
{
    for (int i = 0; i < nsignalled; i++)
        if (signalled[i] == o)
            return true;
    return false;
}
NOTSAN static int copy_oracle(char *dst)
{
    int n = 0;
    while (oracle_msg[n]) { dst[n] = oracle_msg[n]; n++; }
    return n;
}
static std::string oracle_text()
{
    char b[512];
    int n = copy_oracle(b);
    return std::string(b, n);
}

// ---------------------------------------------------------------------------
// round 3: use of the library BEFORE main() (static-initialisation order).
// An object with the earliest user init priority runs the library from its
// constructor - system lock incl. nesting/save/restore, a wait queue with a
// REAL second thread parked and woken, safe_queue, event, semaphore - and keeps
// what it saw; op `p premain` reports it later.  The library's own statics
// (recursive mutex, thread_local count) must be usable at that time.
// ---------------------------------------------------------------------------
// field names / widths the property does not fix: optional, reported as TAGS of the op `k consts`
template <class T> static long save_count_of(const T &s) { if constexpr (requires { s.count; }) return (long)s.count; else return 1; }
template <class T> static size_t save_count_size() { if constexpr (requires(T s) { s.count; }) return sizeof(T::count); else return 0; }
template <class T> static size_t future_size() { if constexpr (requires(T s) { s.future; }) return sizeof(T::future); else return 0; }
static sigjmp_buf premain_jb;
static void premain_segv(int) { siglongjmp(premain_jb, 1); }
struct PreMain
{
    char text[256];
    PreMain()
    {
        // a crash inside the library at this time (e.g. a library static that is not
        // constant-initialised) must become a result line, not a dead harness
        struct sigaction sa, old1, old2;
        memset(&sa, 0, sizeof sa);
        sa.sa_handler = premain_segv;
        sa.sa_flags = SA_NODEFER;
        sigaction(SIGSEGV, &sa, &old1);
        sigaction(SIGBUS, &sa, &old2);
        if (sigsetjmp(premain_jb, 1) == 0)
            body();
        else
            snprintf(text, sizeof text, "premain CRASH (SIGSEGV inside the library before main())");
        sigaction(SIGSEGV, &old1, nullptr);
        sigaction(SIGBUS, &old2, nullptr);
    }
    void body()
    {
        int a, b, c2, d, e;
        system_lock(); system_lock(); a = syslock_counter();
        system_unlock(); b = syslock_counter();
        syslock_save_pair sv = system_lock_save(); c2 = syslock_counter();
        system_lock_restore(sv); d = syslock_counter();
        system_unlock(); e = syslock_counter();
        igris::dlist_base head;
        unwait_one(&head, 5);
        unwait_all(&head, 6);
        void *fut = nullptr;
        std::thread th([&]() { wait_current_schedee(&head, 0, &fut); });
        for (;;)
        {
            system_lock();
            size_t n = head.size();
            system_unlock();
            if (n == 1) break;
            timespec ts = {0, 100000};
            nanosleep(&ts, nullptr);
        }
        unwait_one(&head, 77);
        th.join();
        igris::safe_queue<long> q;
        q.push(7); q.push(8);
        long g = q.pop();
        long z = (long)q.size();
        igris::event ev;
        int s1 = ev.signal(), i1 = ev.isset();
        ev.wait();
        (void)ev.wait(std::chrono::seconds(0)); // the event is set: returns at once (walks through the event.twait.* points for the probe)
        int r1 = ev.reset(), i2 = ev.isset();
        igris::semaphore sm(1);
        sm.wait(); int v0 = sm.getvalue();
        sm.post(); int v1 = sm.getvalue();
        snprintf(text, sizeof text, "premain lock=%d,%d,%d,%d,%d save=%d fut=%ld wq=%d q=%ld,%ld ev=%d,%d,%d,%d sem=%d,%d",
                 a, b, c2, d, e, (int)save_count_of(sv), (long)(intptr_t)fut, (int)head.size(), g, z, s1, i1, r1, i2, v0, v1);
    }
};
static PreMain premain __attribute__((init_priority(101)));
static const char *PREMAIN_EXPECT = "premain lock=2,1,0,1,0 save=1 fut=77 wq=0 q=7,1 ev=1,1,1,0 sem=0,1";

// constants / widths of the compiled code that the model embeds (op `k consts`)
struct SqMirror // layout of igris::safe_queue<long> (its members are private)
{
    std::queue<long> queue;
    igris::semaphore sem;
};
static constexpr bool sq_mirror_ok = sizeof(SqMirror) == sizeof(igris::safe_queue<long>) && alignof(SqMirror) == alignof(igris::safe_queue<long>);
static std::string consts_text()
{
    // compared result: only what the property fixes - the first operation on a fresh safe_queue goes through (its
    // semaphore starts free; model: init.sem = 1) and the lock count can go negative-free through 0..9 (signed or not is a
    // tag).  Round 3b: the widths of the private counters, the field names and the semaphore's exact initial value
    // read through the layout mirror are internals: TAGS (consts_tags), not compared.
    igris::safe_queue<long> q;
    q.push(1);
    int free0 = (q.size() == 1);
    char b[200];
    snprintf(b, sizeof b, "consts sem0=%d", free0);
    return b;
}
static std::string consts_tags()
{
    igris::safe_queue<long> q;
    char b[200];
    snprintf(b, sizeof b, "consts,sem0-mirror=%d,counter=%zu,savecount=%zu,future=%zu,signed=%d,unknown-points=%u,points-seen=%x",
             sq_mirror_ok ? ((SqMirror *)&q)->sem.getvalue() : -1, sizeof(decltype(syslock_counter())),
             save_count_size<syslock_save_pair>(), future_size<waiter>(), (int)std::is_signed<decltype(syslock_counter())>::value,
             __atomic_load_n(&unknown_points, __ATOMIC_RELAXED), __atomic_load_n(&points_seen, __ATOMIC_RELAXED));
    return b;
}

// ---------------------------------------------------------------------------
// programs
// ---------------------------------------------------------------------------
struct Op
{
    char k;
    long v;
};
struct ThreadLog
{
    // written by the worker thread (plain memory), read after join — or, at a
    // deadlock, through the NOTSAN reader below
    char text[512];
    int len;
    int ops_done;
};
static ThreadLog *tlog; // the current case's logs (each case has its own, so that threads left behind by a deadlock never share memory with a later case)
NOTSAN static int copy_log(int t, char *dst)
{
    int n = tlog[t].len;
    for (int i = 0; i < n; i++)
        dst[i] = tlog[t].text[i];
    return n;
}
static std::string read_log(int t)
{
    char b[512];
    int n = copy_log(t, b);
    return std::string(b, n);
}
NOTSAN static int read_ops_done(int t) { return tlog[t].ops_done; }

struct Case
{
    std::vector<std::vector<Op>> prog;
    igris::dlist_base *head;
    igris::safe_queue<long> *q;
    igris::event *E;     // `e` cases: one event and one semaphore shared by all threads
    igris::semaphore *S;
    bool ecase;
    ThreadLog log[MAXT];
};

static void log_add(Case *c, int t, const char *fmt, long v)
{
    ThreadLog &l = c->log[t];
    l.len += snprintf(l.text + l.len, sizeof l.text - l.len, fmt, v);
}

static void thread_main(Case *c, int t)
{
    my_t = t;
    set_ktid(t);
    syslock_save_pair saved = {0, 0};
    for (const Op &op : c->prog[t])
    {
        switch (op.k)
        {
        case 'L': system_lock(); break;
        case 'U': system_unlock(); break;
        case 'S':
            saved = system_lock_save();
            log_add(c, t, "s%ld,", saved.count);
            // oracle: after releasing every level this thread holds nothing
            if (syslock_counter() != 0)
            {
                char b[128];
                snprintf(b, sizeof b, "thread %d: syslock_counter() = %d after system_lock_save released all %d levels (expected 0)", t, syslock_counter(), saved.count);
                oracle_fail(b);
            }
            break;
        case 'R': system_lock_restore(saved); break;
        case 'W':
        {
            void *fut = nullptr;
            wait_current_schedee(c->head, (int)op.v, &fut);
            event_dead(t);
            log_add(c, t, "w%ld,", (long)(intptr_t)fut);
            break;
        }
        case 'O': unwait_one(c->head, op.v); break;
        case 'A': unwait_all(c->head, op.v); break;
        case 'P': c->q->push(op.v); break;
        case 'G': log_add(c, t, "g%ld,", c->q->pop()); break;
        case 'Z': log_add(c, t, "z%ld,", (long)c->q->size()); break;
        // ---- shared event / semaphore (`e` cases)
        case 'E': c->E->wait(); log_add(c, t, "e%ld,", 1); break;
        case 'T':
        {
            set_nocv(t, op.v == 0);
            bool r = op.v ? c->E->wait(std::chrono::hours(1)) : c->E->wait(std::chrono::seconds(0));
            set_nocv(t, false);
            log_add(c, t, "e%ld,", (long)r);
            break;
        }
        case 'N': log_add(c, t, "n%ld,", (long)c->E->signal()); break;
        case 'C': log_add(c, t, "r%ld,", (long)c->E->reset()); break;
        case 'I': hpoint('i', c->E); log_add(c, t, "i%ld,", (long)c->E->isset()); break;
        case 'w': hpoint('a', c->S); c->S->wait(); break;
        case 'p': hpoint('b', c->S); c->S->post(); break;
        case 'y': hpoint('b', c->S); c->S->trywait(); break;
        case 'v': hpoint('b', c->S); log_add(c, t, "v%ld,", (long)c->S->getvalue()); break;
        }
        c->log[t].ops_done++;
    }
    if (!c->ecase)
        log_add(c, t, "c%ld", (long)syslock_counter());
    my_t = -1;
    mark_done(t);
}

static bool parse_case(const std::vector<std::string> &w, Case &c, std::vector<long> &init, std::string &sched)
{
    if (w.size() != 4 || (w[0] != "c" && w[0] != "e" && w[0] != "u"))
        return false;
    c.ecase = (w[0] == "e");
    std::string cur;
    std::vector<std::string> progs;
    for (char ch : w[1] + "/")
        if (ch == '/') { progs.push_back(cur); cur.clear(); }
        else cur.push_back(ch);
    if (progs.empty() || progs.size() > MAXT)
        return false;
    for (auto &p : progs)
    {
        std::vector<Op> ops;
        std::string tok;
        for (char ch : p + ",")
            if (ch == ',')
            {
                if (!tok.empty() && tok != "-")
                    ops.push_back(Op{tok[0], tok.size() > 1 ? atol(tok.c_str() + 1) : 0});
                tok.clear();
            }
            else tok.push_back(ch);
        c.prog.push_back(ops);
    }
    if (w[2] != "-")
    {
        std::string tok;
        for (char ch : w[2] + ",")
            if (ch == ',') { if (!tok.empty()) init.push_back(atol(tok.c_str())); tok.clear(); }
            else tok.push_back(ch);
    }
    sched = w[3] == "-" ? "" : w[3];
    return true;
}

// ---------------------------------------------------------------------------
// one case on the real code
// ---------------------------------------------------------------------------
static void run_case(const std::vector<std::string> &w, hv::out &o)
{
    if (w.size() == 2 && w[0] == "p")
    {
        o.result = premain.text;
        if (o.result != PREMAIN_EXPECT)
            o.fail(std::string("the library used before main() behaved differently: expected `") + PREMAIN_EXPECT + "`");
        o.tag("premain");
        return;
    }
    if (w.size() == 2 && w[0] == "k")
    {
        o.result = consts_text();
        o.tag(consts_tags().c_str());
        return;
    }
    Case &c = *new Case(); // leaked on purpose when threads stay blocked
    std::vector<long> init;
    std::string sched;
    if (!parse_case(w, c, init, sched))
    {
        o.result = "bad-op";
        return;
    }
    int n = (int)c.prog.size();
    reset_slots(n);
    memset(c.log, 0, sizeof c.log);
    tlog = c.log;
    c.head = new igris::dlist_base();
    c.q = new igris::safe_queue<long>();
    c.E = new igris::event();
    c.S = new igris::semaphore(1);
    if (c.ecase)
        set_shared_ev(c.E);
    for (long x : init)
        c.q->push(x); // my_t < 0: points are no-ops here
    std::vector<std::thread> &th = *new std::vector<std::thread>();
    for (int t = 0; t < n; t++)
        th.emplace_back(thread_main, &c, t);

    std::string trace;
    std::vector<std::pair<int, char>> acts; // completed actions in order (thread, point)
    bool hang = false, multipend = false;
    if (!quiesce())
        hang = true;

    auto check_multi = [&]() {
        // two threads asleep on the same primitive: the order in which the
        // kernel lets them through is not ours to choose -> stop the case
        for (int u = 0; u < n; u++)
            for (int v = u + 1; v < n; v++)
                if (get_st(u) == RUNNING && get_st(v) == RUNNING)
                {
                    Slot a = get_slot(u), b = get_slot(v);
                    auto cls = [](char k) { return k == 'R' ? 'L' : (k == 'w' || k == 'c' || k == 's' || k == 'd' || k == 'e' || k == 'x' || k == 'i') ? 'e' : k; };
                    // shared event: a thread asleep in the condition variable does not compete for the mutex
                    if (c.ecase && (asleep_in_cv(u) || asleep_in_cv(v)))
                        continue;
                    if (cls(a.hook) == cls(b.hook) && a.obj == b.obj)
                        multipend = true;
                }
    };
    // ---- round 3: the order in which ONE unwait_all call signals the waiters
    // it found queued is not fixed by the property.  `refq` = reference wait
    // queue kept while the case runs (from the completed enqueue / unlink
    // points, not from the library's list).  Window = an unwait_all that found
    // >= 2 waiters, from its first unlink until it arrives at system_unlock:
    // schedule tokens naming a member are not executed (`t=`), the members'
    // hand-offs are printed as a sorted set when the window closes.  `literal`
    // (cases `u`): every token is executed, only order-independent output.
    bool literal = (w[0] == "u");
    std::deque<int> refq;
    int win = -1;
    std::set<int> mem, tosignal;
    std::vector<int> dfr;
    int last_unlinked[MAXT];
    bool in_all[MAXT];
    for (int t = 0; t < MAXT; t++) { last_unlinked[t] = -1; in_all[t] = false; }
    auto cur_op = [&](int t) -> Op {
        int i = read_ops_done(t);
        return i < (int)c.prog[t].size() ? c.prog[t][i] : Op{0, 0};
    };
    // ---- oracle (round 3): syslock_counter() of a thread arriving at the first point of an
    // operation = the nesting depth its OWN completed operations left (L +1, U -1, save -> 0,
    // restore -> the saved depth; wait / unwait / queue operations are balanced): the count is
    // per thread and exact, whatever the other threads did meanwhile
    auto check_count = [&](int u) {
        if (c.ecase || get_st(u) != PARKED)
            return;
        Slot sl = get_slot(u);
        int i = read_ops_done(u);
        if (i >= (int)c.prog[u].size())
            return;
        char k = c.prog[u][i].k;
        char first = (k == 'L' || k == 'W' || k == 'O' || k == 'A') ? 'L' : (k == 'P' || k == 'G' || k == 'Z') ? 'a' : k;
        if (sl.hook != first)
            return;
        long depth = 0, saved = 0;
        for (int j = 0; j < i; j++)
        {
            char q = c.prog[u][j].k;
            if (q == 'L') depth++;
            else if (q == 'U') depth--;
            else if (q == 'S') { saved = depth; depth = 0; }
            else if (q == 'R') depth = saved;
        }
        if (sl.cnt != depth)
            o.fail("syslock_counter() of thread " + std::to_string(u) + " is " + std::to_string(sl.cnt) + " at the start of its operation " + std::to_string(i) + ", its own completed operations leave depth " + std::to_string(depth));
    };
    auto grant_core = [&](int t) {
        bool waspend[MAXT];
        unsigned long seq0[MAXT];
        for (int u = 0; u < n; u++)
        {
            Slot s = get_slot(u);
            waspend[u] = (s.st == RUNNING);
            seq0[u] = s.seq;
        }
        char h = get_slot(t).hook;
        Op op_now = cur_op(t);
        const void *obj_now = get_slot(t).obj;
        if (!c.ecase && h == 's')
        {
            // ---- oracle: WHO is signalled.  unwait_one: the head of the reference
            // queue (the longest waiting, or the prioritised one); unwait_all: a
            // waiter that was queued when the call took the lock, each exactly once.
            int target = owner_of_event(obj_now);
            if (op_now.k == 'O' && target != last_unlinked[t])
                o.fail("unwait_one of thread " + std::to_string(t) + " signals thread " + std::to_string(target) + ", the head of the reference wait queue was thread " + std::to_string(last_unlinked[t]));
            if (op_now.k == 'A')
            {
                if (!tosignal.count(target))
                    o.fail("unwait_all of thread " + std::to_string(t) + " signals thread " + std::to_string(target) + " which was not queued when the call took the lock, or signals it a second time");
                tosignal.erase(target);
            }
        }
        if (c.ecase && h == 'e' && c.prog[t][read_ops_done(t)].v == 0 && !mirror_flag(c.E))
        {
            // a zero time-out releases the event mutex and takes it again: with
            // another thread asleep on that mutex the kernel decides who gets it
            for (int u = 0; u < n; u++)
                if (u != t && get_st(u) == RUNNING && !asleep_in_cv(u) && get_slot(u).obj == (const void *)c.E)
                    multipend = true;
            if (multipend)
                return;
        }
        Sleepers sl;
        if (h == 'n')
            note_sleepers(get_slot(t).obj, sl); // notify_all: the sleepers must be seen to have left the condition variable
        release(t);
        if (!quiesce() || (h == 'n' && !wait_woken(sl)))
        {
            hang = true;
            return;
        }
        bool arrived = get_st(t) != RUNNING;
        trace += std::to_string(t) + h + (arrived ? " " : "! ");
        if (arrived)
        {
            set_pending(t, false);
            acts.push_back({t, h});
            if (!c.ecase && h == 'q')
            {
                if (op_now.v) refq.push_front(t); else refq.push_back(t);
            }
            if (!c.ecase && h == 'k' && op_now.k == 'O')
            {
                last_unlinked[t] = refq.empty() ? -1 : refq.front();
                if (!refq.empty()) refq.pop_front();
            }
            if (!c.ecase && op_now.k == 'A' && in_all[t] && get_slot(t).st == PARKED && get_slot(t).hook == 'U')
            {
                // ---- oracle: unwait_all returns only after every waiter it found was signalled
                in_all[t] = false;
                if (!tosignal.empty())
                    o.fail("unwait_all of thread " + std::to_string(t) + " reaches its system_unlock with " + std::to_string(tosignal.size()) + " of the waiters it found queued not signalled (lost wake-up)");
            }
        }
        // pending threads that got through because of this action
        std::vector<std::pair<unsigned long, int>> woke;
        for (int u = 0; u < n; u++)
            if (u != t && waspend[u] && get_st(u) != RUNNING)
                woke.push_back({get_slot(u).seq, u});
        std::sort(woke.begin(), woke.end());
        for (auto &pr : woke)
        {
            int u = pr.second;
            // the point it left is the one recorded before it parked again: kept in `left`
            set_pending(u, false);
        }
        (void)seq0;
        for (auto &pr : woke)
            if (win >= 0 && mem.count(pr.second))
                dfr.push_back(pr.second);
            else
                trace += "+" + std::to_string(pr.second) + " ";
        for (auto &pr : woke)
            acts.push_back({pr.second, '+'});
        check_count(t);
        for (auto &pr : woke)
            check_count(pr.second);
        check_multi();
    };
    auto grant = [&](int t) {
        if (win >= 0 && mem.count(t))
        {
            trace += std::to_string(t) + "= ";
            return;
        }
        if (t >= n || get_st(t) != PARKED)
        {
            trace += std::to_string(t) + "- ";
            return;
        }
        if (!c.ecase && get_slot(t).hook == 'k' && cur_op(t).k == 'A' && !in_all[t])
        {
            // first unlink of an unwait_all: everybody queued now must be signalled by this call
            in_all[t] = true;
            tosignal = std::set<int>(refq.begin(), refq.end());
            std::deque<int> ms = refq;
            refq.clear();
            if (!literal && win < 0 && ms.size() >= 2)
            {
                // members standing at their flag test hold their own event mutex:
                // they go to sleep first, so that the waker never blocks inside the window
                std::vector<int> srt(ms.begin(), ms.end());
                std::sort(srt.begin(), srt.end());
                for (int m : srt)
                    if (!hang && !multipend && get_st(m) == PARKED && get_slot(m).hook == 'c')
                        grant_core(m);
                if (hang || multipend)
                    return;
                win = t;
                mem = std::set<int>(ms.begin(), ms.end());
            }
        }
        grant_core(t);
        if (win == t && !hang && get_st(t) == PARKED && get_slot(t).hook == 'U')
        {
            std::sort(dfr.begin(), dfr.end());
            for (int m : dfr)
                trace += "+" + std::to_string(m) + " ";
            dfr.clear();
            mem.clear();
            win = -1;
        }
    };

    // schedule letter a..f: spurious return of the condition-variable wait of thread 0..5
    bool any_spur = false;
    auto spur = [&](int t) {
        if (win >= 0 && mem.count(t))
        {
            trace += std::to_string(t) + "~= ";
            return;
        }
        if (t >= n || !asleep_in_cv(t))
        {
            trace += std::to_string(t) + "~- ";
            return;
        }
        bool waspend[MAXT];
        for (int u = 0; u < n; u++)
            waspend[u] = (get_st(u) == RUNNING);
        if (!spur_wake(t))
        {
            hang = true;
            return;
        }
        any_spur = true;
        trace += std::to_string(t) + "~ ";
        std::vector<std::pair<unsigned long, int>> woke;
        for (int u = 0; u < n; u++)
            if (waspend[u] && get_st(u) != RUNNING)
                woke.push_back({get_slot(u).seq, u});
        std::sort(woke.begin(), woke.end());
        for (auto &pr : woke)
        {
            set_pending(pr.second, false);
            trace += "+" + std::to_string(pr.second) + " ";
            acts.push_back({pr.second, '+'});
        }
        check_multi();
    };

    size_t consumed = 0;
    for (char ch : sched)
    {
        if (hang || multipend)
            break;
        if (ch >= 'a' && ch <= 'f')
            spur(ch - 'a');
        else
            grant(ch - '0');
        consumed++;
    }
    trace += "| ";
    bool deadlock = false;
    while (!hang && !multipend)
    {
        int pick = -1;
        bool all_done = true;
        for (int t = 0; t < n; t++)
        {
            int st = get_st(t);
            if (st != DONE)
                all_done = false;
            if (st == PARKED && pick < 0 && !(win >= 0 && mem.count(t)))
                pick = t;
        }
        if (all_done)
            break;
        if (pick < 0)
        {
            deadlock = true;
            break;
        }
        grant(pick);
    }

    std::string status = hang ? "hang" : multipend ? "multipend" : deadlock ? "deadlock" : "done";
    std::string obs;
    if (!hang && !multipend)
    {
        if (!deadlock)
            for (auto &x : th)
                x.join();
        for (int t = 0; t < n; t++)
            obs += std::to_string(t) + ":" + read_log(t) + ";";
        if (!deadlock && c.ecase)
        {
            obs += std::string("E") + (c.E->isset() ? "1" : "0") + ";S" + std::to_string(c.S->getvalue());
            // ---- oracle: reference flag / counter replayed over the completed actions
            std::vector<std::pair<int, char>> seq;
            {
                std::istringstream is(trace);
                std::string tk;
                std::vector<char> blockedAt(n, 0);
                while (is >> tk)
                {
                    if (tk == "|") continue;
                    if (tk[0] == '+') { int u = tk[1] - '0'; seq.push_back({u, blockedAt[u]}); continue; }
                    int t = tk[0] - '0';
                    if (tk[1] == '-' || tk[1] == '~' || tk[1] == '=') continue;
                    if (tk.size() > 2 && tk[2] == '!') { blockedAt[t] = tk[1]; continue; }
                    seq.push_back({t, tk[1]});
                }
            }
            bool ref = false;
            long refsv = 1;
            std::vector<size_t> pc(n, 0);
            std::vector<std::string> expect(n);
            for (auto &ev : seq)
            {
                int t = ev.first;
                char k = ev.second;
                if (pc[t] >= c.prog[t].size()) { o.fail("trace has a point after the program of thread " + std::to_string(t) + " ended"); break; }
                const Op &op = c.prog[t][pc[t]];
                bool end = false;
                switch (k)
                {
                case 'c': if (!ref) o.fail("event::wait() of thread " + std::to_string(t) + " returned although the event is not set (spurious wake-up got through)"); expect[t] += "e1,"; break;
                case 'e': expect[t] += ref ? "e1," : "e0,"; if (!ref && op.v) o.fail("event::wait(1h) of thread " + std::to_string(t) + " returned although the event is not set"); break;
                case 's': expect[t] += ref ? "n0," : "n1,"; ref = true; break;
                case 'x': expect[t] += ref ? "r1," : "r0,"; ref = false; break;
                case 'i': expect[t] += ref ? "i1," : "i0,"; end = true; break;
                case 'a': if (refsv <= 0) o.fail("semaphore wait passed at value 0"); refsv--; end = true; break;
                case 'b':
                    if (op.k == 'p') refsv++;
                    else if (op.k == 'y') { if (refsv > 0) refsv--; }
                    else expect[t] += "v" + std::to_string(refsv) + ",";
                    end = true;
                    break;
                case 'u': case 'f': case 't': case 'y': end = true; break;
                default: break;
                }
                if (end) pc[t]++;
            }
            for (int t = 0; t < n; t++)
                if (read_log(t) != expect[t])
                    o.fail("thread " + std::to_string(t) + " observed `" + read_log(t) + "`, the reference event/semaphore says `" + expect[t] + "`");
            if (c.E->isset() != ref) o.fail("final flag differs from the reference");
            if (c.S->getvalue() != refsv) o.fail("final semaphore value differs from the reference");
        }
        else if (!deadlock)
        {
            // ---- oracle: every thread has finished — the system lock must be free
            // (a probe thread takes and releases it; a leaked level would also
            // poison every later case of this worker)
            {
                bool allzero = true;
                for (int t = 0; t < n; t++)
                    if (read_log(t).find("c0") == std::string::npos)
                        allzero = false;
                if (allzero)
                {
                    std::atomic<int> *ok = new std::atomic<int>(0);
                    std::thread probe([ok]() { system_lock(); system_unlock(); ok->store(1); });
                    double t0 = now_s();
                    while (!ok->load() && now_s() - t0 < 3.0)
                    {
                        timespec ts = {0, 50000};
                        nanosleep(&ts, nullptr);
                    }
                    if (ok->load())
                    {
                        probe.join();
                        delete ok;
                    }
                    else
                    {
                        probe.detach();
                        o.fail("the system lock is still held after every thread finished with lock count 0 (a nested acquisition was not undone)");
                        worker_must_exit = true;
                    }
                }
            }
            obs += "wq" + std::to_string(c.head->size()) + ";q";
            std::vector<long> rest;
            while (c.q->size())
                rest.push_back(c.q->pop());
            for (long x : rest)
                obs += std::to_string(x) + ",";
            // ---------------- oracles over the whole run (done) ----------------
            // reference wait queue and reference FIFO driven by the trace of
            // completed actions and the programs; compared with what the real
            // threads observed.
            std::vector<size_t> pc(n, 0);          // op index per thread
            std::vector<std::deque<long>> expect(n); // futures each waiter must receive, in order
            std::deque<int> refq;
            std::deque<long> fifo(init.begin(), init.end());
            std::vector<std::vector<long>> exp_pop(n), exp_size(n);
            // replay: we need to know which op a point belongs to: count points per thread
            std::vector<int> inop(n, 0); // number of points already passed inside current op
            auto cur = [&](int t) -> const Op * { return pc[t] < c.prog[t].size() ? &c.prog[t][pc[t]] : nullptr; };
            std::vector<char> lastpoint(n, 0);
            // rebuild the per-thread point sequence from tokens
            std::vector<std::string> pts(n);
            {
                std::istringstream is(trace);
                std::string tk;
                std::vector<char> blockedAt(n, 0);
                while (is >> tk)
                {
                    if (tk == "|") continue;
                    if (tk[0] == '+') { int u = tk[1] - '0'; pts[u].push_back(blockedAt[u]); pts[u].push_back('#'); continue; }
                    int t = tk[0] - '0';
                    if (tk[1] == '-' || tk[1] == '~' || tk[1] == '=') continue;
                    if (tk.size() > 2 && tk[2] == '!') { blockedAt[t] = tk[1]; continue; }
                    pts[t].push_back(tk[1]); pts[t].push_back('#');
                }
            }
            // global order of completed actions
            std::vector<std::pair<int, char>> seq;
            {
                std::istringstream is(trace);
                std::string tk;
                std::vector<char> blockedAt(n, 0);
                while (is >> tk)
                {
                    if (tk == "|") continue;
                    if (tk[0] == '+') { int u = tk[1] - '0'; seq.push_back({u, blockedAt[u]}); continue; }
                    int t = tk[0] - '0';
                    if (tk[1] == '-' || tk[1] == '~' || tk[1] == '=') continue;
                    if (tk.size() > 2 && tk[2] == '!') { blockedAt[t] = tk[1]; continue; }
                    seq.push_back({t, tk[1]});
                }
            }
            (void)lastpoint; (void)inop;
            std::vector<int> uaf_pending(n, -1);
            for (auto &ev : seq)
            {
                int t = ev.first;
                char k = ev.second;
                const Op *op = cur(t);
                if (!op) { o.fail("trace has a point after the program of thread " + std::to_string(t) + " ended"); break; }
                switch (k)
                {
                case 'q': if (op->v) refq.push_front(t); else refq.push_back(t); break;
                case 'k':
                    if (refq.empty()) o.fail("unlink on an empty reference queue");
                    else { expect[refq.front()].push_back(op->v); refq.pop_front(); }
                    break;
                case 'a':
                    if (op->k == 'P') fifo.push_back(op->v);
                    else if (op->k == 'G') { if (fifo.empty()) o.fail("pop of an empty reference queue"); else { exp_pop[t].push_back(fifo.front()); fifo.pop_front(); } }
                    else exp_size[t].push_back((long)fifo.size());
                    break;
                default: break;
                }
                // end of op?
                bool end = false;
                switch (op->k)
                {
                case 'L': case 'U': case 'S': case 'R': end = true; break;
                case 'W': end = (k == 'r'); break;
                case 'O': case 'A': end = (k == 'U'); break;
                case 'P': end = (k == 'p'); break;
                case 'G': end = (k == 'g'); break;
                case 'Z': end = (k == 'z'); break;
                }
                if (end) pc[t]++;
            }
            for (int t = 0; t < n; t++)
            {
                // parse the thread's own log
                std::string lg = read_log(t), tok;
                std::deque<long> ex = expect[t];
                size_t ip = 0, iz = 0;
                for (char ch : lg + ",")
                {
                    if (ch != ',') { tok.push_back(ch); continue; }
                    if (tok.empty()) continue;
                    long v = atol(tok.c_str() + 1);
                    if (tok[0] == 'w')
                    {
                        if (ex.empty()) o.fail("thread " + std::to_string(t) + " left wait_current_schedee without any unwait having unlinked it (spurious wake-up), future " + std::to_string(v));
                        else { if (ex.front() != v) o.fail("thread " + std::to_string(t) + " woke with future " + std::to_string(v) + ", the unwait that unlinked it carried " + std::to_string(ex.front()) + " (wrong waiter / order)"); ex.pop_front(); }
                    }
                    else if (tok[0] == 'g')
                    {
                        if (ip >= exp_pop[t].size() || exp_pop[t][ip] != v) o.fail("thread " + std::to_string(t) + " popped " + std::to_string(v) + ", FIFO reference says " + (ip < exp_pop[t].size() ? std::to_string(exp_pop[t][ip]) : std::string("nothing")));
                        ip++;
                    }
                    else if (tok[0] == 'z')
                    {
                        if (iz >= exp_size[t].size() || exp_size[t][iz] != v) o.fail("thread " + std::to_string(t) + " size() = " + std::to_string(v) + ", reference " + (iz < exp_size[t].size() ? std::to_string(exp_size[t][iz]) : std::string("?")));
                        iz++;
                    }
                    else if (tok[0] == 'c' && v != 0)
                    {
                        // balanced programs end with count 0 (generator guarantees balance)
                        long bal = 0;
                        for (auto &op : c.prog[t]) bal += (op.k == 'L') - (op.k == 'U');
                        if (bal == 0) o.fail("thread " + std::to_string(t) + " ends a balanced program with syslock_counter() = " + std::to_string(v));
                    }
                    tok.clear();
                }
                if (!ex.empty()) o.fail("thread " + std::to_string(t) + " was unlinked by an unwait but never returned from its wait");
            }
            if (std::vector<long>(fifo.begin(), fifo.end()) != rest) o.fail("remaining queue content differs from the FIFO reference (lost / duplicated / reordered item)");
            if ((size_t)c.head->size() != refq.size()) o.fail("wait queue size differs from reference");
        }
        else
        {
            // lost wake-up: a thread asleep in its event although the event was signalled
            for (int t = 0; t < n; t++)
            {
                Slot s = get_slot(t);
                if (!c.ecase && s.st == RUNNING && (s.hook == 'c' || s.hook == 'w') && was_signalled(s.obj))
                    o.fail("lost wake-up: thread " + std::to_string(t) + " sleeps in event.wait although its event was signalled");
            }
            o.tag("deadlock");
        }
    }
    o.result = (literal ? std::string("u ") : trace) + "| " + status + " | " + obs;
    std::string om = oracle_text();
    if (!om.empty())
        o.fail(om);
    if (hang)
        o.fail("watchdog: threads neither parked nor asleep on a primitive for 20 s");
    // tags
    if (trace.find('!') != std::string::npos) o.tag("blocked-attempt");
    if (trace.find('+') != std::string::npos) o.tag("handoff");
    if (trace.find("c!") != std::string::npos) o.tag("cv-sleep");
    if (multipend) o.tag("multipend");
    if (any_spur) o.tag("spurious-return");
    {
        // wake raced with the park: a signal step happened before the waiter reached its cv check
        size_t ps = trace.find('s'), pc_ = trace.find('c');
        if (ps != std::string::npos && pc_ != std::string::npos && ps < pc_) o.tag("signal-before-wait");
        bool nested = false;
        for (auto &p : c.prog) for (size_t i = 0; i + 1 < p.size(); i++) if (p[i].k == 'L' && p[i + 1].k == 'L') nested = true;
        if (nested) o.tag("reentrant");
        for (auto &p : c.prog) for (auto &op : p) { if (op.k == 'S') o.tag("save-restore"); if (op.k == 'A') o.tag("unwait-all"); if (op.k == 'W' && op.v) o.tag("priority"); }
    }
    (void)consumed;
    if (hang || multipend || deadlock)
    {
        // blocked threads cannot be joined.  Threads that only sleep in the
        // condition variable of their own (stack) event hold nothing and can
        // never wake: leave them behind; anything else ends this worker.
        bool only_sleepers = deadlock;
        for (int t = 0; t < n; t++)
        {
            Slot sl = get_slot(t);
            if (sl.st == RUNNING && !((sl.hook == 'c' || sl.hook == 'e') && sl.cnt == 0))
                only_sleepers = false;
        }
        static int leaked = 0;
        if (!only_sleepers || ++leaked > 150)
            worker_must_exit = true;
        for (auto &x : th)
            x.detach();
        return;
    }
    delete c.head;
    delete c.q;
    delete c.E;
    delete c.S;
    delete &th;
    delete &c;
}

// ---------------------------------------------------------------------------
// worker process / supervisor
// ---------------------------------------------------------------------------
extern "C" __attribute__((no_sanitize("thread"))) const char *__tsan_default_options() { return "atexit_sleep_ms=0"; } // not instrumented: it runs while the TSan runtime is still initialising (an -O0 build, bin/cov, crashed here)

static void worker_loop(int in_fd)
{
    FILE *in = fdopen(in_fd, "r");
    char *line = nullptr;
    size_t cap = 0;
    while (getline(&line, &cap, in) > 0)
    {
        std::string l(line);
        while (!l.empty() && (l.back() == '\n' || l.back() == '\r'))
            l.pop_back();
        hv::out o;
        std::vector<std::string> ws = hv::words(l);
        if (!ws.empty() && ws[0] == "x")
        {
            // degraded case (a point its programs need is absent / the event layout mirror does not fit): run it, let
            // ThreadSanitizer, the crash handling and the watchdogs judge; the trace-derived clauses are not judged
            ws.erase(ws.begin());
            run_case(ws, o);
            o.result = "oracle-only";
            if (o.oracle != "ok" && o.oracle.find("watchdog") == std::string::npos)
            {
                o.oracle = "ok";
                o.tag("oracle-degraded");
            }
            o.tag(ev_mirror_ok ? "point-absent" : "layout-absent");
        }
        else
            run_case(ws, o);
        if (worker_must_exit)
            (void)!write(1, "@@X\n", 4);
        o.emit();
        if (worker_must_exit)
            syscall(SYS_exit_group, 0); // not _exit(): TSan's exit hook sleeps for a second
    }
    syscall(SYS_exit_group, 0);
}

struct Worker
{
    pid_t pid = -1;
    int to = -1, from = -1, err = -1;
    std::string obuf, ebuf;
};

static void start_worker(Worker &w)
{
    int a[2], b[2], e[2];
    if (pipe(a) || pipe(b) || pipe(e))
        exit(3);
    fflush(stdout);
    pid_t p = fork();
    if (p == 0)
    {
        close(a[1]); close(b[0]); close(e[0]);
        dup2(b[1], 1);
        dup2(e[1], 2);
        worker_loop(a[0]);
    }
    close(a[0]); close(b[1]); close(e[1]);
    w.pid = p; w.to = a[1]; w.from = b[0]; w.err = e[0];
    w.obuf.clear(); w.ebuf.clear();
}

static void stop_worker(Worker &w, bool kill_it)
{
    if (w.pid < 0)
        return;
    if (kill_it)
        kill(w.pid, SIGKILL);
    close(w.to);
    int st;
    waitpid(w.pid, &st, 0);
    close(w.from); close(w.err);
    w.pid = -1;
}

static int supervise_lines(const std::vector<std::string> &lines, size_t first, size_t stride)
{
    signal(SIGPIPE, SIG_IGN);
    Worker w;
    for (size_t li = first; li < lines.size(); li += stride)
    {
        const std::string &line = lines[li];
        if (w.pid < 0)
            start_worker(w);
        std::string msg = line + "\n";
        (void)!write(w.to, msg.data(), msg.size());
        std::string result, notes;
        bool got = false, dead = false, exiting = false;
        double deadline = now_s() + 45.0;
        w.ebuf.clear();
        while (!got && !dead)
        {
            pollfd pf[2] = {{w.from, POLLIN, 0}, {w.err, POLLIN, 0}};
            int r = poll(pf, 2, 500);
            if (now_s() > deadline)
                break;
            if (r <= 0)
                continue;
            char buf[4096];
            if (pf[1].revents & (POLLIN | POLLHUP))
            {
                ssize_t k = read(w.err, buf, sizeof buf);
                if (k > 0) w.ebuf.append(buf, k);
            }
            if (pf[0].revents & (POLLIN | POLLHUP))
            {
                ssize_t k = read(w.from, buf, sizeof buf);
                if (k > 0) w.obuf.append(buf, k);
                else if (k == 0) dead = true;
            }
            size_t nl;
            while ((nl = w.obuf.find('\n')) != std::string::npos)
            {
                std::string l = w.obuf.substr(0, nl);
                w.obuf.erase(0, nl + 1);
                if (l.rfind("@@O ", 0) == 0) { if (notes.empty()) notes = l.substr(4); continue; }
                if (l == "@@X") { exiting = true; continue; }
                if (std::count(l.begin(), l.end(), '\t') >= 2) { result = l; got = true; break; }
            }
        }
        if (got && w.ebuf.find("WARNING: ThreadSanitizer") != std::string::npos)
        {
            // report without halt_on_error: the run went on; still a failure
            size_t t1 = result.find('\t'), t2 = result.find('\t', t1 + 1);
            result = result.substr(0, t1) + "\tFAIL ThreadSanitizer report (see stderr)" + result.substr(t2);
            fputs(w.ebuf.c_str(), stderr);
        }
        if (got)
        {
            puts(result.c_str());
            fflush(stdout);
            // a worker that announced a deadlock/multipend exits by itself
            if (exiting)
                stop_worker(w, false);
            continue;
        }
        // worker died (sanitizer) or hangs
        if (!dead)
        {
            stop_worker(w, true);
            printf("HANG\tFAIL watchdog: the case did not finish within 45 s%s%s\t\n", notes.empty() ? "" : "; ", notes.c_str());
            fflush(stdout);
            continue;
        }
        // drain stderr
        for (;;)
        {
            char buf[4096];
            ssize_t k = read(w.err, buf, sizeof buf);
            if (k <= 0) break;
            w.ebuf.append(buf, k);
        }
        stop_worker(w, false);
        std::string kind = "worker died";
        size_t p = w.ebuf.find("SUMMARY: ThreadSanitizer: ");
        if (p != std::string::npos)
        {
            size_t e = w.ebuf.find('\n', p);
            std::string s = w.ebuf.substr(p + 9, e == std::string::npos ? std::string::npos : e - p - 9);
            // drop absolute paths / line numbers: keep "ThreadSanitizer: data race ... in func"
            size_t in = s.rfind(" in ");
            size_t sp = s.find(' ', 17);
            std::string what = s.substr(0, s.find(" /"));
            kind = what + (in != std::string::npos ? s.substr(in) : "");
            (void)sp;
            // which library calls are involved
            for (const char *f : {"pthread_cond_broadcast", "pthread_cond_destroy", "pthread_mutex_lock", "pthread_mutex_unlock"})
                if (w.ebuf.find(f) != std::string::npos) kind += std::string(" [") + f + "]";
        }
        for (char &ch : kind) if (ch == '\t' || ch == '\n') ch = ' ';
        printf("TSAN\tFAIL %s%s%s\t\n", kind.c_str(), notes.empty() ? "" : "; ", notes.c_str());
        fflush(stdout);
    }
    stop_worker(w, false);
    return 0;
}

// Round 3b: the cases are independent of each other (every case has its own threads, queue, lock history; a worker is
// replaced at arbitrary points anyway), so `run` spreads them over K lanes = K supervisor processes, each with its own
// forked worker, lane j taking the lines j, j+K, j+2K, ...  Every lane writes its result lines into an anonymous memory
// file; the parent prints them in the original order.  C20_LANES=1 gives the old single-lane behaviour.
static int supervise()
{
    std::vector<std::string> lines;
    std::string line;
    while (std::getline(std::cin, line))
        lines.push_back(line);
    int K = lines.size() <= 20000 ? 8 : 4; // the thorough tier already runs several seeds side by side
    if (const char *e = getenv("C20_LANES")) K = atoi(e);
    if (K < 1) K = 1;
    if (K > 16) K = 16;
    if (lines.size() < (size_t)(4 * K)) K = 1;
    if (K == 1)
        return supervise_lines(lines, 0, 1);
    std::vector<int> fds(K);
    std::vector<pid_t> pids(K);
    fflush(stdout);
    for (int j = 0; j < K; j++)
    {
        fds[j] = (int)syscall(SYS_memfd_create, "c20lane", 0);
        if (fds[j] < 0) { perror("memfd_create"); return 3; }
        pids[j] = fork();
        if (pids[j] == 0)
        {
            dup2(fds[j], 1);
            supervise_lines(lines, (size_t)j, (size_t)K);
            fflush(stdout);
            syscall(SYS_exit_group, 0);
        }
    }
    std::vector<std::vector<std::string>> outs(K);
    for (int j = 0; j < K; j++)
    {
        int st;
        waitpid(pids[j], &st, 0);
        lseek(fds[j], 0, SEEK_SET);
        std::string all;
        char buf[65536];
        ssize_t k;
        while ((k = read(fds[j], buf, sizeof buf)) > 0) all.append(buf, k);
        close(fds[j]);
        size_t pos = 0, nl;
        while ((nl = all.find('\n', pos)) != std::string::npos) { outs[j].push_back(all.substr(pos, nl - pos)); pos = nl + 1; }
    }
    for (size_t i = 0; i < lines.size(); i++)
    {
        size_t j = i % K, k = i / K;
        if (k < outs[j].size()) puts(outs[j][k].c_str());
        else printf("LANE\tFAIL the supervisor lane %zu ended before this case\t\n", j);
    }
    fflush(stdout);
    return 0;
}

void c20_gen(hv::rng &r, const std::string &tier); // harness/C20_gen.cpp
// does the compiled library have every point the programs of this case need?  (used by the generator)
bool c20_case_degraded(const char *kind, const std::string &progs)
{
    if (!ev_mirror_ok)
        return true;
    auto need = [&](std::initializer_list<const char *> names) { for (auto n : names) if (!point_present(n)) return true; return false; };
    bool ecase = kind[0] == 'e';
    for (size_t i = 0; i < progs.size(); i++)
    {
        char k = progs[i];
        if (i && progs[i - 1] != '/' && progs[i - 1] != ',') continue; // only the op letters
        bool miss = false;
        switch (k)
        {
        case 'L': miss = need({"syslock.lock"}); break;
        case 'U': miss = need({"syslock.unlock"}); break;
        case 'S': miss = need({"syslock.save"}); break;
        case 'R': miss = need({"syslock.restore"}); break;
        case 'W': miss = need({"syslock.lock", "syslock.unlock", "wait.enqueue", "event.wait.lock", "event.wait.cv", "event.wait.unlock", "wait.return"}); break;
        case 'O': case 'A': miss = need({"syslock.lock", "syslock.unlock", "unwait.unlink", "event.signal.lock", "event.signal.notify", "event.signal.unlock"}); break;
        case 'P': miss = need({"sq.push.wait", "sq.push.post"}); break;
        case 'G': miss = need({"sq.pop.wait", "sq.pop.post"}); break;
        case 'Z': miss = need({"sq.size.wait", "sq.size.post"}); break;
        case 'E': miss = need({"event.wait.lock", "event.wait.cv", "event.wait.unlock"}); break;
        case 'T': miss = need({"event.twait.lock", "event.twait.cv", "event.twait.unlock"}); break;
        case 'N': miss = need({"event.signal.lock", "event.signal.notify", "event.signal.unlock"}); break;
        case 'C': miss = ecase && need({"event.reset.lock", "event.reset.unlock"}); break;
        default: break;
        }
        if (miss) return true;
    }
    return false;
}

int main(int argc, char **argv)
{
    if (argc >= 2 && !strcmp(argv[1], "gen"))
    {
        uint64_t seed = argc >= 3 ? strtoull(argv[2], 0, 10) : 1;
        hv::rng r(seed);
        c20_gen(r, argc >= 4 ? argv[3] : "quick");
        // round 3b: leave without TSan's exit handler - a race the pre-main walk ran into (it uses the library with a real
        // second thread, in this process too) must not turn into "generator failed" without a replay; the `run` side
        // reports it with the op it was given
        fflush(stdout);
        syscall(SYS_exit_group, 0);
        return 0;
    }
    if (argc >= 2 && !strcmp(argv[1], "run"))
    {
        init_real_broadcast();
        return supervise();
    }
    fprintf(stderr, "usage: %s gen <seed> <tier> | run\n", argv[0]);
    return 2;
}
