// C03 harness, generator part 1 (`gen <seed> <tier>`): the generators of the first rounds and gen() itself.
#include "C03_gen.h"


static void gen_exhaustive_ring(unsigned maxsize)
{
    unsigned salt = 0;
    for (unsigned size = 2; size <= maxsize; size++)
        for (unsigned h = 0; h < size; h++)
            for (unsigned t = 0; t < size; t++)
            {
                std::vector<std::string> ops = {"putc ff", "putc 00", "putc 80", "getc", "mh1", "mt1", "clean", "each",
                                                "prod1 ff", "dump"};
                for (unsigned n = 0; n <= size + 1; n++)
                {
                    ops.push_back("mh " + S(n));
                    ops.push_back("mt " + S(n));
                    ops.push_back("read " + S(n));
                    bytes d(n);
                    for (unsigned i = 0; i < n; i++) d[i] = SPECIAL[(i + n) % 7];
                    ops.push_back("write " + hex(d));
                    unsigned room = size - 1 - (h + size - t) % size;
                    if (n >= 1 && n <= room) ops.push_back("prod " + hex(d));
                    if (n <= size - 1 - room) ops.push_back("cons " + S(n));
                    if (n == 1 && n <= size - 1 - room) ops.push_back("cons1");
                }
                for (const auto &op : ops)
                {
                    reach(size, h, t, salt++);
                    P(op);
                    // everything that is left must still come out in order
                    P("read " + S(size));
                    P("getc");
                }
                if (h == 0 && t == 0)
                {
                    reach(size, h, t, salt++);
                    for (int i = -3 * (int)size - 1; i <= 3 * (int)size + 1; i++) P("fix " + S(i));
                    for (int i : {INT_MIN, INT_MIN + 1, INT_MAX, INT_MAX - 1, -65536, 65536}) P("fix " + S(i));
                }
            }
}

static const std::vector<unsigned> SIZES = {2, 3, 4, 5, 6, 7, 8, 9, 10, 11, 13, 15, 16, 17, 31, 32, 33, 61, 63,
                                            64, 65, 97, 127, 128, 129, 251, 255, 256, 257, 293, 300};

static void gen_random_ring(rng &r, unsigned size, int nops)
{
    P("reset ring " + S(size) + " " + S(size));
    unsigned cnt = 0, cap = size - 1;
    int phase = 0, left = 0;
    for (int k = 0; k < nops; k++)
    {
        if (left-- <= 0) { phase = (int)r.below(3); left = (int)r.range(5, 40); } // 0 balanced 1 fill 2 drain
        unsigned x = (unsigned)r.below(100);
        bool prodside = phase == 1 ? x < 70 : phase == 2 ? x < 30 : x < 50;
        unsigned y = (unsigned)r.below(100);
        unsigned room = cap - cnt;
        if (y < 6)
        {
            int i = r.chance(50) ? (int)r.range(-3 * (int64_t)size, 3 * (int64_t)size) : r.chance(50) ? -(int)r.below(4) - 1 : (int)r.next();
            P("fix " + S(i));
        }
        else if (y < 8) P("each");
        else if (y < 9 && size <= 64) P("dump");
        else if (y < 10)
        {
            if (r.chance(30)) { P("clean"); cnt = 0; }
            else { unsigned h = (unsigned)r.below(size), t = (unsigned)r.below(size); P("set " + S(h) + " " + S(t)); cnt = (h + size - t) % size; }
        }
        else if (y < 13)
        { // moves that break the producer/consumer contract: only the index clauses apply
            unsigned n = (unsigned)r.range(0, 2 * size + 1);
            if (r.chance(50)) { P("mh " + S(n)); cnt = (cnt + n) % size; }
            else { P("mt " + S(n)); cnt = (cnt + 2 * size * 2 - n % size) % size; }
        }
        else if (prodside)
        {
            unsigned z = (unsigned)r.below(100);
            if (z < 45) { P("putc " + rhex(r, 1)); if (cnt < cap) cnt++; }
            else if (z < 65)
            {
                unsigned n = r.chance(20) ? room + (unsigned)r.below(3) : (unsigned)r.range(0, room + 1);
                P("write " + rhex(r, n)); cnt += std::min(n, room);
            }
            else if (z < 80 && room) { unsigned n = (unsigned)r.range(1, room); P("prod " + rhex(r, n)); cnt += n; }
            else if (z < 88 && room) { P("prod1 " + rhex(r, 1)); cnt++; }
            else if (z < 95 && room) { unsigned n = (unsigned)r.range(0, room); P("mh " + S(n)); cnt += n; }
            else if (room) { P("mh1"); cnt++; }
            else { P("putc " + rhex(r, 1)); }
        }
        else
        {
            unsigned z = (unsigned)r.below(100);
            if (z < 50) { P("getc"); if (cnt) cnt--; }
            else if (z < 75)
            {
                unsigned n = r.chance(20) ? cnt + (unsigned)r.below(3) : (unsigned)r.range(0, cnt + 1);
                P("read " + S(n)); cnt -= std::min(n, cnt);
            }
            else if (z < 84 && cnt) { unsigned n = (unsigned)r.range(0, cnt); P("cons " + S(n)); cnt -= n; }
            else if (z < 90 && cnt) { P("cons1"); cnt--; }
            else if (z < 96 && cnt) { unsigned n = (unsigned)r.range(0, cnt); P("mt " + S(n)); cnt -= n; }
            else if (cnt) { P("mt1"); cnt--; }
            else P("getc");
        }
    }
    P("read " + S(size));
}

// every byte value through every slot alignment of a small ring
static void gen_all_bytes()
{
    for (unsigned size : {2u, 3u, 5u, 8u})
    {
        P("reset ring " + S(size) + " " + S(size));
        for (unsigned b = 0; b < 256; b++)
        {
            P("putc " + hexn(b, 2));
            P("getc");
        }
        for (unsigned b = 0; b < 256; b += size - 1)
        {
            bytes d;
            for (unsigned i = 0; i < size - 1; i++) d.push_back((uint8_t)(255 - (b + i) % 256));
            P("write " + hex(d));
            P("read " + S(size - 1));
        }
    }
}

// sizes above 2^31: the unsigned wrap-around in ring_avail/ring_room and in
// head + bias; no data operations (the buffer is 16 bytes)
static void gen_huge(rng &r)
{
    const std::string F = "@F:C03-bulk-move-size-above-2^31 ";
    for (uint64_t size : {4294967295ull, 2147483648ull, 2147483649ull, 4294967294ull, 3000000000ull})
    {
        P("reset ring " + S(size) + " 16");
        for (int k = 0; k < 60; k++)
        {
            uint64_t h = r.chance(50) ? size - 1 - r.below(4) : r.below(size);
            uint64_t t = r.chance(50) ? r.below(4) : r.chance(50) ? size - 1 - r.below(4) : r.below(size);
            P("set " + S(h) + " " + S(t));
            uint64_t avail = (h + size - t) % size, room = size - 1 - avail;
            switch (r.below(5))
            {
            case 0: P("mh1"); break;
            case 1: P("mt1"); break;
            case 2:
            {
                // a move within the contract (n <= room); when head + n passes 2^32 the
                // unsigned addition wraps before the fix-up: recorded finding
                uint64_t n = r.chance(50) ? std::min<uint64_t>(r.below(8), room) : r.below(room + 1);
                P(std::string(h + n > 0xFFFFFFFFull ? F : "") + "mh " + S(n));
                break;
            }
            case 3:
            {
                uint64_t n = r.chance(50) ? std::min<uint64_t>(r.below(8), avail) : r.below(avail + 1);
                P(std::string(t + n > 0xFFFFFFFFull ? F : "") + "mt " + S(n));
                break;
            }
            default: break;
            }
        }
        // the witness of the finding, always present for the sizes that admit it
        if (size > 2147483648ull && 4294967296ull - (size - 2) + 1 <= size - 1)
        {
            P("set " + S(size - 2) + " " + S(size - 2));
            P(F + "mh " + S(4294967296ull - (size - 2) + 1));
            P("set " + S(size - 3) + " " + S(size - 2));
            P(F + "mt " + S(4294967296ull - (size - 2) + 1));
        }
    }
}

static void gen_typed(rng &r, bool th)
{
    // (a) every head position of small rings: relative accessors
    for (int n = 1; n <= (th ? 12 : 9); n++)
    {
        int size = n + 1;
        for (int h = 0; h < size; h++)
            for (int fill = 0; fill <= n; fill += (fill < 2 || th ? 1 : n - 2 > 0 ? n - 2 : 1))
            {
                // tail = h - fill (mod size): advance both, then push `fill`
                int t = ((h - fill) % size + size) % size;
                P("reset typed " + S(n));
                for (int i = 0; i < t; i++) { P("push " + S(-i - 1)); P("pop"); }
                for (int i = 0; i < fill; i++) P("push " + S(100 + i));
                P("last");
                P("tail");
                P("headplace");
                for (int off = 0; off <= fill; off++)
                    for (int c = 0; off + c <= fill; c++)
                    {
                        if (!th && c > 2 && off + c != fill) continue;
                        P("getlast " + S(off) + " " + S(c) + " 1");
                        P("getlast " + S(off) + " " + S(c) + " 0");
                    }
                if (fill == 0)
                {
                    for (int i = -2 * size - 1; i <= 2 * size + 1; i++) P("fixup " + S(i));
                    for (int a = 0; a < size; a++)
                        for (int b = 0; b < size; b++) P("distance " + S(a) + " " + S(b));
                    for (int i = -1; i < size; i++) { P("setlast " + S(i)); P("last"); }
                }
            }
    }
    // (b) random histories
    std::vector<int> ns = {1, 2, 3, 4, 6, 7, 8, 9, 10, 11, 12, 15, 16, 17, 30, 31, 32, 100, 255, 256, 299};
    int reps = th ? 6 : 1;
    for (int rep = 0; rep < reps; rep++)
        for (int n0 : ns)
        {
            int n = n0;
            P("reset typed " + S(n));
            int cnt = 0, v = 1;
            int nops = th ? 400 : 150;
            for (int k = 0; k < nops; k++)
            {
                int size = n + 1;
                unsigned y = (unsigned)r.below(100);
                if (y < 30) { if (cnt < n || r.chance(3)) { P(std::string(r.chance(50) ? "push " : "emplace ") + S(r.chance(10) ? (int)r.next() : v++)); cnt = cnt < n ? cnt + 1 : 0; } }
                else if (y < 50) { if (cnt > 0 || r.chance(3)) { P("pop"); cnt = cnt > 0 ? cnt - 1 : n; } }
                else if (y < 58) P("last");
                else if (y < 63) P("tail");
                else if (y < 73)
                {
                    int off = (int)r.range(0, cnt), c = (int)r.range(0, cnt - off);
                    if (r.chance(10)) { off = (int)r.range(0, size); c = (int)r.range(0, 2 * size); }
                    P("getlast " + S(off) + " " + S(c) + " " + S((int)r.below(2)));
                }
                else if (y < 80)
                {
                    int i = r.chance(60) ? (int)r.range(-3 * size, 3 * size) : r.chance(50) ? -(int)r.below(3) - 1 : (int)r.next();
                    P("fixup " + S(i));
                }
                else if (y < 86) P("distance " + S(r.below(size)) + " " + S(r.below(size)));
                else if (y < 88) { int i = (int)r.range(-1, size - 1); P("setlast " + S(i)); cnt = -1; }
                else if (y < 90) P("get " + S(r.below(size)));
                else if (y < 92) P("headplace");
                else if (y < 93) { P("clear"); cnt = 0; }
                else if (y < 94) { P("rst"); cnt = 0; }
                else if (y < 96) { n = (int)r.range(1, 40); P("resize " + S(n)); cnt = 0; }
                else if (y < 98) { P("mh1"); cnt = -1; }
                else { P("mt1"); cnt = -1; }
                if (cnt < 0)
                { // counts after an arbitrary move: let the generator re-derive them by draining
                    P("clear"); cnt = 0;
                }
            }
        }
    // (c) ring<char>: read/write through the typed wrapper, all byte values
    for (int n : {1, 2, 3, 7, 8, 10, 255, 256})
    {
        P("reset tchar " + S(n));
        int cnt = 0;
        for (int k = 0; k < (th ? 300 : 80); k++)
        {
            if (r.chance(50)) { int m = (int)r.range(0, n - cnt + 1); P("write " + rhex(r, m)); cnt += std::min(m, n - cnt); }
            else { int m = (int)r.range(0, cnt + 1); P("read " + S(m)); cnt -= std::min(m, cnt); }
            if (r.chance(10)) P("last");
            if (r.chance(10)) P("tail");
        }
        P("read " + S(n + 1));
    }
}

static void gen_cyc(rng &r, bool th)
{
    for (int n = 1; n <= (th ? 12 : 9); n++)
    {
        P("reset cyc " + S(n));
        for (int k = 0; k < 3 * n + 2; k++)
        {
            for (int i = 0; i <= 2 * n + 1; i++) P("at " + S(i));
            P("push " + S(1000 + k));
        }
        for (int i = 0; i <= 3 * n; i++) P("at " + S(i));
    }
    for (int n0 : {10, 15, 16, 17, 100, 255, 256, 257})
    {
        int n = n0;
        P("reset cyc " + S(n));
        for (int k = 0; k < (th ? 1500 : 600); k++)
        {
            unsigned y = (unsigned)r.below(100);
            if (y < 55) P("push " + S(r.chance(10) ? (int)r.next() : k + 1));
            else if (y < 99) P("at " + S(r.chance(70) ? r.below(n) : r.below(3 * n)));
            else { n = (int)r.range(1, 40); P("resize " + S(n)); }
        }
    }
    for (int n = 1; n <= 9; n++)
    {
        P("reset rc " + S(n));
        for (int k = 0; k < 3 * n; k++)
        {
            for (int i = -3 * n - 1; i <= 3 * n + 1; i++)
            {
                if (i >= 0) P("prev " + S(i));
                P("last " + S(i));
                if (k == 0) P("fixpos " + S(i));
            }
            P("inc " + S(k % (2 * n + 1)));
            P("get");
        }
        for (int v = 0; v <= 3 * n; v++) P("set " + S(v));
    }
    for (int n : {10, 17, 100, 256, 1000})
    {
        P("reset rc " + S(n));
        for (int k = 0; k < 200; k++)
        {
            switch (r.below(5))
            {
            case 0: P("inc " + S(r.below(3 * n))); break;
            case 1: P("set " + S(r.below(5 * n))); break;
            case 2: P("prev " + S(r.below(4 * n))); break;
            case 3: P("last " + S(r.range(-4 * n, 4 * n))); break;
            default: P("fixpos " + S(r.range(-4 * n, 4 * n)));
            }
        }
    }
}


// bytering.h: every (head, tail) state of small rings x every operation, all
// byte values, random histories
static void gen_bring(rng &r, bool th)
{
    for (unsigned size = 1; size <= (th ? 12u : 9u); size++)
        for (unsigned rot = 0; rot < size; rot++)
            for (unsigned fill = 0; fill + 1 <= size; fill++)
                for (const char *op : {"push ff", "push 00", "pop", "pushn 80", "popn", "dump"})
                {
                    if (!strcmp(op, "pushn 80") && fill == size - 1) continue;
                    if (!strcmp(op, "popn") && fill == 0) continue;
                    if (size == 1 && rot) continue;
                    P("reset bring " + S(size));
                    for (unsigned i = 0; i < rot && size > 1; i++) { P("push " + hexn(0x10 + i, 2)); P("pop"); }
                    for (unsigned i = 0; i < fill; i++) P("push " + hexn(SPECIAL[(i + rot) % 7], 2));
                    P(op);
                    for (unsigned i = 0; i <= size; i++) P("pop"); // everything left comes out in order
                    P("push 5a");
                    P("pop");
                }
    for (unsigned size : {2u, 3u, 5u, 8u})
    {
        P("reset bring " + S(size));
        for (unsigned b = 0; b < 256; b++) { P("push " + hexn(b, 2)); P("pop"); }
        for (unsigned b = 0; b < 256; b += size - 1)
        {
            for (unsigned i = 0; i < size - 1; i++) P("push " + hexn(255 - (b + i) % 256, 2));
            P("push 77"); // full: rejected
            for (unsigned i = 0; i < size; i++) P("pop");
        }
    }
    for (int rep = 0; rep < (th ? 6 : 1); rep++)
        for (unsigned size : {1u, 2u, 3u, 4u, 5u, 7u, 8u, 9u, 16u, 17u, 31u, 64u, 100u, 255u, 256u, 257u})
        {
            P("reset bring " + S(size));
            unsigned cnt = 0, cap = size - 1;
            int phase = 0, left = 0;
            for (int k = 0; k < (th ? 500 : 200); k++)
            {
                if (left-- <= 0) { phase = (int)r.below(3); left = (int)r.range(5, 2 * size + 5); }
                unsigned x = (unsigned)r.below(100);
                bool prod = phase == 1 ? x < 75 : phase == 2 ? x < 25 : x < 50;
                if (prod)
                {
                    if (cnt < cap && r.chance(20)) { P("pushn " + rhex(r, 1)); cnt++; }
                    else { P("push " + rhex(r, 1)); if (cnt < cap) cnt++; }
                }
                else
                {
                    if (cnt && r.chance(20)) { P("popn"); cnt--; }
                    else { P("pop"); if (cnt) cnt--; }
                }
                if (size <= 16 && r.chance(3)) P("dump");
            }
            for (unsigned i = 0; i <= cnt; i++) P("pop");
        }
}


void gen(rng &r, const std::string &tier)
{
    bool th = tier == "thorough";
    gen_lifetime();
    gen_exhaustive_ring(th ? 12 : 9);
    gen_all_bytes();
    gen_huge(r);
    int reps = th ? 8 : 2;
    for (int rep = 0; rep < reps; rep++)
        for (unsigned size : SIZES)
            gen_random_ring(r, size, th ? 600 : 250);
    gen_typed(r, th);
    gen_cyc(r, th);
    gen_bring(r, th);
    gen_ext(r, th);
    gen_round3(r, th);
    gen_round3b(r, th);
}

