// C03 harness, third translation unit (compiled in parallel, see checks/C03.json "sources"):
// the operation generator (`gen <seed> <tier>`); pure text generation, no igris code.
#include "common/hv.h"
#include <climits>
#include <cstring>
#include <algorithm>

using namespace hv;
typedef std::vector<uint8_t> bytes;
static std::string S(int64_t v) { return std::to_string(v); }

// ------------------------------------------------------------------------ gen
static const std::vector<uint8_t> SPECIAL = {0xff, 0x80, 0x00, 0x7f, 0x01, 0xfe, 0x81, 0xff, 0xff};
static uint8_t rbyte(rng &r, int mode) { return mode == 0 ? r.pick(SPECIAL) : (uint8_t)r.next(); }
static std::string rhex(rng &r, size_t n)
{
    bytes m(n);
    int mode = (int)r.below(3);
    for (auto &x : m) x = rbyte(r, mode);
    return hex(m);
}
static void P(const std::string &s) { puts(s.c_str()); }

// reach (head, tail) through the API only, with `fill` chosen bytes stored
static void reach(unsigned size, unsigned h, unsigned t, unsigned salt)
{
    P("reset ring " + S(size) + " " + S(size));
    if (t) { P("mh " + S(t)); P("mt " + S(t)); }
    unsigned k = (h + size - t) % size;
    if (k)
    {
        bytes d(k);
        for (unsigned i = 0; i < k; i++) d[i] = SPECIAL[(i + salt) % 7];
        P("write " + hex(d));
    }
}

static void gen_exhaustive_ring(unsigned maxsize)
{
    unsigned salt = 0;
    for (unsigned size = 2; size <= maxsize; size++)
        for (unsigned h = 0; h < size; h++)
            for (unsigned t = 0; t < size; t++)
            {
                std::vector<std::string> ops = {"putc ff", "putc 00", "putc 80", "getc", "mh1", "mt1", "clean", "each",
                                                "prod1 ff", "dump"};
                for (unsigned n = 0; n <= size + 1; n++)
                {
                    ops.push_back("mh " + S(n));
                    ops.push_back("mt " + S(n));
                    ops.push_back("read " + S(n));
                    bytes d(n);
                    for (unsigned i = 0; i < n; i++) d[i] = SPECIAL[(i + n) % 7];
                    ops.push_back("write " + hex(d));
                    unsigned room = size - 1 - (h + size - t) % size;
                    if (n >= 1 && n <= room) ops.push_back("prod " + hex(d));
                    if (n <= size - 1 - room) ops.push_back("cons " + S(n));
                    if (n == 1 && n <= size - 1 - room) ops.push_back("cons1");
                }
                for (const auto &op : ops)
                {
                    reach(size, h, t, salt++);
                    P(op);
                    // everything that is left must still come out in order
                    P("read " + S(size));
                    P("getc");
                }
                if (h == 0 && t == 0)
                {
                    reach(size, h, t, salt++);
                    for (int i = -3 * (int)size - 1; i <= 3 * (int)size + 1; i++) P("fix " + S(i));
                    for (int i : {INT_MIN, INT_MIN + 1, INT_MAX, INT_MAX - 1, -65536, 65536}) P("fix " + S(i));
                }
            }
}

static const std::vector<unsigned> SIZES = {2, 3, 4, 5, 6, 7, 8, 9, 10, 11, 13, 15, 16, 17, 31, 32, 33, 61, 63,
                                            64, 65, 97, 127, 128, 129, 251, 255, 256, 257, 293, 300};

static void gen_random_ring(rng &r, unsigned size, int nops)
{
    P("reset ring " + S(size) + " " + S(size));
    unsigned cnt = 0, cap = size - 1;
    int phase = 0, left = 0;
    for (int k = 0; k < nops; k++)
    {
        if (left-- <= 0) { phase = (int)r.below(3); left = (int)r.range(5, 40); } // 0 balanced 1 fill 2 drain
        unsigned x = (unsigned)r.below(100);
        bool prodside = phase == 1 ? x < 70 : phase == 2 ? x < 30 : x < 50;
        unsigned y = (unsigned)r.below(100);
        unsigned room = cap - cnt;
        if (y < 6)
        {
            int i = r.chance(50) ? (int)r.range(-3 * (int64_t)size, 3 * (int64_t)size) : r.chance(50) ? -(int)r.below(4) - 1 : (int)r.next();
            P("fix " + S(i));
        }
        else if (y < 8) P("each");
        else if (y < 9 && size <= 64) P("dump");
        else if (y < 10)
        {
            if (r.chance(30)) { P("clean"); cnt = 0; }
            else { unsigned h = (unsigned)r.below(size), t = (unsigned)r.below(size); P("set " + S(h) + " " + S(t)); cnt = (h + size - t) % size; }
        }
        else if (y < 13)
        { // moves that break the producer/consumer contract: only the index clauses apply
            unsigned n = (unsigned)r.range(0, 2 * size + 1);
            if (r.chance(50)) { P("mh " + S(n)); cnt = (cnt + n) % size; }
            else { P("mt " + S(n)); cnt = (cnt + 2 * size * 2 - n % size) % size; }
        }
        else if (prodside)
        {
            unsigned z = (unsigned)r.below(100);
            if (z < 45) { P("putc " + rhex(r, 1)); if (cnt < cap) cnt++; }
            else if (z < 65)
            {
                unsigned n = r.chance(20) ? room + (unsigned)r.below(3) : (unsigned)r.range(0, room + 1);
                P("write " + rhex(r, n)); cnt += std::min(n, room);
            }
            else if (z < 80 && room) { unsigned n = (unsigned)r.range(1, room); P("prod " + rhex(r, n)); cnt += n; }
            else if (z < 88 && room) { P("prod1 " + rhex(r, 1)); cnt++; }
            else if (z < 95 && room) { unsigned n = (unsigned)r.range(0, room); P("mh " + S(n)); cnt += n; }
            else if (room) { P("mh1"); cnt++; }
            else { P("putc " + rhex(r, 1)); }
        }
        else
        {
            unsigned z = (unsigned)r.below(100);
            if (z < 50) { P("getc"); if (cnt) cnt--; }
            else if (z < 75)
            {
                unsigned n = r.chance(20) ? cnt + (unsigned)r.below(3) : (unsigned)r.range(0, cnt + 1);
                P("read " + S(n)); cnt -= std::min(n, cnt);
            }
            else if (z < 84 && cnt) { unsigned n = (unsigned)r.range(0, cnt); P("cons " + S(n)); cnt -= n; }
            else if (z < 90 && cnt) { P("cons1"); cnt--; }
            else if (z < 96 && cnt) { unsigned n = (unsigned)r.range(0, cnt); P("mt " + S(n)); cnt -= n; }
            else if (cnt) { P("mt1"); cnt--; }
            else P("getc");
        }
    }
    P("read " + S(size));
}

// every byte value through every slot alignment of a small ring
static void gen_all_bytes()
{
    for (unsigned size : {2u, 3u, 5u, 8u})
    {
        P("reset ring " + S(size) + " " + S(size));
        for (unsigned b = 0; b < 256; b++)
        {
            P("putc " + hexn(b, 2));
            P("getc");
        }
        for (unsigned b = 0; b < 256; b += size - 1)
        {
            bytes d;
            for (unsigned i = 0; i < size - 1; i++) d.push_back((uint8_t)(255 - (b + i) % 256));
            P("write " + hex(d));
            P("read " + S(size - 1));
        }
    }
}

// sizes above 2^31: the unsigned wrap-around in ring_avail/ring_room and in
// head + bias; no data operations (the buffer is 16 bytes)
static void gen_huge(rng &r)
{
    const std::string F = "@F:C03-bulk-move-size-above-2^31 ";
    for (uint64_t size : {4294967295ull, 2147483648ull, 2147483649ull, 4294967294ull, 3000000000ull})
    {
        P("reset ring " + S(size) + " 16");
        for (int k = 0; k < 60; k++)
        {
            uint64_t h = r.chance(50) ? size - 1 - r.below(4) : r.below(size);
            uint64_t t = r.chance(50) ? r.below(4) : r.chance(50) ? size - 1 - r.below(4) : r.below(size);
            P("set " + S(h) + " " + S(t));
            uint64_t avail = (h + size - t) % size, room = size - 1 - avail;
            switch (r.below(5))
            {
            case 0: P("mh1"); break;
            case 1: P("mt1"); break;
            case 2:
            {
                // a move within the contract (n <= room); when head + n passes 2^32 the
                // unsigned addition wraps before the fix-up: recorded finding
                uint64_t n = r.chance(50) ? std::min<uint64_t>(r.below(8), room) : r.below(room + 1);
                P(std::string(h + n > 0xFFFFFFFFull ? F : "") + "mh " + S(n));
                break;
            }
            case 3:
            {
                uint64_t n = r.chance(50) ? std::min<uint64_t>(r.below(8), avail) : r.below(avail + 1);
                P(std::string(t + n > 0xFFFFFFFFull ? F : "") + "mt " + S(n));
                break;
            }
            default: break;
            }
        }
        // the witness of the finding, always present for the sizes that admit it
        if (size > 2147483648ull && 4294967296ull - (size - 2) + 1 <= size - 1)
        {
            P("set " + S(size - 2) + " " + S(size - 2));
            P(F + "mh " + S(4294967296ull - (size - 2) + 1));
            P("set " + S(size - 3) + " " + S(size - 2));
            P(F + "mt " + S(4294967296ull - (size - 2) + 1));
        }
    }
}

static void gen_typed(rng &r, bool th)
{
    // (a) every head position of small rings: relative accessors
    for (int n = 1; n <= (th ? 12 : 9); n++)
    {
        int size = n + 1;
        for (int h = 0; h < size; h++)
            for (int fill = 0; fill <= n; fill += (fill < 2 || th ? 1 : n - 2 > 0 ? n - 2 : 1))
            {
                // tail = h - fill (mod size): advance both, then push `fill`
                int t = ((h - fill) % size + size) % size;
                P("reset typed " + S(n));
                for (int i = 0; i < t; i++) { P("push " + S(-i - 1)); P("pop"); }
                for (int i = 0; i < fill; i++) P("push " + S(100 + i));
                P("last");
                P("tail");
                P("headplace");
                for (int off = 0; off <= fill; off++)
                    for (int c = 0; off + c <= fill; c++)
                    {
                        if (!th && c > 2 && off + c != fill) continue;
                        P("getlast " + S(off) + " " + S(c) + " 1");
                        P("getlast " + S(off) + " " + S(c) + " 0");
                    }
                if (fill == 0)
                {
                    for (int i = -2 * size - 1; i <= 2 * size + 1; i++) P("fixup " + S(i));
                    for (int a = 0; a < size; a++)
                        for (int b = 0; b < size; b++) P("distance " + S(a) + " " + S(b));
                    for (int i = -1; i < size; i++) { P("setlast " + S(i)); P("last"); }
                }
            }
    }
    // (b) random histories
    std::vector<int> ns = {1, 2, 3, 4, 6, 7, 8, 9, 10, 11, 12, 15, 16, 17, 30, 31, 32, 100, 255, 256, 299};
    int reps = th ? 6 : 1;
    for (int rep = 0; rep < reps; rep++)
        for (int n0 : ns)
        {
            int n = n0;
            P("reset typed " + S(n));
            int cnt = 0, v = 1;
            int nops = th ? 400 : 150;
            for (int k = 0; k < nops; k++)
            {
                int size = n + 1;
                unsigned y = (unsigned)r.below(100);
                if (y < 30) { if (cnt < n || r.chance(3)) { P(std::string(r.chance(50) ? "push " : "emplace ") + S(r.chance(10) ? (int)r.next() : v++)); cnt = cnt < n ? cnt + 1 : 0; } }
                else if (y < 50) { if (cnt > 0 || r.chance(3)) { P("pop"); cnt = cnt > 0 ? cnt - 1 : n; } }
                else if (y < 58) P("last");
                else if (y < 63) P("tail");
                else if (y < 73)
                {
                    int off = (int)r.range(0, cnt), c = (int)r.range(0, cnt - off);
                    if (r.chance(10)) { off = (int)r.range(0, size); c = (int)r.range(0, 2 * size); }
                    P("getlast " + S(off) + " " + S(c) + " " + S((int)r.below(2)));
                }
                else if (y < 80)
                {
                    int i = r.chance(60) ? (int)r.range(-3 * size, 3 * size) : r.chance(50) ? -(int)r.below(3) - 1 : (int)r.next();
                    P("fixup " + S(i));
                }
                else if (y < 86) P("distance " + S(r.below(size)) + " " + S(r.below(size)));
                else if (y < 88) { int i = (int)r.range(-1, size - 1); P("setlast " + S(i)); cnt = -1; }
                else if (y < 90) P("get " + S(r.below(size)));
                else if (y < 92) P("headplace");
                else if (y < 93) { P("clear"); cnt = 0; }
                else if (y < 94) { P("rst"); cnt = 0; }
                else if (y < 96) { n = (int)r.range(1, 40); P("resize " + S(n)); cnt = 0; }
                else if (y < 98) { P("mh1"); cnt = -1; }
                else { P("mt1"); cnt = -1; }
                if (cnt < 0)
                { // counts after an arbitrary move: let the generator re-derive them by draining
                    P("clear"); cnt = 0;
                }
            }
        }
    // (c) ring<char>: read/write through the typed wrapper, all byte values
    for (int n : {1, 2, 3, 7, 8, 10, 255, 256})
    {
        P("reset tchar " + S(n));
        int cnt = 0;
        for (int k = 0; k < (th ? 300 : 80); k++)
        {
            if (r.chance(50)) { int m = (int)r.range(0, n - cnt + 1); P("write " + rhex(r, m)); cnt += std::min(m, n - cnt); }
            else { int m = (int)r.range(0, cnt + 1); P("read " + S(m)); cnt -= std::min(m, cnt); }
            if (r.chance(10)) P("last");
            if (r.chance(10)) P("tail");
        }
        P("read " + S(n + 1));
    }
}

static void gen_cyc(rng &r, bool th)
{
    for (int n = 1; n <= (th ? 12 : 9); n++)
    {
        P("reset cyc " + S(n));
        for (int k = 0; k < 3 * n + 2; k++)
        {
            for (int i = 0; i <= 2 * n + 1; i++) P("at " + S(i));
            P("push " + S(1000 + k));
        }
        for (int i = 0; i <= 3 * n; i++) P("at " + S(i));
    }
    for (int n0 : {10, 15, 16, 17, 100, 255, 256, 257})
    {
        int n = n0;
        P("reset cyc " + S(n));
        for (int k = 0; k < (th ? 1500 : 600); k++)
        {
            unsigned y = (unsigned)r.below(100);
            if (y < 55) P("push " + S(r.chance(10) ? (int)r.next() : k + 1));
            else if (y < 99) P("at " + S(r.chance(70) ? r.below(n) : r.below(3 * n)));
            else { n = (int)r.range(1, 40); P("resize " + S(n)); }
        }
    }
    for (int n = 1; n <= 9; n++)
    {
        P("reset rc " + S(n));
        for (int k = 0; k < 3 * n; k++)
        {
            for (int i = -3 * n - 1; i <= 3 * n + 1; i++)
            {
                if (i >= 0) P("prev " + S(i));
                P("last " + S(i));
                if (k == 0) P("fixpos " + S(i));
            }
            P("inc " + S(k % (2 * n + 1)));
            P("get");
        }
        for (int v = 0; v <= 3 * n; v++) P("set " + S(v));
    }
    for (int n : {10, 17, 100, 256, 1000})
    {
        P("reset rc " + S(n));
        for (int k = 0; k < 200; k++)
        {
            switch (r.below(5))
            {
            case 0: P("inc " + S(r.below(3 * n))); break;
            case 1: P("set " + S(r.below(5 * n))); break;
            case 2: P("prev " + S(r.below(4 * n))); break;
            case 3: P("last " + S(r.range(-4 * n, 4 * n))); break;
            default: P("fixpos " + S(r.range(-4 * n, 4 * n)));
            }
        }
    }
}


// bytering.h: every (head, tail) state of small rings x every operation, all
// byte values, random histories
static void gen_bring(rng &r, bool th)
{
    for (unsigned size = 1; size <= (th ? 12u : 9u); size++)
        for (unsigned rot = 0; rot < size; rot++)
            for (unsigned fill = 0; fill + 1 <= size; fill++)
                for (const char *op : {"push ff", "push 00", "pop", "pushn 80", "popn", "dump"})
                {
                    if (!strcmp(op, "pushn 80") && fill == size - 1) continue;
                    if (!strcmp(op, "popn") && fill == 0) continue;
                    if (size == 1 && rot) continue;
                    P("reset bring " + S(size));
                    for (unsigned i = 0; i < rot && size > 1; i++) { P("push " + hexn(0x10 + i, 2)); P("pop"); }
                    for (unsigned i = 0; i < fill; i++) P("push " + hexn(SPECIAL[(i + rot) % 7], 2));
                    P(op);
                    for (unsigned i = 0; i <= size; i++) P("pop"); // everything left comes out in order
                    P("push 5a");
                    P("pop");
                }
    for (unsigned size : {2u, 3u, 5u, 8u})
    {
        P("reset bring " + S(size));
        for (unsigned b = 0; b < 256; b++) { P("push " + hexn(b, 2)); P("pop"); }
        for (unsigned b = 0; b < 256; b += size - 1)
        {
            for (unsigned i = 0; i < size - 1; i++) P("push " + hexn(255 - (b + i) % 256, 2));
            P("push 77"); // full: rejected
            for (unsigned i = 0; i < size; i++) P("pop");
        }
    }
    for (int rep = 0; rep < (th ? 6 : 1); rep++)
        for (unsigned size : {1u, 2u, 3u, 4u, 5u, 7u, 8u, 9u, 16u, 17u, 31u, 64u, 100u, 255u, 256u, 257u})
        {
            P("reset bring " + S(size));
            unsigned cnt = 0, cap = size - 1;
            int phase = 0, left = 0;
            for (int k = 0; k < (th ? 500 : 200); k++)
            {
                if (left-- <= 0) { phase = (int)r.below(3); left = (int)r.range(5, 2 * size + 5); }
                unsigned x = (unsigned)r.below(100);
                bool prod = phase == 1 ? x < 75 : phase == 2 ? x < 25 : x < 50;
                if (prod)
                {
                    if (cnt < cap && r.chance(20)) { P("pushn " + rhex(r, 1)); cnt++; }
                    else { P("push " + rhex(r, 1)); if (cnt < cap) cnt++; }
                }
                else
                {
                    if (cnt && r.chance(20)) { P("popn"); cnt--; }
                    else { P("pop"); if (cnt) cnt--; }
                }
                if (size <= 16 && r.chance(3)) P("dump");
            }
            for (unsigned i = 0; i <= cnt; i++) P("pop");
        }
}


// ---- extension: ring_for_each with a body, size 1, copy/move of the typed ring,
// the slot-lifetime counters, ring_counter at the edges of int
static void gen_ext(rng &r, bool th)
{
    // (a) ring_for_each reading the slots: every (size, head, tail) state
    unsigned salt = 0;
    for (unsigned size = 2; size <= (th ? 12u : 9u); size++)
        for (unsigned h = 0; h < size; h++)
            for (unsigned t = 0; t < size; t++)
            {
                reach(size, h, t, salt++);
                P("eachv");
                P("each");
                P("read " + S(size));
                P("eachv");
            }
    // (b) a ring of size 1 (capacity 0: always empty and full)
    P("reset ring 1 1");
    for (const char *op : {"putc ff", "getc", "write 0102", "read 3", "each", "eachv", "mh 0", "mt 0", "mh 1", "mt 1", "mh1", "mt1",
                           "mh 5", "clean", "fix 0", "fix -1", "fix 7", "putc 00", "getc", "dump"})
        P(op);
    // (c) random histories with for_each after every few operations; bulk writes that exactly fill
    for (int rep = 0; rep < (th ? 6 : 1); rep++)
        for (unsigned size : {2u, 3u, 4u, 5u, 7u, 8u, 9u, 16u, 17u, 33u, 64u, 100u})
        {
            P("reset ring " + S(size) + " " + S(size));
            unsigned cnt = 0, cap = size - 1;
            for (int k = 0; k < (th ? 300 : 120); k++)
            {
                unsigned y = (unsigned)r.below(100);
                unsigned room = cap - cnt;
                if (y < 20) { P("putc " + rhex(r, 1)); if (cnt < cap) cnt++; }
                else if (y < 30) { P("write " + rhex(r, room)); cnt = cap; }                  // exactly fills
                else if (y < 40) { unsigned n = (unsigned)r.range(0, room + 2); P("write " + rhex(r, n)); cnt += std::min(n, room); }
                else if (y < 55) { P("getc"); if (cnt) cnt--; }
                else if (y < 65) { P("read " + S(cnt)); cnt = 0; }                            // exactly drains
                else if (y < 75) { unsigned n = (unsigned)r.range(0, cnt + 2); P("read " + S(n)); cnt -= std::min(n, cnt); }
                else if (y < 80 && room) { unsigned n = (unsigned)r.range(1, room); P("prod " + rhex(r, n)); cnt += n; }
                else if (y < 85 && cnt) { unsigned n = (unsigned)r.range(1, cnt); P("cons " + S(n)); cnt -= n; }
                else P("eachv");
            }
            P("eachv");
            P("read " + S(size));
        }
    // (d) igris::ring<int>: copy construction / assignment / move at every (head, fill)
    for (int n = 1; n <= (th ? 8 : 5); n++)
    {
        int size = n + 1;
        for (int h = 0; h < size; h++)
            for (int fill = 0; fill <= n; fill++)
                for (const char *op : {"copy", "assign", "move"})
                {
                    int t = ((h - fill) % size + size) % size;
                    P("reset typed " + S(n));
                    for (int i = 0; i < t; i++) { P("push " + S(-i - 1)); P("pop"); }
                    for (int i = 0; i < fill; i++) P("push " + S(100 + i));
                    P(op);
                    if (fill) { P("last"); P("tail"); P("getlast 0 " + S(fill) + " 0"); }
                    if (fill < n) P("push 777");
                    for (int i = 0; i < fill + (fill < n ? 1 : 0); i++) { P("tail"); P("pop"); }
                    // resize drops the content: the ring is empty with the new capacity
                    P("push 5");
                    P("resize " + S(n + 2));
                    P("push 6");
                    P("tail");
                    P("last");
                }
    }
    for (int rep = 0; rep < (th ? 6 : 1); rep++)
        for (int n : {1, 2, 3, 5, 8, 16, 17, 100})
        {
            P("reset typed " + S(n));
            int cnt = 0, v = 1;
            for (int k = 0; k < (th ? 300 : 120); k++)
            {
                unsigned y = (unsigned)r.below(100);
                if (y < 40) { if (cnt < n) { P("push " + S(v++)); cnt++; } }
                else if (y < 65) { if (cnt) { P("pop"); cnt--; } }
                else if (y < 72) P("copy");
                else if (y < 79) P("assign");
                else if (y < 86) P("move");
                else if (y < 92) { if (cnt) P("last"); }
                else if (y < 98) { if (cnt) P("tail"); }
                else { P("resize " + S(n)); cnt = 0; }
            }
            P("clear");
        }
    // (e) slot lifetime of ring<Tracked>: every contract-respecting push/pop script up to a
    // length on rings of 1..3 elements, then random scripts with clear/resize/copy/move
    for (int n = 1; n <= 3; n++)
    {
        int maxlen = th ? 9 : 7;
        std::vector<std::pair<std::string, int>> cur = {{"", 0}};
        P("lifecount " + S(n) + " -");
        for (int len = 1; len <= maxlen; len++)
        {
            std::vector<std::pair<std::string, int>> nxt;
            for (auto &p : cur)
            {
                if (p.second < n) nxt.push_back({p.first + "u", p.second + 1});
                if (p.second > 0) nxt.push_back({p.first + "o", p.second - 1});
            }
            for (auto &p : nxt) P("lifecount " + S(n) + " " + p.first);
            cur = nxt;
        }
    }
    for (int n : {1, 2, 3, 4, 5, 8, 16})
        for (int rep = 0; rep < (th ? 40 : 8); rep++)
        {
            std::string sc;
            int cnt = 0, len = (int)r.range(1, 4 * n + 10);
            for (int k = 0; k < len; k++)
            {
                unsigned y = (unsigned)r.below(100);
                if (y < 45) { if (cnt < n) { sc += 'u'; cnt++; } }
                else if (y < 80) { if (cnt) { sc += 'o'; cnt--; } }
                else if (y < 85) { sc += 'c'; cnt = 0; }
                else if (y < 89) { sc += 'z'; cnt = 0; }
                else if (y < 95) sc += 'y';
                else sc += 'm';
            }
            P("lifecount " + S(n) + " " + (sc.empty() ? "-" : sc));
        }
    // (f) ring_counter: negative i, results below 0, the edges of int (all inside the
    // precondition "counter +- argument fits an int")
    for (int n : {1, 2, 3, 7, 8})
    {
        P("reset rc " + S(n));
        for (int c = 0; c < n; c++)
        {
            P("set " + S(c));
            for (int i = -2 * n - 1; i < 0; i++) { P("prev " + S(i)); P("last " + S(i)); }
        }
        P("set 0");
        P("inc -1");
        P("get");
        P("prev 0");
        P("last 0");
        P("inc 1");
        P("inc -" + S(n + 2));
        P("last 1");
        P("set 0");
    }
    for (long long n : {2147483647ll, 2147483646ll, 1073741824ll, 65536ll})
    {
        P("reset rc " + S(n));
        P("set " + S(n - 1));
        P("prev 0");
        P("prev " + S(n - 1));
        P("last -1");
        P("inc " + S(2147483647ll - (n - 1))); // counter + arg == INT_MAX exactly
        P("get");
        P("set 2147483647");
        P("get");
        P("set 5");
        P("prev 2147483647");
        P("last 2147483647");
        P("last -2147483642"); // counter - no == INT_MAX
        P("fixpos -2147483648");
        P("fixpos 2147483647");
        P("inc -2147483648");
        P("get");
        P("set 0");
    }
}

// element lifetime in unbounded_array / ring / cyclic_buffer (oracle-only)
static void gen_lifetime()
{
    P("reset rc 1");
    for (int a : {0, 1, 3, 8})
    {
        P("lifeprobe array " + S(a));
        P("lifeprobe arrmisc " + S(a));
        P("lifeprobe arrview " + S(a));
        P("lifeprobe copy " + S(a));
        P("lifeprobe selfassign " + S(a));
        for (int b : {0, 1, 5})
        {
            P("lifeprobe resize " + S(a) + " " + S(b));
            P("lifeprobe assign " + S(a) + " " + S(b));
            P("lifeprobe ringctor " + S(a) + " " + S(b));
            if (a) P("lifeprobe cyc " + S(a) + " " + S(b));
        }
    }
    // repaired in round 3 (5bfd4f6, fcfbb44; was finding C03-ring-element-lifetime): igris::ring<T>
    // placement-constructed over the live element the array constructed and pop() destroyed an element
    // the array destroyed again
    for (int n : {1, 3, 8})
    {
        P("lifeprobe push " + S(n) + " " + S(n));
        P("lifeprobe pushpop " + S(n) + " " + S(2 * n + 1));
    }
}


// ---- round 3 ---------------------------------------------------------------
// every history of depth `depth` on ONE ring of `size` slots over the alphabet putc, getc,
// ring_write of 0..room+1 bytes, ring_read of 0..avail+1 bytes (lengths beyond room+1 / avail+1 take the
// same path as room+1 / avail+1); typed: push / tail+pop inside the contract, write, read
static void gen_hist_rec(const std::string &head, unsigned cap, int depth, unsigned cnt, const std::string &sc, bool typed)
{
    if (depth == 0) { P(head + " " + sc); return; }
    std::string pre = sc.empty() ? "" : sc + ",";
    unsigned room = cap - cnt;
    if (!typed || cnt < cap) gen_hist_rec(head, cap, depth - 1, cnt < cap ? cnt + 1 : cnt, pre + (typed ? "u" : "p"), typed);
    if (!typed || cnt > 0) gen_hist_rec(head, cap, depth - 1, cnt ? cnt - 1 : 0, pre + (typed ? "o" : "g"), typed);
    for (unsigned n = 0; n <= room + 1; n++) gen_hist_rec(head, cap, depth - 1, cnt + std::min(n, room), pre + "w" + S(n), typed);
    for (unsigned n = 0; n <= cnt + 1; n++) gen_hist_rec(head, cap, depth - 1, cnt - std::min(n, cnt), pre + "r" + S(n), typed);
}

static void gen_round3(rng &r, bool th)
{
    // (a) constants of the build, calls before main()
    P("reset widths");
    P("reset premain");
    // (b) interleavings of bulk and single operations on one object, exhaustive
    for (unsigned size = 1; size <= 4; size++) gen_hist_rec("reset hist " + S(size), size - 1, 5, 0, "", false);
    for (unsigned n = 1; n <= 3; n++) gen_hist_rec("reset histt " + S(n), n, th ? 5 : 4, 0, "", true);
    // (c) long inputs (oracle only): > 300 KiB through one ring_write / ring_read, wrapping; more than the room
    P("reset longrun 400003 307200");
    P("reset longrun 65536 307200");
    P("reset longrun 307201 307200");
    // (d) boundary sizes 65535 / 65536 / 65537 with the head next to the wrap point
    for (unsigned size : {65535u, 65536u, 65537u})
    {
        P("reset ring " + S(size) + " " + S(size));
        P("mh " + S(size - 3)); P("mt " + S(size - 3));
        P("write " + rhex(r, 7)); P("putc ff"); P("read 3"); P("getc"); P("fix -1"); P("fix " + S(size));
        P("prod " + rhex(r, 5)); P("cons 4"); P("mh " + S(size - 20)); P("putc 00"); P("mt " + S(size - 9)); P("read 9"); P("getc");
    }
    for (int n : {65534, 65535, 65536})
    {
        P("reset typed " + S(n));
        for (int i = 0; i < 4; i++) { P("push " + S(i + 1)); P("last"); }
        P("setlast " + S(n - 1)); P("mt1"); P("mt1"); P("mt1"); P("mt1"); P("push 7"); P("push 8"); P("last"); P("getlast 0 2 1");
        P("fixup -1"); P("fixup " + S(n + 1)); P("distance 0 " + S(n)); P("pop"); P("tail");
    }
    // (d1) pop / push with the tail and head passing 256 resp. 65536 on a FULL ring of visible content
    // (an index held in a narrower type than unsigned int addresses a stored slot)
    for (auto nw : {std::make_pair(299, 256), std::make_pair(65536, 65536), std::make_pair(65535, 65535)})
    {
        int n = nw.first, W = nw.second;
        P("reset typed " + S(n));
        P("fillbuf");
        P("setlast " + S(W - 8));   // head = W - 7
        P("settail " + S(W - 6));   // full
        for (int i = 0; i < 10; i++) { P("tail"); P("pop"); P("push " + S(7000 + i)); P("last"); }
        for (int i = 0; i < 4; i++) { P("tail"); P("pop"); }
        P("getlast 0 5 1");
    }
    // (d2) a default-constructed ring comes to life through resize()
    for (int n : {0, 1, 3, 8})
    {
        P("reset tempty");
        P("resize " + S(n));
        for (int i = 0; i < n; i++) P("push " + S(10 + i));
        P("last"); P("tail"); P("fixup -1"); P("distance 0 " + S(n)); P("getlast 0 " + S(n) + " 1");
        if (n) { P("pop"); P("tail"); P("push 77"); P("last"); }
        P("moveback " + S(n + 1));
        P("push 5"); P("last"); P("tail"); P("pop");
        P("moveback 0"); P("last");
    }
    // (d3) igris::ring<char>: every member function of the second instantiation, mixed with read/write
    for (int rep = 0; rep < (th ? 6 : 1); rep++)
        for (int n0 : {1, 2, 3, 7, 8, 16})
        {
            int n = n0, cnt = 0;
            P("reset tchar " + S(n));
            for (int k = 0; k < (th ? 300 : 120); k++)
            {
                int size = n + 1;
                unsigned y = (unsigned)r.below(100);
                if (y < 18) { if (cnt < n) { P(std::string(r.chance(50) ? "push " : "emplace ") + S((int)r.range(-128, 127))); cnt++; } }
                else if (y < 32) { if (cnt > 0) { P("pop"); cnt--; } }
                else if (y < 42) { int m = (int)r.range(0, n - cnt + 1); P("write " + rhex(r, m)); cnt += std::min(m, n - cnt); }
                else if (y < 52) { int m = (int)r.range(0, cnt + 1); P("read " + S(m)); cnt -= std::min(m, cnt); }
                else if (y < 57) P("last");
                else if (y < 62) P("tail");
                else if (y < 70) { int off = (int)r.range(0, cnt), c = (int)r.range(0, cnt - off); P("getlast " + S(off) + " " + S(c) + " " + S((int)r.below(2))); }
                else if (y < 75) P("fixup " + S((int)r.range(-3 * size, 3 * size)));
                else if (y < 80) P("distance " + S(r.below(size)) + " " + S(r.below(size)));
                else if (y < 83) P("get " + S(r.below(size)));
                else if (y < 86) P("headplace");
                else if (y < 88) { P("clear"); cnt = 0; }
                else if (y < 90) { P("rst"); cnt = 0; }
                else if (y < 92) { n = (int)r.range(1, 20); P("resize " + S(n)); cnt = 0; }
                else if (y < 94) { P("setlast " + S((int)r.range(-1, size - 1))); P("clear"); cnt = 0; }
                else if (y < 96) { P("mh1"); P("clear"); cnt = 0; }
                else if (y < 98) { P("mt1"); P("clear"); cnt = 0; }
                else { P(r.chance(50) ? "copy" : r.chance(50) ? "assign" : "move"); }
            }
            P("read " + S(n + 1));
        }
    // (e) the argument of push() aliasing the head slot, at every (head, fill < n) of rings 1..4
    for (int n = 1; n <= 4; n++)
        for (int h = 0; h <= n; h++)
            for (int fill = 0; fill < n; fill++)
            {
                int size = n + 1, t = ((h - fill) % size + size) % size;
                P("reset typed " + S(n));
                for (int i = 0; i < t; i++) { P("push " + S(-i - 1)); P("pop"); }
                for (int i = 0; i < fill; i++) P("push " + S(100 + i));
                P("pushalias");
                P("last");
                for (int i = 0; i <= fill; i++) { P("tail"); P("pop"); }
            }
    // (f) lifetime of ring<Tracked> under ANY push/pop sequence (contract or not) and the aliasing push
    for (int n = 1; n <= 2; n++)
    {
        int maxlen = th ? 7 : 6;
        std::vector<std::pair<std::string, int>> cur = {{"", 0}};
        for (int len = 1; len <= maxlen; len++)
        {
            std::vector<std::pair<std::string, int>> nxt;
            for (auto &p : cur)
            {
                nxt.push_back({p.first + (p.second < n ? "u" : "U"), p.second < n ? p.second + 1 : 0});
                nxt.push_back({p.first + (p.second > 0 ? "o" : "O"), p.second > 0 ? p.second - 1 : n});
                nxt.push_back({p.first + "a", p.second < n ? p.second + 1 : 0});
            }
            if (len == maxlen) for (auto &p : nxt) P("lifecount " + S(n) + " " + p.first);
            cur = nxt;
        }
    }
    for (int n : {1, 2, 3, 5, 8})
        for (int rep = 0; rep < (th ? 40 : 8); rep++)
        {
            std::string sc;
            int len = (int)r.range(1, 4 * n + 10);
            int cnt = 0;
            for (int k = 0; k < len; k++)
            {
                unsigned y = (unsigned)r.below(100);
                if (y < 35) { sc += cnt < n ? 'u' : 'U'; cnt = cnt < n ? cnt + 1 : 0; }
                else if (y < 65) { sc += cnt > 0 ? 'o' : 'O'; cnt = cnt > 0 ? cnt - 1 : n; }
                else if (y < 75) { sc += 'a'; cnt = cnt < n ? cnt + 1 : 0; }
                else if (y < 80) { sc += 'c'; cnt = 0; }
                else if (y < 86) { sc += 'z'; cnt = 0; }
                else if (y < 91) sc += 'y';
                else if (y < 96) sc += 'g';
                else sc += 'm';
            }
            P("lifecount " + S(n) + " " + sc);
        }
    for (const char *sc : {"g", "ug", "ugouga", "guog", "Ug", "Og", "ygm", "zgcg", "M", "uMuo", "uMgMy", "UOMa"})
        for (int n : {1, 2, 3}) P("lifecount " + S(n) + " " + sc);
    P("lifecount 3 uuugooog");
    // (g) cyclic_buffer[i] for negative i down to the boundary counter - size + 1 (admissible: counter - i < size)
    for (int n = 1; n <= 6; n++)
    {
        P("reset cyc " + S(n));
        for (int k = 0; k <= 2 * n; k++)
        {
            int counter = k % n;
            for (int i = counter - n + 1; i < 0; i++) P("at " + S(i));
            P("at 0");
            P("push " + S(500 + k));
        }
    }
    // ---- probes of recorded findings (objects / arguments outside the property's quantifier) ----
    // igris::ring<T>::push / pop do not reject on full / empty
    for (int n : {1, 3, 8})
    {
        P("reset typed " + S(n));
        for (int i = 0; i < n; i++) P("push " + S(i + 1));
        P("@F:C03-typed-ring-no-reject pushfull 99");
        P("reset typed " + S(n));
        P("push 1"); P("pop");
        P("@F:C03-typed-ring-no-reject popempty");
    }
    if (getenv("C03_NO_CRASH_PROBES")) { P("reset rc 1"); return; } // bin/cov: an aborting process writes no coverage data
    // cyclic_buffer[i] at i == counter - size: ring_counter_prev returns size, data[size] is outside
    P("reset cyc 3");
    P("@F:C03-cyclic-index-below-range at -3");
    P("reset cyc 4");
    P("push 1");
    P("@F:C03-cyclic-index-below-range at -3");
    // size 0 (ring_init(r, 0), default-constructed igris::ring): division by zero, null store, endless loop
    P("@F:C03-ring-size-zero reset sizezero fix");
    P("@F:C03-ring-size-zero reset sizezero tlast");
    P("@F:C03-ring-size-zero reset sizezero tpush");
    if (th) P("@F:C03-ring-size-zero reset sizezero mh");
    // a moved-from igris::ring keeps r.size and has no storage
    P("@F:C03-moved-from-ring-use reset movedpush 3");
    P("reset rc 1");
}

// ---- round 3b ---------------------------------------------------------------
static void gen_round3b(rng &r, bool th)
{
    // (a) `lifeviol`: ring<Tracked>(n) under ANY sequence over push / pop (contract or not), push(head_place()),
    // emplace(head_place()) [e] and a push whose copy constructor throws [x]; the five ledger counters are
    // compared with the model, the oracle judges values (FIFO; strong guarantee of the throwing push)
    for (int n = 1; n <= 2; n++)
    {
        int maxlen = th ? 6 : 5;
        std::vector<std::string> cur = {""};
        for (int len = 1; len <= maxlen; len++)
        {
            std::vector<std::string> nxt;
            for (auto &p : cur)
                for (char c : {'U', 'O', 'a', 'e', 'x'}) nxt.push_back(p + c);
            for (auto &p : nxt)
                if (len == maxlen || p.back() == 'e' || p.back() == 'x') P("lifeviol " + S(n) + " " + p);
            cur = nxt;
        }
    }
    for (int n : {1, 2, 3, 5, 8, 300})
        for (int rep = 0; rep < (th ? 40 : 8); rep++)
        {
            std::string sc;
            int len = (int)r.range(1, 30);
            for (int k = 0; k < len; k++)
            {
                unsigned y = (unsigned)r.below(100);
                sc += y < 25 ? 'U' : y < 45 ? 'O' : y < 55 ? 'a' : y < 67 ? 'e' : y < 80 ? 'x' : y < 84 ? 'c' : y < 88 ? 'z'
                      : y < 92 ? 'y' : y < 96 ? 'g' : 'm';
            }
            P("lifeviol " + S(n) + " " + sc);
        }
    // the same two events as probes of the recorded findings (lifetime clause of `lifecount`)
    for (const char *sc : {"e", "ue", "uoe"}) P(std::string("@F:C03-emplace-alias-head-slot lifecount 2 ") + sc);
    // repaired in round 3b (6d59c1e; was shown as a VIOLATION by `lifecount 1 x`): a push whose copy constructor
    // throws left the head slot without an object.  Now part of the strict lifetime stream: every sequence over
    // push / pop (contract or not), aliasing push and throwing push of length 5 [6] on rings 1..2, random scripts
    for (const char *sc : {"x", "ux", "uxu", "xx", "uxo", "xuo"}) for (int n : {1, 2, 3}) if (n > 1 || std::string(sc) != "uxu") P("lifecount " + S(n) + " " + sc);
    for (int n = 1; n <= 2; n++)
    {
        int maxlen = th ? 6 : 5;
        std::vector<std::pair<std::string, int>> cur = {{"", 0}};
        for (int len = 1; len <= maxlen; len++)
        {
            std::vector<std::pair<std::string, int>> nxt;
            for (auto &p : cur)
            {
                nxt.push_back({p.first + (p.second < n ? "u" : "U"), p.second < n ? p.second + 1 : 0});
                nxt.push_back({p.first + (p.second > 0 ? "o" : "O"), p.second > 0 ? p.second - 1 : n});
                nxt.push_back({p.first + "a", p.second < n ? p.second + 1 : 0});
                nxt.push_back({p.first + "x", p.second});
            }
            if (len == maxlen) for (auto &p : nxt) if (p.first.find('x') != std::string::npos) P("lifecount " + S(n) + " " + p.first);
            cur = nxt;
        }
    }
    for (int n : {1, 2, 3, 5, 8})
        for (int rep = 0; rep < (th ? 40 : 8); rep++)
        {
            std::string sc;
            int len = (int)r.range(1, 4 * n + 10);
            for (int k = 0; k < len; k++)
            {
                unsigned y = (unsigned)r.below(100);
                sc += y < 25 ? 'U' : y < 45 ? 'O' : y < 55 ? 'a' : y < 80 ? 'x' : y < 84 ? 'c' : y < 88 ? 'z' : y < 92 ? 'y' : y < 96 ? 'g' : 'm';
            }
            P("lifecount " + S(n) + " " + sc);
        }
    // (b) `arr`: unbounded_array<Tracked>(n) under fill / clear / self-assignment / assignment / resize /
    // begin-end: every token sequence up to length 3 [4] on arrays of 0, 1, 3 elements, random longer ones
    const std::vector<std::string> toks = {"f5", "c", "s", "g2", "g0", "z3", "z0", "b"};
    for (int n : {0, 1, 3})
    {
        int maxlen = th ? 4 : 3;
        std::vector<std::string> cur = {""};
        for (int len = 1; len <= maxlen; len++)
        {
            std::vector<std::string> nxt;
            for (auto &p : cur)
                for (auto &t : toks) nxt.push_back(p.empty() ? t : p + "," + t);
            for (auto &p : nxt) P("arr " + S(n) + " " + p);
            cur = nxt;
        }
    }
    for (int n : {2, 7, 255, 256, 257, 1000})
        for (int rep = 0; rep < (th ? 12 : 3); rep++)
        {
            std::string sc;
            int len = (int)r.range(1, 8);
            for (int k = 0; k < len; k++)
            {
                unsigned y = (unsigned)r.below(100);
                std::string t = y < 30 ? "f" + S(r.range(0, 99)) : y < 40 ? "c" : y < 55 ? "s" : y < 70 ? "g" + S(r.pick(std::vector<int>{0, 1, 2, n, n + 1, 300}))
                                : y < 85 ? "z" + S(r.pick(std::vector<int>{0, 1, n - 1, n, n + 1, 256})) : "b";
                sc += (k ? "," : "") + t;
            }
            P("arr " + S(n) + " " + sc);
        }
    // (c) igris::ring<char>::write / read with a size_t request of 2^32 + k (repaired ab63e64: the request was
    // truncated to k): every (head, fill) of rings 1..4 [6] x k in {0, 1, room-1, room, room+1, size}; the source
    // holds size + 1 bytes, more than any ring of that size can take
    for (int n = 1; n <= (th ? 6 : 4); n++)
        for (int head = 0; head <= n; head++)
            for (int fill = 0; fill <= n; fill++)
                for (int which = 0; which < 2; which++)
                {
                    int room = n - fill;
                    std::vector<int> ks = {0, 1, room - 1, room, room + 1, n + 1};
                    if (which) ks = {0, 1, fill - 1, fill, fill + 1, n + 1};
                    std::sort(ks.begin(), ks.end());
                    ks.erase(std::unique(ks.begin(), ks.end()), ks.end());
                    for (int k : ks)
                    {
                        if (k < 0) continue;
                        P("reset tchar " + S(n));
                        for (int i = 0; i < head; i++) { P("push 1"); P("pop"); }
                        for (int i = 0; i < fill; i++) P("push " + S((int)(signed char)SPECIAL[(i + head) % 7]));
                        if (!which)
                        {
                            std::vector<uint8_t> d((size_t)n + 2);
                            for (size_t i = 0; i < d.size(); i++) d[i] = SPECIAL[(i + 3 + k) % 7];
                            P("writebig " + S(k) + " " + hex(d));
                            P("read " + S(n + 1));
                        }
                        else
                        {
                            P("readbig " + S(k));
                            P("write ff00");
                            P("readbig " + S(k));
                        }
                    }
                }
    for (int n : {255, 256, 300})
    {
        P("reset tchar " + S(n));
        std::vector<uint8_t> d((size_t)n + 2);
        for (auto &x : d) x = (uint8_t)r.below(256);
        P("writebig 5 " + hex(d));
        P("readbig 7");
        P("writebig 0 " + hex(d));
        P("readbig 4294967295");
    }
    P("reset rc 1");
}

void gen(rng &r, const std::string &tier)
{
    bool th = tier == "thorough";
    gen_lifetime();
    gen_exhaustive_ring(th ? 12 : 9);
    gen_all_bytes();
    gen_huge(r);
    int reps = th ? 8 : 2;
    for (int rep = 0; rep < reps; rep++)
        for (unsigned size : SIZES)
            gen_random_ring(r, size, th ? 600 : 250);
    gen_typed(r, th);
    gen_cyc(r, th);
    gen_bring(r, th);
    gen_ext(r, th);
    gen_round3(r, th);
    gen_round3b(r, th);
}

