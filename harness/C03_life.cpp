// C03 harness, second translation unit (compiled in parallel with C03.cpp, see checks/C03.json
// "sources"): object-lifetime observation of unbounded_array / igris::ring / cyclic_buffer with a
// ledger type and a counting allocator (`lifeprobe`, `lifecount` ops).
#include "common/hv.h"
#include "C03_acc.h"
#include <deque>
#include <memory>
#include <map>
#include <set>
#include <igris/container/ring.h>
#include <igris/container/cyclic_buffer.h>
#include <igris/container/array_view.h>

using namespace hv;
static std::string S(int64_t v) { return std::to_string(v); }

// ============================================================ lifetime probes
// Oracle-only operations (the Lean model has no notion of object lifetime and
// answers "-"): a ledger of live objects / live allocations observes what the
// containers do to their elements.
struct Ledger
{
    std::set<const void *> live;
    std::set<void *> blocks;
    long allocs = 0;
    long over_live = 0, dead_dtor = 0, dead_read = 0, dead_assign = 0;
    long ctor = 0, dtor = 0;                 // constructor / destructor calls on slots of allocated arrays
    std::map<const char *, size_t> ranges;   // arrays handed out by the counting allocator
    bool in_array(const void *p) const
    {
        auto it = ranges.upper_bound((const char *)p);
        if (it == ranges.begin()) return false;
        --it;
        return (const char *)p < it->first + it->second;
    }
    std::vector<std::string> errs;
    void err(const std::string &e) { if (errs.size() < 4) errs.push_back(e); }
};
static Ledger LG;
static bool THROW_NEXT_COPY = false; // the next Tracked copy constructor throws (before an object exists)
struct Tracked
{
    int v;
    void born()
    {
        if (!LG.live.insert(this).second) { LG.over_live++; LG.err("object constructed over a live object (the old one is never destroyed)"); }
        if (LG.in_array(this)) LG.ctor++;
    }
    Tracked() : v(0) { born(); }
    Tracked(int x) : v(x) { born(); }
    Tracked(const Tracked &o) : v(o.v)
    {
        if (THROW_NEXT_COPY) { THROW_NEXT_COPY = false; throw 1; }
        if (!LG.live.count(&o)) LG.dead_read++;
        born();
    }
    Tracked &operator=(const Tracked &o)
    {
        if (!LG.live.count(this)) { LG.dead_assign++; LG.err("assignment to an object that is not alive"); }
        if (!LG.live.count(&o)) LG.dead_read++;
        v = o.v;
        return *this;
    }
    ~Tracked()
    {
        if (!LG.live.erase(this)) { LG.dead_dtor++; LG.err("destructor run on an object that is not alive (destroyed twice or never constructed)"); }
        if (LG.in_array(this)) LG.dtor++;
    }
};
template <class T> struct CountingAlloc
{
    typedef T value_type;
    CountingAlloc() = default;
    template <class U> CountingAlloc(const CountingAlloc<U> &) {}
    T *allocate(size_t n)
    {
        LG.allocs++;
        T *p = (T *)malloc(n ? n * sizeof(T) : 1);
        LG.blocks.insert(p);
        LG.ranges[(const char *)p] = n * sizeof(T);
        return p;
    }
    void deallocate(T *p, size_t n)
    {
        if (!p) return;
        LG.allocs--;
        auto it = LG.live.lower_bound(p);
        if (it != LG.live.end() && (const char *)*it < (const char *)(p + n)) LG.err("storage released while it holds live objects");
        LG.blocks.erase(p);
        LG.ranges.erase((const char *)p);
        free(p);
    }
};
typedef igris::unbounded_array<Tracked, CountingAlloc<Tracked>> TArr;
typedef igris::ring<Tracked, CountingAlloc<Tracked>> TRng;
typedef igris::cyclic_buffer<Tracked, CountingAlloc<Tracked>> TCyc;

void run_lifeprobe(const std::vector<std::string> &w, out &o)
{
    LG = Ledger();
    const std::string &k = w[1];
    long a = w.size() > 2 ? strtol(w[2].c_str(), 0, 10) : 0, b = w.size() > 3 ? strtol(w[3].c_str(), 0, 10) : 0;
    if (k == "array") { TArr x(a); }
    else if (k == "resize") { TArr x(a); x.resize(b); for (auto &e : x) e = Tracked(1); }
    else if (k == "copy") { TArr x(a); TArr y(x); }
    else if (k == "assign") { TArr x(a), y(b); x = y; }
    else if (k == "selfassign") { TArr x(a); TArr &y = x; x = y; }
    else if (k == "arrmisc")
    { // initializer-list constructor, fill, begin/end, clear
        TArr x{Tracked(1), Tracked(2), Tracked(3)};
        if (x.size() != 3 || x[0].v != 1 || x[2].v != 3) LG.err("initializer_list constructor: wrong content");
        x.fill(Tracked((int)a));
        for (auto &e : x) if (e.v != (int)a) LG.err("fill: element not set");
        if (x.end() - x.begin() != 3) LG.err("begin/end do not span size()");
        x.clear();
        if (x.size() != 0 || x.data() != nullptr) LG.err("clear: array not empty");
    }
    else if (k == "arrview")
    { // array_view constructor; const data / operator[] / begin / end
        std::vector<Tracked> src;
        src.reserve((size_t)a);
        for (long i = 0; i < a; i++) src.emplace_back((int)i + 1);
        igris::array_view<Tracked> view(src.data(), (size_t)a);
        TArr x(view);
        const TArr &cx = x;
        if (cx.size() != (size_t)a) LG.err("array_view constructor: wrong size");
        for (long i = 0; i < a; i++) if (cx[i].v != (int)i + 1 || cx.data()[i].v != (int)i + 1) LG.err("array_view constructor: wrong content");
        if (cx.end() - cx.begin() != a) LG.err("const begin/end do not span size()");
        if (a && cx.data() == src.data()) LG.err("array_view constructor shares the storage");
    }
    else if (k == "ringctor") { TRng r((int)a); TRng e; e.resize(b); }
    else if (k == "push") { TRng r((int)a); for (long i = 0; i < b; i++) r.push(Tracked((int)i)); }
    else if (k == "pushpop") { TRng r((int)a); for (long i = 0; i < b; i++) { r.push(Tracked((int)i)); r.pop(); } }
    else if (k == "cyc") { TCyc c(a); for (long i = 0; i < b; i++) c.push(Tracked((int)i)); c.resize(a + 1); c.push(Tracked(7)); (void)c[0]; }
    else { o.result = "bad-op"; return; }
    if (!LG.live.empty()) LG.err(S(LG.live.size()) + " objects never destroyed");
    if (LG.allocs != 0) LG.err(S(LG.allocs) + " allocations never released");
    for (auto &e : LG.errs) o.fail(k + ": " + e);
    for (void *p : LG.blocks) free(p); // keep LeakSanitizer out of it: the ledger has reported
    LG = Ledger();
    o.tag("lifetime");
    o.result = "-";
}



// `lifecount <n> <script>`: igris::ring<Tracked>(n) runs the script (u push, o pop,
// c clear, z resize(n), y copy-construct + carry on with the copy, m move-construct
// + carry on with the new object) and is destroyed.  Result = the ledger's counts
// "constructed-over-live  destructor-on-dead  read-of-dead" (compared with the
// slot-lifetime model of the Lean side); the oracle judges what C03 states: the
// values come out FIFO for this non-trivial T too.
// Round 3b: `x` = a push whose copy constructor throws (caught here; repaired 6d59c1e: the slot gets a T() back;
// the oracle also judges the strong guarantee: head / tail / avail / stored elements unchanged),
// `e` = `emplace(head_place())` (the argument aliases the slot: emplace has no aliasing test) - it leaves an
// event the lifetime clause forbids (finding C03-emplace-alias-head-slot): in a `lifecount` line it is an `@F:`
// probe; `lifeviol <n> <script>` is the same run whose oracle judges the VALUE clauses only while the
// counters are compared with the model.
void run_lifecount(const std::vector<std::string> &w, out &o)
{
    const bool strict = w[0] == "lifecount";
    LG = Ledger();
    THROW_NEXT_COPY = false;
    size_t n = strtoul(w[1].c_str(), 0, 10);
    const std::string sc = w[2] == "-" ? "" : w[2];
    std::deque<int> q;
    int k = 0;
    {
        std::unique_ptr<TRng> r(new TRng((int)n));
        for (char ch : sc)
        {
            if (ch == 'u')
            {
                if (q.size() == n) { o.result = "bad-op"; return; }
                r->push(Tracked(k)); q.push_back(k); k++;
            }
            else if (ch == 'o')
            {
                if (q.empty()) { o.result = "bad-op"; return; }
                if (r->tail().v != q.front()) o.fail("tail() is " + S(r->tail().v) + ", the oldest pushed is " + S(q.front()));
                r->pop(); q.pop_front();
            }
            else if (ch == 'x' || ch == 'X')
            { // exception safety: T(obj) throws after place->~T() has run
                unsigned h0 = r->head_index(), t0 = r->tail_index(), a0 = r->avail();
                THROW_NEXT_COPY = true;
                bool thrown = false;
                try { if (ch == 'x') r->push(Tracked(k)); else { Tracked t(k); r->emplace(t); } } catch (int) { thrown = true; } // X: emplace has its own handler
                THROW_NEXT_COPY = false;
                if (!thrown) o.fail("push did not propagate the exception of the copy constructor");
                if ((unsigned)r->head_index() != h0 || (unsigned)r->tail_index() != t0 || r->avail() != a0)
                    o.fail("a push that threw changed head / tail / avail");
                size_t i = t0;
                for (size_t j = 0; j < q.size(); j++, i = (i + 1) % r->size())
                    if (r->get((int)i).v != q[j]) { o.fail("a push that threw changed stored element " + S(j)); break; }
                o.tag("throwing-copy");
            }
            else if (ch == 'U' || ch == 'O' || ch == 'a' || ch == 'e')
            { // outside the FIFO contract (push although full, pop although empty) or aliasing push:
              // the lifetime clauses still apply; the reference queue is re-read from the ring
                if (ch == 'U') { r->push(Tracked(k)); k++; }
                else if (ch == 'O') r->pop();
                else if (ch == 'e') { r->emplace(r->head_place()); o.tag("emplace-alias"); }
                else r->push(r->head_place());
                q.clear();
                for (unsigned i = acc::rtail(*r); i != acc::rhead(*r); i = (i + 1) % acc::rsize(*r)) q.push_back(acc::slot(*r, i).v);
            }
            else if (ch == 'c') { r->clear(); q.clear(); }
            else if (ch == 'z') { r->resize(n); q.clear(); }
            else if (ch == 'y') { std::unique_ptr<TRng> c(new TRng(*r)); r = std::move(c); }
            else if (ch == 'm') { std::unique_ptr<TRng> c(new TRng(std::move(*r))); r = std::move(c); }
            else if (ch == 'M') { { TRng c(std::move(*r)); } r->resize(n); q.clear(); } // moved-from ring resized
            else if (ch == 'g') { std::unique_ptr<TRng> c(new TRng(3)); *c = *r; r = std::move(c); } // copy assignment
            else { o.result = "bad-op"; return; }
            if (r->avail() != q.size()) o.fail("avail " + S(r->avail()) + " != reference " + S(q.size()));
            if (!q.empty() && r->last().v != q.back()) o.fail("last() is not the newest");
        }
        // drain: everything stored comes out in order
        while (!q.empty())
        {
            if (r->empty()) { o.fail("ring empty with " + S(q.size()) + " elements outstanding"); break; }
            if (r->tail().v != q.front()) { o.fail("drain: tail() is not the oldest"); break; }
            q.pop_front();
            r->move_tail_one(); // releases the slot without touching the object
        }
    }
    if (LG.allocs != 0) o.fail(S(LG.allocs) + " allocations never released");
    // the lifetime clause (repaired in round 3): every constructed element is destroyed exactly once
    if (strict && LG.over_live) o.fail(S(LG.over_live) + " objects constructed over a living object (never destroyed)");
    if (strict && LG.dead_dtor) o.fail(S(LG.dead_dtor) + " destructor calls on a slot without a living object");
    if (strict && LG.dead_read) o.fail(S(LG.dead_read) + " copies from a slot without a living object");
    if (!LG.live.empty()) o.fail(S(LG.live.size()) + " objects never destroyed");
    if (strict && LG.ctor != LG.dtor) o.fail(S(LG.ctor) + " constructor calls on ring slots, " + S(LG.dtor) + " destructor calls");
    // (round 3b correction: HOW MANY constructor / destructor calls an operation makes is not fixed by anything the
    // property or the lifetime clause states - pop may assign T() instead of destroy + construct -; compared is
    // the balance constructor calls - destructor calls, which must be 0)
    o.result = S(LG.over_live) + " " + S(LG.dead_dtor) + " " + S(LG.dead_read) + " " + S(LG.ctor - LG.dtor);
    if (LG.over_live) o.tag("over-live");
    if (LG.dead_dtor) o.tag("dead-dtor");
    if (LG.dead_read) o.tag("dead-read");
    for (void *p : LG.blocks) free(p);
    LG = Ledger();
    o.tag("lifetime");
}


// `arr <n> <script>` (round 3b): igris::unbounded_array<Tracked>(n) under the members the containers do not
// use.  Tokens: fV fill(V) | c clear() | s self-assignment | gM assignment from an array {1..M} | zM resize(M) |
// b begin()/end().  Result = "<size>:<elements>" after every token, then the ledger after the array has
// been destroyed: constructor / destructor calls on array slots, destructor calls on / assignments to a
// slot without a living object.  Oracle = a std::vector<int> mirror.
void run_arr(const std::vector<std::string> &w, out &o)
{
    LG = Ledger();
    THROW_NEXT_COPY = false;
    size_t n = strtoul(w[1].c_str(), 0, 10);
    std::vector<int> m(n, 0);
    std::string res;
    {
        TArr x(n);
        std::string tok;
        std::stringstream ss(w[2]);
        size_t step = 0;
        while (std::getline(ss, tok, ','))
        {
            ++step;
            long a = tok.size() > 1 ? strtol(tok.c_str() + 1, 0, 10) : 0;
            if (tok[0] == 'f') { x.fill(Tracked((int)a)); m.assign(m.size(), (int)a); }
            else if (tok == "c") { x.clear(); m.clear(); if (x.data() != nullptr) o.fail("clear: data() not null"); }
            else if (tok == "s") { TArr &y = x; x = y; o.tag("self-assign"); }
            else if (tok[0] == 'g')
            {
                TArr y((size_t)a);
                for (long i = 0; i < a; i++) y[(size_t)i] = Tracked((int)i + 1);
                x = y;
                m.resize((size_t)a);
                for (long i = 0; i < a; i++) m[(size_t)i] = (int)i + 1;
                if (a && x.data() == y.data()) o.fail("assignment shares the storage");
            }
            else if (tok[0] == 'z') { x.resize((size_t)a); m.assign((size_t)a, 0); }
            else if (tok == "b") {}
            else { o.result = "bad-op"; return; }
            const TArr &cx = x;
            if (x.size() != m.size()) o.fail("step " + S(step) + " (" + tok + "): size() " + S(x.size()) + ", reference " + S(m.size()));
            if ((size_t)(x.end() - x.begin()) != m.size() || (size_t)(cx.end() - cx.begin()) != m.size() || x.begin() != x.data() || cx.begin() != cx.data())
                o.fail("step " + S(step) + " (" + tok + "): begin()/end() do not span the elements");
            std::string st = S(x.size()) + ":";
            size_t i = 0;
            for (auto it = x.begin(); it != x.end() && i < m.size(); ++it, ++i)
            {
                if (it->v != m[i] || cx[i].v != m[i]) { o.fail("step " + S(step) + " (" + tok + "): element " + S(i) + " is " + S(it->v) + ", reference " + S(m[i])); }
                st += (i ? "," : "") + S(it->v);
            }
            if (m.empty()) st += "-";
            res += (res.empty() ? "" : ";") + st;
        }
    }
    if (LG.allocs != 0) o.fail(S(LG.allocs) + " allocations never released");
    if (!LG.live.empty()) o.fail(S(LG.live.size()) + " objects never destroyed");
    if (LG.over_live) o.fail(S(LG.over_live) + " objects constructed over a living object");
    if (LG.dead_dtor) o.fail(S(LG.dead_dtor) + " destructor calls on a slot without a living object");
    if (LG.dead_assign) o.fail(S(LG.dead_assign) + " assignments to a slot without a living object");
    if (LG.ctor != LG.dtor) o.fail(S(LG.ctor) + " constructor calls on array slots, " + S(LG.dtor) + " destructor calls");
    o.result = res + " | " + S(LG.ctor - LG.dtor) + " " + S(LG.dead_dtor) + " " + S(LG.dead_assign);
    for (void *p : LG.blocks) free(p);
    LG = Ledger();
    o.tag("uarray");
}
