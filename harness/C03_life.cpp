// C03 harness, second translation unit (compiled in parallel with C03.cpp, see checks/C03.json
// "sources"): object-lifetime observation of unbounded_array / igris::ring / cyclic_buffer with a
// ledger type and a counting allocator (`lifeprobe`, `lifecount` ops).
#include "common/hv.h"
#include "C03_acc.h"
#include <deque>
#include <memory>
#include <map>
#include <set>
#include <igris/container/ring.h>
#include <igris/container/cyclic_buffer.h>
#include <igris/container/array_view.h>

using namespace hv;
static std::string S(int64_t v) { return std::to_string(v); }

// ============================================================ lifetime probes
// Oracle-only operations (the Lean model has no notion of object lifetime and
// answers "-"): a ledger of live objects / live allocations observes what the
// containers do to their elements.
struct Ledger
{
    std::set<const void *> live;
    std::set<void *> blocks;
    long allocs = 0;
    long over_live = 0, dead_dtor = 0, dead_read = 0;
    long ctor = 0, dtor = 0;                 // constructor / destructor calls on slots of allocated arrays
    std::map<const char *, size_t> ranges;   // arrays handed out by the counting allocator
    bool in_array(const void *p) const
    {
        auto it = ranges.upper_bound((const char *)p);
        if (it == ranges.begin()) return false;
        --it;
        return (const char *)p < it->first + it->second;
    }
    std::vector<std::string> errs;
    void err(const std::string &e) { if (errs.size() < 4) errs.push_back(e); }
};
static Ledger LG;
struct Tracked
{
    int v;
    void born()
    {
        if (!LG.live.insert(this).second) { LG.over_live++; LG.err("object constructed over a live object (the old one is never destroyed)"); }
        if (LG.in_array(this)) LG.ctor++;
    }
    Tracked() : v(0) { born(); }
    Tracked(int x) : v(x) { born(); }
    Tracked(const Tracked &o) : v(o.v) { if (!LG.live.count(&o)) LG.dead_read++; born(); }
    Tracked &operator=(const Tracked &o)
    {
        if (!LG.live.count(this)) LG.err("assignment to an object that is not alive");
        if (!LG.live.count(&o)) LG.dead_read++;
        v = o.v;
        return *this;
    }
    ~Tracked()
    {
        if (!LG.live.erase(this)) { LG.dead_dtor++; LG.err("destructor run on an object that is not alive (destroyed twice or never constructed)"); }
        if (LG.in_array(this)) LG.dtor++;
    }
};
template <class T> struct CountingAlloc
{
    typedef T value_type;
    CountingAlloc() = default;
    template <class U> CountingAlloc(const CountingAlloc<U> &) {}
    T *allocate(size_t n)
    {
        LG.allocs++;
        T *p = (T *)malloc(n ? n * sizeof(T) : 1);
        LG.blocks.insert(p);
        LG.ranges[(const char *)p] = n * sizeof(T);
        return p;
    }
    void deallocate(T *p, size_t n)
    {
        if (!p) return;
        LG.allocs--;
        auto it = LG.live.lower_bound(p);
        if (it != LG.live.end() && (const char *)*it < (const char *)(p + n)) LG.err("storage released while it holds live objects");
        LG.blocks.erase(p);
        LG.ranges.erase((const char *)p);
        free(p);
    }
};
typedef igris::unbounded_array<Tracked, CountingAlloc<Tracked>> TArr;
typedef igris::ring<Tracked, CountingAlloc<Tracked>> TRng;
typedef igris::cyclic_buffer<Tracked, CountingAlloc<Tracked>> TCyc;

void run_lifeprobe(const std::vector<std::string> &w, out &o)
{
    LG = Ledger();
    const std::string &k = w[1];
    long a = w.size() > 2 ? strtol(w[2].c_str(), 0, 10) : 0, b = w.size() > 3 ? strtol(w[3].c_str(), 0, 10) : 0;
    if (k == "array") { TArr x(a); }
    else if (k == "resize") { TArr x(a); x.resize(b); for (auto &e : x) e = Tracked(1); }
    else if (k == "copy") { TArr x(a); TArr y(x); }
    else if (k == "assign") { TArr x(a), y(b); x = y; }
    else if (k == "selfassign") { TArr x(a); TArr &y = x; x = y; }
    else if (k == "arrmisc")
    { // initializer-list constructor, fill, begin/end, clear
        TArr x{Tracked(1), Tracked(2), Tracked(3)};
        if (x.size() != 3 || x[0].v != 1 || x[2].v != 3) LG.err("initializer_list constructor: wrong content");
        x.fill(Tracked((int)a));
        for (auto &e : x) if (e.v != (int)a) LG.err("fill: element not set");
        if (x.end() - x.begin() != 3) LG.err("begin/end do not span size()");
        x.clear();
        if (x.size() != 0 || x.data() != nullptr) LG.err("clear: array not empty");
    }
    else if (k == "arrview")
    { // array_view constructor; const data / operator[] / begin / end
        std::vector<Tracked> src;
        src.reserve((size_t)a);
        for (long i = 0; i < a; i++) src.emplace_back((int)i + 1);
        igris::array_view<Tracked> view(src.data(), (size_t)a);
        TArr x(view);
        const TArr &cx = x;
        if (cx.size() != (size_t)a) LG.err("array_view constructor: wrong size");
        for (long i = 0; i < a; i++) if (cx[i].v != (int)i + 1 || cx.data()[i].v != (int)i + 1) LG.err("array_view constructor: wrong content");
        if (cx.end() - cx.begin() != a) LG.err("const begin/end do not span size()");
        if (a && cx.data() == src.data()) LG.err("array_view constructor shares the storage");
    }
    else if (k == "ringctor") { TRng r((int)a); TRng e; e.resize(b); }
    else if (k == "push") { TRng r((int)a); for (long i = 0; i < b; i++) r.push(Tracked((int)i)); }
    else if (k == "pushpop") { TRng r((int)a); for (long i = 0; i < b; i++) { r.push(Tracked((int)i)); r.pop(); } }
    else if (k == "cyc") { TCyc c(a); for (long i = 0; i < b; i++) c.push(Tracked((int)i)); c.resize(a + 1); c.push(Tracked(7)); (void)c[0]; }
    else { o.result = "bad-op"; return; }
    if (!LG.live.empty()) LG.err(S(LG.live.size()) + " objects never destroyed");
    if (LG.allocs != 0) LG.err(S(LG.allocs) + " allocations never released");
    for (auto &e : LG.errs) o.fail(k + ": " + e);
    for (void *p : LG.blocks) free(p); // keep LeakSanitizer out of it: the ledger has reported
    LG = Ledger();
    o.tag("lifetime");
    o.result = "-";
}



// `lifecount <n> <script>`: igris::ring<Tracked>(n) runs the script (u push, o pop,
// c clear, z resize(n), y copy-construct + carry on with the copy, m move-construct
// + carry on with the new object) and is destroyed.  Result = the ledger's counts
// "constructed-over-live  destructor-on-dead  read-of-dead" (compared with the
// slot-lifetime model of the Lean side); the oracle judges what C03 states: the
// values come out FIFO for this non-trivial T too.
void run_lifecount(const std::vector<std::string> &w, out &o)
{
    LG = Ledger();
    size_t n = strtoul(w[1].c_str(), 0, 10);
    const std::string sc = w[2] == "-" ? "" : w[2];
    std::deque<int> q;
    int k = 0;
    {
        std::unique_ptr<TRng> r(new TRng((int)n));
        for (char ch : sc)
        {
            if (ch == 'u')
            {
                if (q.size() == n) { o.result = "bad-op"; return; }
                r->push(Tracked(k)); q.push_back(k); k++;
            }
            else if (ch == 'o')
            {
                if (q.empty()) { o.result = "bad-op"; return; }
                if (r->tail().v != q.front()) o.fail("tail() is " + S(r->tail().v) + ", the oldest pushed is " + S(q.front()));
                r->pop(); q.pop_front();
            }
            else if (ch == 'U' || ch == 'O' || ch == 'a')
            { // outside the FIFO contract (push although full, pop although empty) or aliasing push:
              // the lifetime clauses still apply; the reference queue is re-read from the ring
                if (ch == 'U') { r->push(Tracked(k)); k++; }
                else if (ch == 'O') r->pop();
                else r->push(r->head_place());
                q.clear();
                for (unsigned i = acc::rtail(*r); i != acc::rhead(*r); i = (i + 1) % acc::rsize(*r)) q.push_back(acc::slot(*r, i).v);
            }
            else if (ch == 'c') { r->clear(); q.clear(); }
            else if (ch == 'z') { r->resize(n); q.clear(); }
            else if (ch == 'y') { std::unique_ptr<TRng> c(new TRng(*r)); r = std::move(c); }
            else if (ch == 'm') { std::unique_ptr<TRng> c(new TRng(std::move(*r))); r = std::move(c); }
            else if (ch == 'M') { { TRng c(std::move(*r)); } r->resize(n); q.clear(); } // moved-from ring resized
            else if (ch == 'g') { std::unique_ptr<TRng> c(new TRng(3)); *c = *r; r = std::move(c); } // copy assignment
            else { o.result = "bad-op"; return; }
            if (r->avail() != q.size()) o.fail("avail " + S(r->avail()) + " != reference " + S(q.size()));
            if (!q.empty() && r->last().v != q.back()) o.fail("last() is not the newest");
        }
        // drain: everything stored comes out in order
        while (!q.empty())
        {
            if (r->empty()) { o.fail("ring empty with " + S(q.size()) + " elements outstanding"); break; }
            if (r->tail().v != q.front()) { o.fail("drain: tail() is not the oldest"); break; }
            q.pop_front();
            r->move_tail_one(); // releases the slot without touching the object
        }
    }
    if (LG.allocs != 0) o.fail(S(LG.allocs) + " allocations never released");
    // the lifetime clause (repaired in round 3): every constructed element is destroyed exactly once
    if (LG.over_live) o.fail(S(LG.over_live) + " objects constructed over a living object (never destroyed)");
    if (LG.dead_dtor) o.fail(S(LG.dead_dtor) + " destructor calls on a slot without a living object");
    if (LG.dead_read) o.fail(S(LG.dead_read) + " copies from a slot without a living object");
    if (!LG.live.empty()) o.fail(S(LG.live.size()) + " objects never destroyed");
    if (LG.ctor != LG.dtor) o.fail(S(LG.ctor) + " constructor calls on ring slots, " + S(LG.dtor) + " destructor calls");
    o.result = S(LG.over_live) + " " + S(LG.dead_dtor) + " " + S(LG.dead_read) + " " + S(LG.ctor) + " " + S(LG.dtor);
    if (LG.over_live) o.tag("over-live");
    if (LG.dead_dtor) o.tag("dead-dtor");
    if (LG.dead_read) o.tag("dead-read");
    for (void *p : LG.blocks) free(p);
    LG = Ledger();
    o.tag("lifetime");
}

